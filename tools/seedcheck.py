#!/usr/bin/env python3
"""Confirmation of seeded defects produced by the sub-agents (development aid, not a registered check).

  seedcheck.py suite <ID> <N>    scratch worktree + patch: pinned suite vs BASELINE stable_pass, demo exits (mutated / clean)
  seedcheck.py check <ID> <N>    patch applied to /repo: ./vcheck <ID> quick (then thorough when quick misses), /repo restored
Results are merged into /verif/seeded/<ID>/<N>/meta.json next to patch.diff and demo.py."""
import json, os, shutil, subprocess, sys, xml.etree.ElementTree as ET

SEED = os.environ.get("SEED_SRC", "/tmp/seed")
OFFSET = int(os.environ.get("SEED_OFFSET", "0"))      # round 2: source index n is kept as n + OFFSET
KEEP = "/verif/seeded"


def sh(cmd, **kw):
    return subprocess.run(cmd, capture_output=True, text=True, **kw)


def load_meta(pid, n):
    d = os.path.join(KEEP, pid, str(int(n) + OFFSET))
    os.makedirs(d, exist_ok=True)
    src = os.path.join(SEED, pid, "out")
    for a, b in (("patch_%s.diff" % n, "patch.diff"), ("demo_%s.py" % n, "demo.py")):
        if os.path.exists(os.path.join(src, a)) and not os.path.exists(os.path.join(d, b)):
            shutil.copy(os.path.join(src, a), os.path.join(d, b))
    mp = os.path.join(d, "meta.json")
    if os.path.exists(mp):
        return d, json.load(open(mp))
    meta = {}
    if os.path.exists(os.path.join(src, "meta_%s.json" % n)):
        meta = {"agent": json.load(open(os.path.join(src, "meta_%s.json" % n)))}
    return d, meta


def save_meta(d, meta):
    json.dump(meta, open(os.path.join(d, "meta.json"), "w"), indent=1)


def suite(pid, n):
    d, meta = load_meta(pid, n)
    wt = "/tmp/seedchk/%s_%s" % (pid, n)
    os.makedirs("/tmp/seedchk", exist_ok=True)
    sh(["git", "-C", "/repo", "worktree", "remove", "--force", wt])
    r = sh(["git", "-C", "/repo", "worktree", "add", "--detach", wt, "HEAD"])
    assert r.returncode == 0, r.stderr
    try:
        r = sh(["git", "-C", wt, "apply", os.path.join(d, "patch.diff")])
        if r.returncode != 0:
            # the tree moved under the patch (a later fix commit touched neighbouring lines): retry with less context
            # and keep the re-based patch
            r = sh(["git", "-C", wt, "apply", "-C1", "--recount", os.path.join(d, "patch.diff")])
            if r.returncode == 0:
                open(os.path.join(d, "patch.diff"), "w").write(sh(["git", "-C", wt, "diff"]).stdout)
                meta["rebased_on"] = sh(["git", "-C", "/repo", "rev-parse", "--short", "HEAD"]).stdout.strip()
        meta["applies"] = r.returncode == 0
        if r.returncode != 0:
            meta["apply_error"] = r.stderr[-500:]
            return
        env = dict(os.environ, PYTHONPATH=wt, OMP_NUM_THREADS="2", PYTHONHASHSEED="0")
        env.pop("XITORCH_VERIF", None)
        r = sh(["/venv/bin/python", os.path.join(d, "demo.py")], cwd=wt, env=env, timeout=1800)
        meta["demo_exit_mutated"] = r.returncode
        meta["demo_tail_mutated"] = (r.stdout + r.stderr)[-600:]
        env0 = dict(env, PYTHONPATH="/repo")
        r = sh(["/venv/bin/python", os.path.join(d, "demo.py")], cwd="/repo", env=env0, timeout=1800)
        meta["demo_exit_clean"] = r.returncode
        junit = wt + ".junit.xml"
        r = sh(["/venv/bin/python", "-m", "pytest", "-q", "-p", "no:cacheprovider", "--timeout=900",
                "--continue-on-collection-errors", "--junitxml=" + junit], cwd=wt, env=env, timeout=3600)
        b = json.load(open("/root/.vp/BASELINE.json"))
        passed = set()
        for tc in ET.parse(junit).iter("testcase"):
            if not any(c.tag in ("failure", "error", "skipped") for c in tc):
                passed.add(tc.get("classname") + "::" + tc.get("name"))
        missing = sorted(set(b["stable_pass"]) - passed)
        meta["suite_stable_pass_missing"] = missing[:10]
        meta["suite_ok"] = not missing
        meta["suite_tail"] = r.stdout.strip().splitlines()[-1][-200:] if r.stdout.strip() else ""
        os.remove(junit)
    finally:
        save_meta(d, meta)
        sh(["git", "-C", "/repo", "worktree", "remove", "--force", wt])
        print(pid, n, {k: meta.get(k) for k in ("applies", "demo_exit_mutated", "demo_exit_clean", "suite_ok", "suite_tail")})


def check(pid, n, target=None):
    """SEED_SCRATCH=1: run the check from a scratch copy of /verif against a scratch worktree with the patch applied
    (XV_REPO), so that several seeded changes can be examined at the same time and /repo is never touched."""
    d, meta = load_meta(pid, n)
    target = target or pid
    scratch = os.environ.get("SEED_SCRATCH") == "1"
    wt = "/tmp/seedchk/%s_%s_c" % (pid, n)
    vs = "/tmp/seedchk/%s_%s_v" % (pid, n)
    try:
        if scratch:
            os.makedirs("/tmp/seedchk", exist_ok=True)
            sh(["git", "-C", "/repo", "worktree", "remove", "--force", wt])
            r = sh(["git", "-C", "/repo", "worktree", "add", "--detach", wt, "HEAD"])
            assert r.returncode == 0, r.stderr
            r = sh(["git", "-C", wt, "apply", os.path.join(d, "patch.diff")])
            assert r.returncode == 0, r.stderr
            shutil.rmtree(vs, ignore_errors=True)
            r = sh(["rsync", "-a", "--exclude", ".git", "--exclude", "seeded", "--exclude", "replay", "/verif/", vs + "/"])
            assert r.returncode == 0, r.stderr
            vcheck, env = vs + "/vcheck", dict(os.environ, XV_REPO=wt)
        else:
            assert sh(["git", "-C", "/repo", "status", "--porcelain"]).stdout.strip() == "", "repo dirty"
            r = sh(["git", "-C", "/repo", "apply", os.path.join(d, "patch.diff")])
            assert r.returncode == 0, r.stderr
            vcheck, env = "/verif/vcheck", dict(os.environ)
        res = {}
        for tier in ("quick", "thorough"):
            r = sh([vcheck, target, "--tier", tier], timeout=7200, env=env)
            viol = [l for l in r.stdout.splitlines() if l.startswith("VIOLATION")]
            res[tier] = {"exit": r.returncode, "violations": viol[:4]}
            for v in viol[:1]:
                rp = v.split("replay=")[1].split()[0]
                try:
                    rd = json.load(open(rp))
                    res[tier]["first_key"] = rd.get("key") or [b_["what"] for b_ in rd.get("broken", [])][:3]
                except Exception:
                    pass
            if r.returncode != 0:
                break
        meta.setdefault("vcheck", {})[target] = res
        meta["caught"] = any(v.get("exit") for t_ in meta["vcheck"].values() for v in t_.values())
    finally:
        if scratch:
            sh(["git", "-C", "/repo", "worktree", "remove", "--force", wt])
            shutil.rmtree(vs, ignore_errors=True)
        else:
            sh(["git", "-C", "/repo", "checkout", "--", "."])
        save_meta(d, meta)
        print(pid, n, target, json.dumps(meta.get("vcheck", {}).get(target))[:400])


if __name__ == "__main__":
    cmd, pid, n = sys.argv[1:4]
    if cmd == "suite":
        suite(pid, n)
    else:
        check(pid, n, sys.argv[4] if len(sys.argv) > 4 else None)

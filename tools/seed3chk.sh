#!/bin/bash
# re-check (scratch mode) already-confirmed round-3 seeds: seed3chk.sh C03 7 8 9   (indices as kept under seeded/)
ID=$1; shift
for n in "$@"; do SEED_SCRATCH=1 /venv/bin/python /verif/tools/seedcheck.py check $ID $n; done

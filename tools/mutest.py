#!/usr/bin/env python3
"""development aid: apply one textual mutation to /repo (CRLF-preserving), run a check, restore /repo.
   usage: mutest.py C05 xitorch/_impls/linalg/symeig.py 'old' 'new' [tier]"""
import subprocess, sys, os
sys.path.insert(0, os.path.dirname(__file__))
from crlf_edit import edit
prop, rel, old, new = sys.argv[1:5]
tier = sys.argv[5] if len(sys.argv) > 5 else "quick"
path = os.path.join("/repo", rel)
assert subprocess.run(["git", "-C", "/repo", "status", "--porcelain"], capture_output=True, text=True).stdout.strip() == "", "repo dirty"
try:
    edit(path, old, new)
    r = subprocess.run(["/verif/vcheck", prop, "--tier", tier], capture_output=True, text=True)
    lines = [l[:260] for l in r.stdout.splitlines() if l.startswith(("VIOLATION", "BROKEN", prop + " tier"))]
    print("rc=%d" % r.returncode); print("\n".join(lines[:6]))
finally:
    subprocess.run(["git", "-C", "/repo", "checkout", "--", "."])

#!/usr/bin/env python3
"""print the DESIGN.md table rows (Seed | Change | Needs | Caught by) for kept seeds with index in [lo, hi]: seedtable.py 13 14"""
import glob, json, sys
lo, hi = int(sys.argv[1]), int(sys.argv[2])
for f in sorted(glob.glob('/verif/seeded/*/*/meta.json'), key=lambda p: (p.split('/')[-3], int(p.split('/')[-2]))):
    pid, n = f.split('/')[-3:-1]
    if not lo <= int(n) <= hi:
        continue
    m = json.load(open(f))
    ag = m.get('agent', {})
    caught = ""
    for t, r in m.get('vcheck', {}).items():
        for tier, v in r.items():
            if v.get('exit'):
                k = v.get('first_key')
                if isinstance(k, list):
                    k = "broken tie: " + str(k[0])
                nf = any('no-failing-input-found' in x for x in v.get('violations', []))
                caught = "%s %s: `%s`%s" % (t, tier, k, " (no failing input)" if nf else "")
    fv = m.get('first_verdict')
    first = "" if fv is None else (" — first run: caught" if fv.get('caught') else " — **first run: missed**")
    cl = lambda x, k: str(x or '')[:k].replace('|', '/').replace('\n', ' ')
    print("| %s/%s | %s | %s | %s%s |" % (pid, n, cl(ag.get('summary'), 170), cl(ag.get('needs'), 150), caught, first))

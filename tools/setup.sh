#!/bin/bash
# MANIFEST.setup_cmd: regenerate Gen/*.v from /repo, then a full .vo build of the whole development
set -e
cd "$(dirname "$0")/.."
export PYTHONPATH=/repo PYTHONHASHSEED=0 OMP_NUM_THREADS=2
/venv/bin/python - <<'PY'
import sys, os
sys.path.insert(0, os.path.join(os.getcwd(), "tools"))
import gen_all, vlib
print("generated:", gen_all.regenerate())
vlib.coq_makefile()
PY
cd coq
timeout 3000 make -j16 2>&1 | grep -v "^COQC\|^COQDEP\|Closed under\|^CoqMakefile" | tail -50
# make's own status decides
timeout 3000 make -j16 >/dev/null 2>&1
echo "setup ok"

"""Translators: regenerate coq/Gen/*.v from /repo's working tree (fail-closed)."""
import os, importlib
import vlib

TRANSLATORS = ["translate_methods", "translate_tableaus", "translate_py"]

def regenerate(prop=None):
    info = {}
    os.makedirs(os.path.join(vlib.COQ, "Gen"), exist_ok=True)
    for modname in TRANSLATORS:
        mod = importlib.import_module(modname)
        import inspect
        gen = mod.generate(prop) if inspect.signature(mod.generate).parameters else mod.generate()
        for rel, text in gen.items():
            changed = vlib.write_if_changed(os.path.join(vlib.COQ, rel), text)
            info[rel] = "changed" if changed else "same"
    return info

if __name__ == "__main__":
    print(regenerate())

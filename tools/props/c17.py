"""C17 — jac and hess are the true Jacobian and Hessian as differentiable operators.

Tie (model vs implementation, 2^-40): Model/JacRun.v (symbolic Jacobian / Hessian of polynomial maps,
  proved to be the derivative, evaluated at IEEE binary64) against the operators returned by xitorch.grad.jac
  and hess: mv, rmv and fullmatrix for every argument index.
Oracle (implementation): shape (outputs x inputs); mm / rmm / .H / batched operands against the dense
  matrix; index selections None / int / sequences; rejection of non-differentiable arguments; products
  differentiable w.r.t. the point and the parameters (vs torch.autograd.functional); cache freshness when
  the operator's parameters are replaced; function kinds."""
from __future__ import annotations
import warnings
from fractions import Fraction
import torch
from vlib import cnat, clist, cbool, cfloat, coq_bool_cases
from props.c07 import gen_exp, exp_coq, exp_eval, exp_str, fvec

RULE = ("random polynomial maps R^(n1+n2) -> R^m (n_i in 1..3, m in 1..3, depth<=3) and scalar objectives x argument index "
        "x operands; distinct = (map, point, index); non-trivial = the map is nonlinear in the selected argument")
TRUSTED = ["harness tools/props/c17.py", "autograd (reverse mode of a polynomial map computes J^T g) - oracle"]
ASSUMPTIONS = ["Schwarz' theorem beyond polynomials is cited"]
HEADER = ("From XV Require Import Base.Ops Model.ExplicitRK Model.Quad Model.JacRun.\n"
          "From Coq Require Import QArith List PrimFloat.\nImport ListNotations.\n")
DT = torch.float64
T0 = torch.tensor(0.0, dtype=DT)


def fmat(m):
    return clist([fvec(r) for r in m.tolist()])


def check(ctx):
    from xitorch.grad import jac, hess
    rng = ctx.rng
    cases, meta = [], []
    for _ in range(ctx.n(80, 500)):
        n1, n2, m = rng.randrange(1, 4), rng.randrange(1, 4), rng.randrange(1, 4)
        fs = [gen_exp(rng, n1 + n2, rng.randrange(1, 4)) for _ in range(m)]
        v1 = [rng.randrange(-8, 9) / 8 for _ in range(n1)]
        v2 = [rng.randrange(-8, 9) / 8 for _ in range(n2)]
        a1 = torch.tensor(v1, dtype=DT, requires_grad=True)
        a2 = torch.tensor(v2, dtype=DT, requires_grad=True)
        # keep every output connected to both arguments (an argument the function ignores is probed separately)
        fcn = lambda x1, x2: torch.stack([exp_eval(e, T0, list(x1) + list(x2)) + 0 * x1[0] + 0 * x2[0] for e in fs])
        idx = rng.randrange(2)
        off, n = (0, n1) if idx == 0 else (n1, n2)
        u = [rng.randrange(-8, 9) / 4 for _ in range(n)]
        g = [rng.randrange(-8, 9) / 4 for _ in range(m)]
        try:
            J = jac(fcn, (a1, a2), idxs=idx)
            mv = J.mv(torch.tensor(u, dtype=DT))
            rmv = J.rmv(torch.tensor(g, dtype=DT))
            full = J.fullmatrix()
        except Exception as e:
            ctx.fail("oracle", "jac:exception", {"map": [exp_str(e_) for e_ in fs]}, repr(e)[:200], "operator products")
            continue
        info = {"kind": "jac", "map": [exp_str(e) for e in fs], "point": [v1, v2], "idx": idx}
        if list(J.shape) != [m, n]:
            ctx.fail("oracle", "jac:shape", info, list(J.shape), [m, n])
        cases.append("jac_ok %s %s %d %d %s %s %s %s %s" % (clist([exp_coq(e) for e in fs]), fvec(v1 + v2), off, n, fvec(u), fvec(g),
                                                          fvec(mv.tolist()), fvec(rmv.tolist()), fmat(full)))
        meta.append(info)
        ctx.count(("jac", tuple(info["map"]), tuple(v1 + v2), idx), nontrivial=True)
        ctx.stat("jac")
        ctx.sample(info, limit=3)
        # hessian of a scalar objective
        phi = gen_exp(rng, n1 + n2, rng.randrange(2, 4))
        for k in range(n1 + n2):      # make every argument enter nonlinearly (a zero Hessian block is finding F24's class)
            phi = ("Add", phi, ("Mul", ("C", Fraction(k + 1, 8)), ("Mul", ("Y", k), ("Mul", ("Y", k), ("Y", (k + 1) % (n1 + n2))))))
        obj = lambda x1, x2: exp_eval(phi, T0, list(x1) + list(x2)) + 0 * x1[0] + 0 * x2[0]
        try:
            H = hess(obj, (a1, a2), idxs=idx)
            hmv = H.mv(torch.tensor(u, dtype=DT))
            hrmv = H.rmv(torch.tensor(u, dtype=DT))
            hfull = H.fullmatrix()
        except RuntimeError as e:
            if "does not require grad" in str(e) or "not have been used" in str(e):
                ctx.stat("hess_of_function_without_second_derivative")
                continue
            ctx.fail("oracle", "hess:exception", {"objective": exp_str(phi)}, repr(e)[:200], "operator products")
            continue
        except Exception as e:
            ctx.fail("oracle", "hess:exception", {"objective": exp_str(phi)}, repr(e)[:200], "operator products")
            continue
        cases.append("hess_ok %s %s %d %d %s %s %s %s" % (exp_coq(phi), fvec(v1 + v2), off, n, fvec(u), fvec(hmv.tolist()),
                                                        fvec(hrmv.tolist()), fmat(hfull)))
        meta.append({"kind": "hess", "objective": exp_str(phi), "point": [v1, v2], "idx": idx})
        ctx.count(("hess", exp_str(phi), tuple(v1 + v2), idx), nontrivial=True)
        ctx.stat("hess")
    failed, errors = coq_bool_cases("c17", HEADER, cases, chunk=80)
    ctx.coverage["traces_validated_against_impl"] += len(cases) - len(failed)
    for e in errors:
        ctx.broken("correspondence:jachess", e)
    for i in failed[:3]:
        ctx.broken("correspondence:jachess", {"case": meta[i], "coq": cases[i][:1500]})
    oracle(ctx)
    failed_trial_probe(ctx)
    additive_object_parameter_probe(ctx)
    substitution_sequence_probe(ctx)
    round6_probes(ctx)


def oracle(ctx):
    import xitorch as xt
    from xitorch.grad import jac, hess
    rng = ctx.rng
    for rep in range(ctx.n(6, 40)):
        torch.manual_seed(ctx.seed * 13 + rep)
        shp_x = rng.choice([(), (3,), (2, 2), (1, 3)])
        shp_p = rng.choice([(), (2,), (2, 2)])
        x = torch.randn(shp_x, dtype=DT).requires_grad_()
        p = torch.randn(shp_p, dtype=DT).requires_grad_()
        q = torch.randn(3, dtype=DT)                 # non-differentiable tensor argument

        def f(x, p, q, tag):
            return torch.cat([(x ** 3).reshape(-1) * p.sum(), (torch.sin(x).sum() * p.reshape(-1) ** 2), q * x.sum()])
        nin, nout = x.numel(), x.numel() + p.numel() + 3
        info = {"x_shape": list(shp_x), "p_shape": list(shp_p)}
        ctx.count(("oracle", shp_x, shp_p, rep))
        Jd_x, Jd_p = torch.autograd.functional.jacobian(lambda x, p: f(x, p, q, "tag"), (x.detach(), p.detach()))
        Jd_x = Jd_x.reshape(nout, nin)
        Jd_p = Jd_p.reshape(nout, p.numel())
        ops = jac(f, (x, p, q, "tag"))                # None: exactly the tensor arguments requiring grad
        if len(ops) != 2:
            ctx.fail("oracle", "jac:idxs-none", info, len(ops), 2)
            continue
        # ... whether they are leaves or results of earlier operations (round-3 seed C17/7: non-leaf arguments left out)
        xnl, pnl = x * 1.0, p + 0.0
        ops_nl = jac(f, (xnl, pnl, q, "tag"))
        hs_nl = hess(lambda x_, p_, q_, t_: (f(x_, p_, q_, t_) ** 2).sum(), (xnl, pnl, q, "tag"))
        ctx.count(("oracle-nonleaf", shp_x, shp_p, rep))
        if len(ops_nl) != 2 or len(hs_nl) != 2 or list(ops_nl[0].shape) != list(ops[0].shape) or list(ops_nl[1].shape) != list(ops[1].shape):
            ctx.fail("oracle", "jac:idxs-none:non-leaf-arguments", info, [len(ops_nl), len(hs_nl)], [2, 2])
            continue
        one = jac(f, (x, p, q, "tag"), idxs=1)
        if isinstance(one, (list, tuple)):
            ctx.fail("oracle", "jac:idxs-int", info, "list", "a single operator")
        for bad in (2, 3):
            try:
                jac(f, (x, p, q, "tag"), idxs=bad)
                ctx.fail("oracle", "jac:nondiff-accepted", dict(info, idx=bad), "no error", "rejected")
            except Exception:
                pass
        for J, Jd in zip(ops, (Jd_x, Jd_p)):
            if list(J.shape) != list(Jd.shape):
                ctx.fail("oracle", "jac:shape", info, list(J.shape), list(Jd.shape))
                continue
            U = torch.randn(2, Jd.shape[1], dtype=DT)          # batched operands
            Gm = torch.randn(Jd.shape[0], 2, dtype=DT)
            checks = [("mv-batched", J.mv(U), U @ Jd.T), ("rmm", J.rmm(Gm), Jd.T @ Gm), ("mm", J.mm(U.T), Jd @ U.T),
                      ("fullmatrix", J.fullmatrix(), Jd), ("H.mv", J.H.mv(Gm.T[0]), Jd.T @ Gm[:, 0]),
                      ("H.fullmatrix", J.H.fullmatrix(), Jd.T)]
            for nm, got, want in checks:
                if got.shape != want.shape or not torch.allclose(got, want, rtol=1e-10, atol=1e-12):
                    ctx.fail("oracle", "jac:%s" % nm, info, got, want)
        # differentiability of the products w.r.t. the point and the parameters
        u = torch.randn(nin, dtype=DT)
        prod = ops[0].mv(u)
        wv = torch.randn(nout, dtype=DT)
        gx, gp = torch.autograd.grad((prod * wv).sum(), (x, p), create_graph=True, allow_unused=True)
        xr, pr = x.detach().clone().requires_grad_(), p.detach().clone().requires_grad_()
        _, jvp = torch.autograd.functional.jvp(lambda x_: f(x_, pr, q, "tag"), (xr,), (u.reshape(shp_x),), create_graph=True)
        rx, rp = torch.autograd.grad((jvp * wv).sum(), (xr, pr), create_graph=True, allow_unused=True)
        for nm, a_, b_ in (("d(Ju)/dx", gx, rx), ("d(Ju)/dp", gp, rp)):
            a_ = torch.zeros(1, dtype=DT) if a_ is None else a_
            b_ = torch.zeros(1, dtype=DT) if b_ is None else b_
            if a_.shape != b_.shape or not torch.allclose(a_, b_, rtol=1e-9, atol=1e-11):
                ctx.fail("oracle", "jac:differentiable:%s" % nm, info, a_, b_)
        if gx is not None and gx.requires_grad:
            g2 = torch.autograd.grad(gx.sum(), (x,), allow_unused=True)[0]
            r2 = torch.autograd.grad(rx.sum(), (xr,), allow_unused=True)[0]
            if (g2 is None) != (r2 is None) or (g2 is not None and not torch.allclose(g2, r2, rtol=1e-8, atol=1e-10)):
                ctx.fail("oracle", "jac:second-order", info, g2, r2)
    # an argument the function does not depend on: the Jacobian is the zero operator (known finding F24: raises)
    xa = torch.tensor([0.3, 0.4], dtype=DT, requires_grad=True)
    xb = torch.tensor([1.0], dtype=DT, requires_grad=True)
    try:
        Jz = jac(lambda x1, x2: x1 * 2.0, (xa, xb), idxs=1)
        if list(Jz.shape) != [2, 1] or float(Jz.fullmatrix().abs().max()) != 0:
            ctx.fail("oracle", "jac:independent-argument:wrong", {}, Jz.fullmatrix(), "zero 2x1 operator")
    except Exception as e:
        ctx.fail("known", "jac:independent-argument:raises", {"fcn": "x1 * 2", "idxs": 1}, repr(e)[:160], "the zero operator")
    # hess: symmetric, products, function kinds, cache freshness
    class EM(xt.EditableModule):
        def __init__(self, a):
            self.a = a

        def phi(self, x):
            return (self.a * x ** 3).sum() + (x[0] * x[1]) ** 2

        def getparamnames(self, methodname, prefix=""):
            return [prefix + "a"]
    a = torch.tensor([0.5, -1.5], dtype=DT, requires_grad=True)
    x = torch.tensor([0.7, 0.2], dtype=DT, requires_grad=True)
    em = EM(a)
    H = hess(em.phi, (x,), idxs=0)
    Hd = torch.autograd.functional.hessian(lambda x_: (a.detach() * x_ ** 3).sum() + (x_[0] * x_[1]) ** 2, x.detach())
    ctx.count(("oracle-hess", 0))
    for nm, got, want in (("fullmatrix", H.fullmatrix(), Hd), ("mv", H.mv(torch.tensor([1.0, -2.0], dtype=DT)), Hd @ torch.tensor([1.0, -2.0], dtype=DT)),
                          ("rmv", H.rmv(torch.tensor([1.0, -2.0], dtype=DT)), Hd.T @ torch.tensor([1.0, -2.0], dtype=DT))):
        if not torch.allclose(got, want, rtol=1e-10, atol=1e-12):
            ctx.fail("oracle", "hess:%s" % nm, {}, got, want)
    if not torch.allclose(H.fullmatrix(), H.fullmatrix().T, rtol=1e-12, atol=1e-14):
        ctx.fail("oracle", "hess:symmetric", {}, H.fullmatrix(), "symmetric")
    # cache freshness: replace the operator's parameters, the next product uses the new ones
    J = jac(em.phi, (x,), idxs=0) if False else jac(lambda x_, a_: a_ * x_ ** 2, (x, a), idxs=0)
    before = J.fullmatrix().detach().clone()
    newx = torch.tensor([1.1, -0.4], dtype=DT, requires_grad=True)
    newa = torch.tensor([2.0, 3.0], dtype=DT, requires_grad=True)
    with J.uselinopparams(newx, newa):
        inside = J.fullmatrix().detach().clone()
    after = J.fullmatrix().detach().clone()
    ctx.count(("oracle-cache", 0))
    if not torch.allclose(inside, torch.diag(2 * newa.detach() * newx.detach())) or not torch.allclose(after, before):
        ctx.fail("oracle", "jac:cache-freshness", {}, {"inside": inside, "after": after},
                 {"inside": torch.diag(2 * newa.detach() * newx.detach()), "after": before})

    # partial replacement: only one of the parameters changes (seeded defect C17/2: the cache was reused while ANY tensor was
    # still the original one)
    for which in ("x-only", "a-only"):
        nx = newx if which == "x-only" else x
        na_ = newa if which == "a-only" else a
        ctx.count(("oracle-cache-partial", which))
        try:
            with J.uselinopparams(nx, na_):
                got = J.fullmatrix().detach().clone()
                gotH = J.H.fullmatrix().detach().clone()
        except Exception as e:
            ctx.fail("oracle", "jac:cache-freshness:partial-replacement", {"replaced": which}, repr(e)[:200], "products with the new parameter")
            continue
        want = torch.diag(2 * na_.detach() * nx.detach())
        if not torch.allclose(got, want) or not torch.allclose(gotH, want.T):
            ctx.fail("oracle", "jac:cache-freshness:partial-replacement", {"replaced": which}, got, want)
    # index selections in any order and with repetitions: operators come back in the REQUESTED order (seeded defect C17/3)
    f3 = lambda p0, p1, p2: torch.stack([p0.sum() * p1[0], p1.sum() + 2 * p2[0] ** 2, p0[0] * p2[1]])
    p3 = [torch.tensor([0.3, 0.7], dtype=DT, requires_grad=True), torch.tensor([1.5], dtype=DT, requires_grad=True),
          torch.tensor([-0.4, 0.9, 0.2], dtype=DT, requires_grad=True)]
    dense3 = torch.autograd.functional.jacobian(f3, tuple(t.detach() for t in p3))
    for sel in ((2, 0), (1, 0), [2, 1, 0], (0, 2), (1, 1)):
        ops3 = jac(f3, tuple(p3), idxs=sel)
        ctx.count(("oracle-idxs-order", tuple(sel)))
        if len(ops3) != len(sel):
            ctx.fail("oracle", "jac:idxs-sequence:length", {"idxs": list(sel)}, len(ops3), len(sel))
            continue
        for op, i in zip(ops3, sel):
            if list(op.shape) != list(dense3[i].shape) or not torch.allclose(op.fullmatrix(), dense3[i]):
                ctx.fail("oracle", "jac:idxs-sequence:order", {"idxs": list(sel)}, [list(o.shape) for o in ops3],
                         [list(dense3[j].shape) for j in sel])
                break
    h3 = hess(lambda p0, p1, p2: (f3(p0, p1, p2) ** 2).sum(), tuple(p3), idxs=(2, 0))
    d3 = torch.autograd.functional.hessian(lambda p0, p1, p2: (f3(p0, p1, p2) ** 2).sum(), tuple(t.detach() for t in p3))
    if len(h3) != 2 or not torch.allclose(h3[0].fullmatrix(), d3[2][2]) or not torch.allclose(h3[1].fullmatrix(), d3[0][0]):
        ctx.fail("oracle", "hess:idxs-sequence:order", {"idxs": [2, 0]}, [list(o.shape) for o in h3], [[3, 3], [2, 2]])
    # a non-tensor / non-differentiable argument BEFORE the selected one: after the parameters are replaced the transposed
    # product still differentiates with respect to the selected argument (seeded defect C17/4: indexed the tensor-only list)
    cst = torch.tensor([2.0, -1.0], dtype=DT)                       # does not require grad
    xs_ = torch.tensor([0.4, 0.9], dtype=DT, requires_grad=True)
    ys_ = torch.tensor([1.5, -0.3], dtype=DT, requires_grad=True)
    f4 = lambda c_, tag, x_, y_: c_ * x_ ** 2 * y_ + torch.sin(y_) if tag == "tag" else None
    J4 = jac(f4, (cst, "tag", xs_, ys_), idxs=2)
    nx_ = torch.tensor([1.1, -0.4], dtype=DT, requires_grad=True)
    ny_ = torch.tensor([0.7, 2.0], dtype=DT, requires_grad=True)
    repl4 = [nx_ if p is xs_ else (ny_ if p is ys_ else p) for p in J4.getlinopparams()]
    u4 = torch.tensor([1.0, -2.0], dtype=DT)
    ctx.count(("oracle-nongrad-before-selected",), nontrivial=True)
    want4 = (2 * cst * nx_ * ny_).detach() * u4
    try:
        with J4.uselinopparams(*repl4):
            r4 = J4.rmv(u4).detach().clone()
            m4 = J4.mv(u4).detach().clone()
    except Exception as e:
        r4 = m4 = torch.full_like(want4, float("nan"))
        ctx.fail("oracle", "jac:replaced-params:non-differentiable-argument-first", {"arguments": "(constant tensor, 'tag', x, y)", "idxs": 2},
                 repr(e)[:200], want4.tolist())
    if torch.isfinite(r4).all() and (not torch.allclose(r4, want4) or not torch.allclose(m4, want4)):
        ctx.fail("oracle", "jac:replaced-params:non-differentiable-argument-first", {"arguments": "(constant tensor, 'tag', x, y)", "idxs": 2},
                 {"rmv": r4.tolist(), "mv": m4.tolist()}, want4.tolist())
    # the same for tensors held by the function's object (EditableModule, nn.Module): the replaced tensor is the one the
    # products use and are differentiable with respect to, and the object is untouched afterwards (fix F31: the operator
    # shared the pure function's own parameter list, so editing it turned the substitution into a no-op)
    import xitorch as xt

    class HoldEM(xt.EditableModule):
        def __init__(self, a_):
            self.a = a_

        def f(self, x_):
            return self.a * x_ ** 2 + torch.sin(x_)

        def getparamnames(self, methodname, prefix=""):
            return [prefix + "a"]

    class HoldNN(torch.nn.Module):
        def __init__(self, a_):
            super().__init__()
            self.a = torch.nn.Parameter(a_.detach().clone())

        def forward(self, x_):
            return self.a * x_ ** 2 + torch.sin(x_)
    for kind, holder in (("EditableModule", HoldEM(a)), ("nn.Module", HoldNN(a))):
        fobj = holder.f if kind == "EditableModule" else holder.forward
        Jo = jac(fobj, (x,), idxs=0)
        held = holder.a
        ps = Jo.getlinopparams()
        newa2 = torch.tensor([2.0, 3.0], dtype=DT, requires_grad=True)
        newx2 = torch.tensor([1.1, -0.4], dtype=DT, requires_grad=True)
        repl = [newa2 if p is held else (newx2 if p is x else p) for p in ps]
        u = torch.tensor([1.0, -2.0], dtype=DT)
        with Jo.uselinopparams(*repl):
            prod = Jo.mv(u)
            rprod = Jo.rmv(u)
        ga = torch.autograd.grad(prod.sum() + rprod.sum(), newa2, allow_unused=True)[0]
        want = (2 * newa2 * newx2 + torch.cos(newx2)).detach() * u
        ctx.count(("oracle-cache-object", kind), nontrivial=True)
        info = {"function_kind": kind}
        if not any(p is held for p in ps):
            ctx.fail("oracle", "jac:object-parameter-not-listed", info, len(ps), "the held tensor is an operator parameter")
        elif not torch.allclose(prod.detach(), want) or not torch.allclose(rprod.detach(), want):
            ctx.fail("oracle", "jac:object-parameter-replaced:value", info, [prod.detach(), rprod.detach()], want)
        elif ga is None or not torch.allclose(ga, 4 * newx2.detach() * u):
            ctx.fail("oracle", "jac:object-parameter-replaced:gradient", info, ga, 4 * newx2.detach() * u)
        if holder.a is not held:
            ctx.fail("oracle", "jac:object-parameter-not-restored", info, "different object", "same tensor object")


def failed_trial_probe(ctx):
    """an evaluation at a trial point (`with op.uselinopparams(...)`) in which the user's function raises, caught by the caller:
    outside the block the operator is again the Jacobian / Hessian at the point it was built for (round-3 seed C17/9: the
    restoration was skipped on an exception)"""
    from xitorch.grad import jac, hess
    g = torch.Generator().manual_seed(ctx.seed + 61)
    fail_next = [None]

    def f(x, a):
        if fail_next[0] is not None:
            exc, fail_next[0] = fail_next[0], None
            raise exc
        return torch.tanh(a @ x) + a @ x ** 2
    x = torch.rand(3, dtype=DT, generator=g).requires_grad_()
    a = torch.rand(4, 3, dtype=DT, generator=g).requires_grad_()
    x2 = (torch.rand(3, dtype=DT, generator=g) + 1).requires_grad_()
    a2 = (torch.rand(4, 3, dtype=DT, generator=g) + 1).requires_grad_()
    w = torch.rand(3, dtype=DT, generator=g)
    v = torch.rand(4, dtype=DT, generator=g)
    J0 = torch.autograd.functional.jacobian(lambda xx: f(xx, a), x)
    H0 = torch.autograd.functional.hessian(lambda xx: f(xx, a).sum(), x)

    class Stop(BaseException):
        pass
    for name, mk, dense in (("jac", lambda: jac(f, (x, a), idxs=0), J0), ("hess", lambda: hess(lambda xx, aa: f(xx, aa).sum(), (x, a), idxs=0), H0)):
        for exc in (ValueError("transient failure"), Stop()):
            op = mk()
            op.mv(w)
            newparams = [x2 if p is x else a2 for p in op.getlinopparams()]
            fail_next[0] = exc
            try:
                with op.uselinopparams(*newparams):
                    op.mv(w)
            except (ValueError, Stop):
                pass
            fail_next[0] = None
            ctx.count(("failed-trial", name, type(exc).__name__), nontrivial=True)
            held = all(any(p is q for q in (x, a)) for p in op.getlinopparams())
            info = {"operator": name, "raised": type(exc).__name__, "sequence": ["mv", "with uselinopparams(trial point): mv raises", "mv"]}
            if not held:
                ctx.fail("oracle", "%s:failed-trial-evaluation:parameters-not-restored" % name, info, "trial tensors still installed", "the original tensors")
                continue
            got = {"mv": op.mv(w), "fullmatrix": op.fullmatrix(), "rmv": op.rmv(v if name == "jac" else w)}
            want = {"mv": dense @ w, "fullmatrix": dense, "rmv": dense.T @ (v if name == "jac" else w)}
            for k_ in got:
                if not torch.allclose(got[k_], want[k_], rtol=1e-8, atol=1e-10):
                    ctx.fail("oracle", "%s:failed-trial-evaluation:%s" % (name, k_), info, got[k_], want[k_])
                    break


def additive_object_parameter_probe(ctx):
    """a module-held parameter that enters the function only ADDITIVELY: the Jacobian / Hessian do not depend on it, and the
    derivative of every product (mv, mm, fullmatrix, rmv) w.r.t. it is the zero tensor - as it is for an explicit argument -
    not an error (round-4 seed C17/12: the forward products lost their connection to the object's parameters)"""
    import xitorch as xt
    from xitorch.grad import jac, hess

    class Mod(xt.EditableModule):
        def __init__(self, a, c):
            self.a, self.c = a, c

        def f(self, x):
            return self.a * x ** 3 + torch.sin(x) + self.c

        def e(self, x):
            return (self.a * x ** 4).sum() + (self.c * x).sum() * 0.0 + self.c.sum()

        def getparamnames(self, methodname, prefix=""):
            return [prefix + "a", prefix + "c"]
    x = torch.tensor([0.3, -0.7, 1.1], dtype=DT, requires_grad=True)
    w = torch.tensor([1.0, -2.0, 0.5], dtype=DT)
    for name, mk in (("jac", lambda m: jac(m.f, (x,), idxs=0)), ("hess", lambda m: hess(m.e, (x,), idxs=0))):
        for prod in ("mv", "rmv", "fullmatrix", "mm"):
            a = torch.tensor([0.7, 1.3, 0.4], dtype=DT, requires_grad=True)
            c = torch.tensor([0.2, -0.1, 0.5], dtype=DT, requires_grad=True)
            op = mk(Mod(a, c))
            try:
                out = {"mv": lambda: op.mv(w), "rmv": lambda: op.rmv(w), "fullmatrix": lambda: op.fullmatrix(), "mm": lambda: op.mm(torch.stack([w, 2 * w], dim=-1))}[prod]()
                # (no allow_unused: the products stay connected to every parameter of the object, so the derivative w.r.t. the
                # additive one is the zero tensor, exactly as for an explicit argument that does not influence the Jacobian)
                ga, gc_ = torch.autograd.grad((out ** 2).sum(), (a, c))
            except Exception as e:
                ctx.fail("oracle", "%s:additive-object-parameter:%s:exception" % (name, prod), {"operator": name, "product": prod}, repr(e)[:200],
                         "zero (or absent) derivative w.r.t. the additive parameter, the true one w.r.t. the other")
                continue
            ctx.count(("additive-object-parameter", name, prod), nontrivial=True)
            if ga is None or float(ga.abs().max()) == 0.0 or (gc_ is not None and float(gc_.abs().max()) != 0.0):
                ctx.fail("oracle", "%s:additive-object-parameter:%s" % (name, prod), {"operator": name, "product": prod},
                         {"d/da": None if ga is None else ga.tolist(), "d/dc": None if gc_ is None else gc_.tolist()}, "d/da non-zero, d/dc zero or absent")


def substitution_sequence_probe(ctx):
    """ONE Jacobian operator of a module's method with a non-differentiable argument among the params, over a sequence of parameter
    substitutions through its public interface (uselinopparams): original, point replaced, original again, only the module's
    parameter replaced - at every step mv / rmv / fullmatrix and ALL four products of .H (mv, rmv, mm, rmm) equal those of the dense
    Jacobian at the parameters in force, and mv is differentiable w.r.t. the point (round-5 seeds C17/13: the argument list was only
    rebuilt when the tensor arguments had changed identity; C17/14: AdjointLinearOperator._rmv called obj.rmv)"""
    import xitorch as xt
    from xitorch.grad import jac
    g = torch.Generator().manual_seed(ctx.seed + 61)

    class Mod(xt.EditableModule):
        def __init__(self, a):
            self.a = a

        def __call__(self, x, c):
            return torch.tanh(self.a * x) * c + x ** 2 + 0.3 * torch.roll(x, 1) * self.a

        def getparamnames(self, methodname, prefix=""):
            return [prefix + "a"]
    fun = lambda a, x, c: torch.tanh(a * x) * c + x ** 2 + 0.3 * torch.roll(x, 1) * a
    n = 4
    a0 = torch.rand(n, dtype=DT, generator=g).requires_grad_()
    x0 = torch.rand(n, dtype=DT, generator=g).requires_grad_()
    c = torch.rand(n, dtype=DT, generator=g) + 0.5
    op = jac(Mod(a0), (x0, c), idxs=0)
    W = torch.randn(2, n, dtype=DT, generator=g)
    Wc = torch.randn(n, 3, dtype=DT, generator=g)

    def compare(label, a, x):
        J = torch.autograd.functional.jacobian(lambda xx: fun(a.detach(), xx, c), x.detach())
        with warnings.catch_warnings():
            warnings.simplefilter("ignore")
            errs = {"mv": op.mv(W) - W @ J.T, "rmv": op.rmv(W) - W @ J, "fullmatrix": op.fullmatrix() - J,
                    "H.mv": op.H.mv(W) - W @ J, "H.rmv": op.H.rmv(W) - W @ J.T, "H.mm": op.H.mm(Wc) - J.T @ Wc,
                    "H.rmm": op.H.rmm(Wc) - J @ Wc, "H.H.mv": op.H.H.mv(W) - W @ J.T}
        ctx.count(("jac-substitution-sequence", label), nontrivial=True)
        bad = {k: float(v.detach().abs().max()) for k, v in errs.items() if not float(v.detach().abs().max()) <= 1e-9}
        if bad:
            ctx.fail("oracle", "jac:substitution-sequence:%s" % sorted(bad)[0], {"step": label, "function": "EditableModule.__call__(x, c), c without grad",
                                                                                  "sequence": "original; point replaced; original; module parameter replaced"},
                     bad, "the products of the dense Jacobian at the parameters in force")
    try:
        p0 = op.getlinopparams()
        compare("original", a0, x0)
        x1 = (x0.detach() + 1.0).requires_grad_()
        with op.uselinopparams(*[x1 if p is x0 else p for p in p0]):
            compare("point replaced", a0, x1)
        compare("original again", a0, x0)
        a1 = (a0.detach() * 2 + 0.3).requires_grad_()
        with op.uselinopparams(*[a1 if p is a0 else p for p in p0]):
            compare("module parameter replaced", a1, x0)
            w = torch.randn(n, dtype=DT, generator=g)
            gx, = torch.autograd.grad(op.mv(w).sum(), x0, allow_unused=True)
            _, jw = torch.autograd.functional.jvp(lambda xx: fun(a1, xx, c), x0, w, create_graph=True)
            gref, = torch.autograd.grad(jw.sum(), x0)
            if gx is None or not float((gx - gref).abs().max()) <= 1e-9:
                ctx.fail("oracle", "jac:substitution-sequence:grad-wrt-point", {"step": "module parameter replaced"},
                         None if gx is None else float((gx - gref).abs().max()), "derivative of J(x) w w.r.t. x")
        compare("original at the end", a0, x0)
    except Exception as e:
        ctx.fail("oracle", "jac:substitution-sequence:exception", {}, repr(e)[:300], "products of the operator")


def round6_probes(ctx):
    """(a) hess() of a method of a torch.nn.Module that holds ONE Parameter under two names (tied weights) followed by another
    Parameter, with the operator's parameters replaced through uselinopparams: products equal the dense Hessian at the parameters in
    force and the module holds its own tensors afterwards (round-6 seed C17/15: the sibling wrapper listed the de-duplicated
    parameters, the second name received the next parameter's tensor).  (b) jac() of a function whose parameter has infinite entries
    away from its first element (a mask) while the function is finite: every product is finite and equals the dense one (C17/16: the
    dummy graph connection became p.sum() * 0)"""
    from xitorch.grad import jac, hess
    g = torch.Generator().manual_seed(ctx.seed + 67)

    class Tied(torch.nn.Module):
        def __init__(self, w, c):
            super().__init__()
            self.w1 = w
            self.w2 = w
            self.c = c

        def forward(self, x):
            return (self.w1 * x ** 3).sum() + (self.w2 * x ** 2).sum() + (self.c * x ** 4).sum()
    fun = lambda x, w, c: (w * x ** 3).sum() + (w * x ** 2).sum() + (c * x ** 4).sum()
    n = 3
    mkp = lambda off: torch.nn.Parameter(torch.rand(n, dtype=DT, generator=g) + off)
    w, c = mkp(0.5), mkp(0.5)
    x = (torch.rand(n, dtype=DT, generator=g) + 0.5).requires_grad_()
    m = Tied(w, c)
    ctx.count(("hess-tied-weights",), nontrivial=True)
    try:
        with warnings.catch_warnings():
            warnings.simplefilter("ignore")
            hs = hess(m.forward, (x,), idxs=0)
            H0 = hs.fullmatrix()
            x2, w2, c2 = [(torch.rand(n, dtype=DT, generator=g) + off).requires_grad_() for off in (0.5, 2.0, 4.0)]
            new = [x2 if p is x else (w2 if p is w else (c2 if p is c else p)) for p in hs.getlinopparams()]
            v = torch.rand(2, n, dtype=DT, generator=g)
            with hs.uselinopparams(*new):
                H1 = hs.fullmatrix()
                Hv = hs.mv(v)
            H2 = hs.fullmatrix()
    except Exception as e:
        ctx.fail("oracle", "hess:tied-weights:exception", {}, repr(e)[:300], "products of the Hessian operator")
    else:
        R0 = torch.autograd.functional.hessian(lambda xx: fun(xx, w, c), x)
        R1 = torch.autograd.functional.hessian(lambda xx: fun(xx, w2, c2), x2)
        dm = lambda t: float(t.detach().abs().max())
        errs = {"construction": dm(H0 - R0), "substituted": dm(H1 - R1), "substituted_mv": dm(Hv - v @ R1.T), "restored": dm(H2 - R0)}
        held = m.w1 is w and m.w2 is w and m.c is c
        if not held or any(not e <= 1e-9 for e in errs.values()):
            ctx.fail("oracle", "hess:tied-weights", {"module": "w1 is w2 (tied), c", "sequence": "hess(); uselinopparams(x2, w2, c2); products; exit"},
                     dict(errs, module_holds_its_tensors=held), "dense Hessian at the parameters in force")
    # (b)
    n = 4
    mask = torch.triu(torch.full((n, n), float("-inf"), dtype=DT), diagonal=1)
    W = torch.randn(n, n, dtype=DT, generator=g).requires_grad_()
    y = torch.randn(n, dtype=DT, generator=g).requires_grad_()
    f = lambda yy, WW, mm: torch.softmax(WW + mm, dim=-1) @ torch.tanh(yy)
    ctx.count(("jac-infinite-mask",), nontrivial=True)
    try:
        with warnings.catch_warnings():
            warnings.simplefilter("ignore")
            import xitorch as xt

            class Layer(xt.EditableModule):
                def __init__(self, W_, mask_):
                    self.W = W_
                    self.mask = mask_

                def forward(self, yy):
                    return f(yy, self.W, self.mask)

                def getparamnames(self, methodname, prefix=""):
                    return [prefix + "W", prefix + "mask"]
            J = jac(Layer(W, mask).forward, (y,), idxs=0)
            vv = torch.randn(n, dtype=DT, generator=g)
            outs = {"mv": J.mv(vv), "rmv": J.rmv(vv), "fullmatrix": J.fullmatrix(), "H.mv": J.H.mv(vv)}
    except Exception as e:
        ctx.fail("oracle", "jac:infinite-mask:exception", {}, repr(e)[:300], "products")
    else:
        Jd = torch.autograd.functional.jacobian(lambda yy: f(yy, W.detach(), mask), y.detach())
        ref = {"mv": Jd @ vv, "rmv": Jd.T @ vv, "fullmatrix": Jd, "H.mv": Jd.T @ vv}
        bad = {k: float((outs[k].detach() - ref[k]).abs().max()) for k in outs if not float((outs[k].detach() - ref[k]).abs().max()) <= 1e-9}
        if bad:
            ctx.fail("oracle", "jac:infinite-mask", {"function": "EditableModule holding W and a mask with -inf above the diagonal"}, bad, "finite products equal to the dense Jacobian's")


def search(ctx):
    oracle(ctx)

"""C04 — implicit gradients of rootfinder / equilibrium / minimize are exact.

Tie (model vs implementation, 2^-22): Model/JacRun.v `ift_grad` (symbolic Jacobians of the residual at the
  returned point, J^T g = -G by Gauss-Jordan, gradient P^T g) evaluated at IEEE binary64 against autograd
  through the public rootfinder / equilibrium / minimize, for every forward method and backward solver.
Oracle (implementation): second order against a differentiable Newton-polished reference; independence
  from the forward method and from y0; y0 and non-tensor parameters receive no gradient; mixtures of
  differentiable / non-differentiable / non-tensor parameters."""
from __future__ import annotations
import warnings
from fractions import Fraction
import torch
from vlib import cnat, clist, cbool, cfloat, coq_bool_cases
from props.c07 import gen_exp, exp_coq, exp_eval, exp_str, fvec

RULE = ("random contractive polynomial problems (dim 1-3, 1-3 parameters, depth<=2) x functional {rootfinder, equilibrium, "
        "minimize} x forward methods x backward solvers x random cotangents; distinct = (functional, map, theta, methods); "
        "non-trivial = the residual depends on a parameter")
TRUSTED = ["harness tools/props/c04.py", "autograd's pull-back through the user function (oracle)", "jac (C17) and solve (C02) used by the backward"]
ASSUMPTIONS = []
HEADER = ("From XV Require Import Base.Ops Model.ExplicitRK Model.Quad Model.JacRun.\n"
          "From Coq Require Import QArith List PrimFloat.\nImport ListNotations.\n")
DT = torch.float64


def gen_problem(rng, ny, nth):
    """fixed-point map fp_i(y, theta) = c_i + 1/8 * poly(y, theta): contraction near the origin"""
    fps = []
    for i in range(ny):
        c = ("C", Fraction(rng.randrange(-4, 5), 8))
        poly = gen_exp(rng, ny + nth, 2)
        lin = ("Mul", ("C", Fraction(rng.choice([1, 2, -1, -2]), 8)), ("Y", ny + rng.randrange(nth)))
        fps.append(("Add", ("Add", c, lin), ("Mul", ("C", Fraction(1, 8)), poly)))
    return fps


def check(ctx):
    from xitorch.optimize import rootfinder, equilibrium, minimize
    rng = ctx.rng
    cases, meta = [], []
    T0 = torch.tensor(0.0, dtype=DT)
    for _ in range(ctx.n(70, 450)):
        ny, nth = rng.randrange(1, 4), rng.randrange(1, 4)
        functional = rng.choice(["rootfinder", "equilibrium", "minimize"])
        theta0 = [rng.randrange(-4, 5) / 8 for _ in range(nth)]
        theta = torch.tensor(theta0, dtype=DT, requires_grad=True)
        G = torch.tensor([rng.randrange(-8, 9) / 4 for _ in range(ny)], dtype=DT)
        y0 = torch.zeros(ny, dtype=DT)
        fwd = rng.choice(["broyden1", "broyden2", "linearmixing", "newton"])
        bck = rng.choice(["exactsolve", "bicgstab", "cg" if functional == "minimize" else "exactsolve"])
        bopt = {"exactsolve": {}, "bicgstab": dict(rtol=1e-12, atol=1e-14, max_niter=100), "cg": dict(rtol=1e-12, atol=1e-14, max_niter=100)}[bck]
        tight = dict(f_tol=1e-12, x_tol=1e-12, maxiter=300)
        if functional in ("rootfinder", "equilibrium"):
            fps = gen_problem(rng, ny, nth)
            fp = lambda y, th: torch.stack([exp_eval(e, T0, list(y) + list(th)) + 0 * y[0] for e in fps])
            resid_terms = ["(FSub (FY %d) %s)" % (i, exp_coq(e)) for i, e in enumerate(fps)]
            if functional == "rootfinder":
                fn = lambda y, th: y - fp(y, th)
                call = lambda: rootfinder(fn, y0, params=(theta,), method=fwd, bck_options=dict(method=bck, **bopt), **tight)
            else:
                if rng.random() < 0.3:
                    fwd = "anderson_acc"
                call = lambda: equilibrium(fp, y0, params=(theta,), method=fwd, bck_options=dict(method=bck, **bopt), **tight)
            desc = [exp_str(e) for e in fps]
        else:
            # objective: sum_i (y_i - c_i - theta-linear)^2 / 2 * w_i + small quartic: strictly convex
            terms = None
            for i in range(ny):
                d = ("Sub", ("Y", i), ("Add", ("C", Fraction(rng.randrange(-4, 5), 8)),
                                       ("Mul", ("C", Fraction(rng.choice([1, 2, -1]), 4)), ("Y", ny + rng.randrange(nth)))))
                t = ("Mul", ("C", Fraction(rng.choice([2, 3, 4]), 4)), ("Mul", d, d))
                terms = t if terms is None else ("Add", terms, t)
            y0sq = ("Mul", ("Y", 0), ("Y", 0))
            phi = ("Add", terms, ("Mul", ("C", Fraction(1, 16)), ("Mul", y0sq, y0sq)))
            obj = lambda y, th: exp_eval(phi, T0, list(y) + list(th))
            resid_terms = ["(dfexp %d %s)" % (i, exp_coq(phi)) for i in range(ny)]
            call = lambda: minimize(obj, y0, params=(theta,), method=fwd, bck_options=dict(method=bck, **bopt), **tight)
            desc = [exp_str(phi)]
        info = {"functional": functional, "problem": desc, "theta": theta0, "forward": fwd, "backward": bck}
        try:
            with warnings.catch_warnings(record=True) as w:
                warnings.simplefilter("always")
                y = call()
                if any("onverge" in str(x.message) for x in w):
                    ctx.stat("skipped_forward_not_converged")
                    continue
                grad, = torch.autograd.grad((y * G).sum(), (theta,))
        except Exception as e:
            ctx.fail("oracle", "rootgrad:%s:exception" % functional, info, repr(e)[:300], "gradient")
            continue
        cases.append("ift_ok %s %s %s %s %s 0x1p-22 0x1p-30" % (clist(resid_terms), fvec(y.detach().tolist()), fvec(theta0),
                                                               fvec(G.tolist()), fvec(grad.tolist())))
        meta.append(info)
        ctx.count((functional, tuple(desc), tuple(theta0), fwd, bck), nontrivial=True)
        ctx.stat("functional:" + functional)
        ctx.stat("fwd:" + fwd)
        ctx.sample(info, limit=5)
    failed, errors = coq_bool_cases("c04", HEADER, cases, chunk=60)
    ctx.coverage["traces_validated_against_impl"] += len(cases) - len(failed)
    for e in errors:
        ctx.broken("correspondence:ift-gradient", e)
    for i in failed[:3]:
        ctx.broken("correspondence:ift-gradient", {"case": meta[i], "coq": cases[i][:1500]})
    oracle(ctx)


def oracle(ctx):
    from xitorch.optimize import rootfinder, equilibrium, minimize
    rng = ctx.rng
    for rep in range(ctx.n(5, 30)):
        torch.manual_seed(ctx.seed * 31 + rep)
        n = rng.choice([1, 2, 3, 6])
        a = (0.2 * torch.randn(n, dtype=DT)).requires_grad_()
        b = (0.3 * torch.randn(n, dtype=DT)).requires_grad_()
        frozen = torch.randn(n, dtype=DT)                    # tensor that does not require grad
        fp = lambda y, a, tag, frozen, b: b + a * torch.sin(y) * 0.8 + 0.0 * frozen if tag == "tag" else None

        def reference(a, b):
            # Newton-polished differentiable solution: two Newton steps from the detached solution are exact to 2nd order
            y = torch.zeros(n, dtype=DT)
            for _ in range(200):
                y = b.detach() + a.detach() * torch.sin(y) * 0.8
            for _ in range(3):
                r = y - (b + a * torch.sin(y) * 0.8)
                y = y - r / (1 - a * torch.cos(y) * 0.8)
            return y
        w = torch.randn(n, dtype=DT)

        def g12(yfn):
            y = yfn()
            g1 = torch.autograd.grad((y * w).sum(), (a, b), create_graph=True)
            s = (g1[0] * torch.cos(w)).sum() + (g1[1] * torch.sin(w)).sum()
            g2 = torch.autograd.grad(s, (a, b), allow_unused=True)
            g2 = [torch.zeros_like(a) if g is None else g for g in g2]
            return y.detach(), [g.detach() for g in g1], [g.detach() for g in g2]
        yr, r1, r2 = g12(lambda: reference(a, b))
        tight = dict(f_tol=1e-12, x_tol=1e-12, maxiter=500)
        results = {}
        for fwd in ("newton", "broyden1", "linearmixing", "anderson_acc"):
            for y0 in (torch.zeros(n, dtype=DT), 0.2 * torch.ones(n, dtype=DT)):
                y0g = y0.clone().requires_grad_()
                info = {"forward": fwd, "n": n, "y0": y0.tolist()}
                try:
                    with warnings.catch_warnings():
                        warnings.simplefilter("ignore")
                        if fwd == "anderson_acc":
                            yfn = lambda: equilibrium(fp, y0g, params=(a, "tag", frozen, b), method=fwd, **tight)
                        else:
                            yfn = lambda: rootfinder(lambda y, a, tag, frozen, b: y - fp(y, a, tag, frozen, b), y0g,
                                                     params=(a, "tag", frozen, b), method=fwd, **tight)
                        y, g1, g2 = g12(yfn)
                        yy = yfn()
                        gy0 = torch.autograd.grad(yy.sum(), (y0g,), allow_unused=True)[0]
                except Exception as e:
                    ctx.fail("oracle", "rootgrad:oracle-exception:%s" % fwd, info, repr(e)[:300], "first and second order gradients")
                    continue
                ctx.count(("oracle", fwd, n, tuple(y0.tolist()), rep))
                # n > 5: the backward solve defaults to a Krylov method with rtol 1e-6 (its own tolerance)
                rt1, rt2 = (1e-6, 1e-5) if n <= 5 else (2e-4, 2e-3)
                for nm, x_, y_ in zip(["da", "db"], g1, r1):
                    if not torch.allclose(x_, y_, rtol=rt1, atol=rt1 * 1e-2):
                        ctx.fail("oracle", "rootgrad:first-order:%s:%s" % (fwd, nm), info, x_, y_)
                for nm, x_, y_ in zip(["d2a", "d2b"], g2, r2):
                    if not torch.allclose(x_, y_, rtol=rt2, atol=rt2 * 1e-2):
                        ctx.fail("oracle", "rootgrad:second-order:%s:%s" % (fwd, nm), info, x_, y_)
                if gy0 is not None and float(gy0.abs().max()) != 0:
                    ctx.fail("oracle", "rootgrad:y0-gets-gradient", info, gy0, "None or zero")
    # minimize second order
    c = torch.tensor([0.3, -0.2], dtype=DT, requires_grad=True)
    wq = torch.tensor([1.5, 0.7], dtype=DT, requires_grad=True)
    obj = lambda y, wq, c: (0.5 * wq * (y - c) ** 2).sum() + 0.1 * (y ** 4).sum()

    def ref_min(wq, c):
        y = torch.zeros(2, dtype=DT)
        for _ in range(60):
            y = y - (wq.detach() * (y - c.detach()) + 0.4 * y ** 3) / (wq.detach() + 1.2 * y ** 2)
        for _ in range(3):
            y = y - (wq * (y - c) + 0.4 * y ** 3) / (wq + 1.2 * y ** 2)
        return y
    for fwd in ("broyden1", "newton", "gd"):
        kw = dict(f_tol=1e-12, x_tol=1e-12, maxiter=400) if fwd != "gd" else dict(step=0.3, maxiter=4000, f_rtol=0, x_rtol=0, f_tol=1e-16, x_tol=1e-13)
        with warnings.catch_warnings():
            warnings.simplefilter("ignore")
            y = minimize(obj, torch.zeros(2, dtype=DT), params=(wq, c), method=fwd, **kw)
            g1 = torch.autograd.grad(y.sum(), (wq, c), create_graph=True)
            g2 = torch.autograd.grad(g1[0].sum() + g1[1].sum(), (wq, c))
        yr = ref_min(wq, c)
        r1 = torch.autograd.grad(yr.sum(), (wq, c), create_graph=True)
        r2 = torch.autograd.grad(r1[0].sum() + r1[1].sum(), (wq, c))
        ctx.count(("oracle-min", fwd))
        for nm, x_, y_ in zip(["dw", "dc", "d2w", "d2c"], list(g1) + list(g2), list(r1) + list(r2)):
            if not torch.allclose(x_, y_, rtol=1e-5, atol=1e-7):
                ctx.fail("oracle", "mingrad:%s:%s" % (fwd, nm), {"forward": fwd}, x_, y_)
    backward_options_probe(ctx)
    object_param_krylov_probe(ctx)
    round4_probes(ctx)
    infinite_mask_probe(ctx)
    reassigned_attribute_probe(ctx)
    tied_weights_probe(ctx)


def backward_options_probe(ctx):
    """'backward options select the linear solver': a callable given as the backward method must be the one that
    solves the transposed Jacobian system (first order) and the systems of its own backward (second order), for
    problems above and below the size where the default switches solver (seeded defects C04/2, C04/3)"""
    from xitorch.optimize import rootfinder, equilibrium
    from xitorch._impls.linalg.solve import exactsolve
    calls = [0]

    def spy(A, B, E=None, M=None, **unused):
        calls[0] += 1
        return exactsolve(A, B, E, M)
    for n in (3, 8):
        g = torch.Generator().manual_seed(ctx.seed + n)
        a = (0.2 * torch.randn(n, dtype=DT, generator=g)).requires_grad_()
        b = (0.3 * torch.randn(n, dtype=DT, generator=g)).requires_grad_()
        K = 0.1 * torch.randn(n, n, dtype=DT, generator=g)
        fp = lambda y, a, b: b + a * torch.sin(y @ K.T + y) * 0.6
        for fn_name in ("rootfinder", "equilibrium"):
            calls[0] = 0
            with warnings.catch_warnings():
                warnings.simplefilter("ignore")
                if fn_name == "rootfinder":
                    y = rootfinder(lambda y, a, b: y - fp(y, a, b), torch.zeros(n, dtype=DT), params=(a, b), method="broyden1",
                                   f_tol=1e-12, x_tol=1e-12, bck_options={"method": spy})
                else:
                    y = equilibrium(fp, torch.zeros(n, dtype=DT), params=(a, b), method="broyden1", f_tol=1e-12, x_tol=1e-12,
                                    bck_options={"method": spy})
                c0 = calls[0]
                g1 = torch.autograd.grad(y.sum(), (a, b), create_graph=True)
                c1 = calls[0]
                torch.autograd.grad(g1[0].sum() + g1[1].sum(), (a, b))
                c2 = calls[0]
            ctx.count(("bck-options", fn_name, n), nontrivial=True)
            info = {"functional": fn_name, "unknowns": n, "bck_options": "{'method': <callable>}"}
            if c0 != 0 or c1 - c0 < 1:
                ctx.fail("oracle", "rootgrad:backward-method-ignored:first-order", info, {"calls_forward": c0, "calls_first_backward": c1 - c0},
                         "the given solver runs in the backward pass (and not in the forward pass)")
            elif c2 - c1 < 1:
                ctx.fail("oracle", "rootgrad:backward-method-ignored:second-order", info, {"calls_second_backward": c2 - c1},
                         "the given solver also runs when the backward pass is differentiated")


def object_param_krylov_probe(ctx):
    """parameters held by the function's object x iterative backward solver x second order (fix F31): the transposed
    Jacobian solve goes through the implicit solve path, whose own backward must see the object's tensors"""
    import xitorch as xt
    from xitorch.optimize import rootfinder
    for n in (4, 8):
        g = torch.Generator().manual_seed(ctx.seed + 3 * n)
        a0 = 0.2 * torch.randn(n, dtype=DT, generator=g)
        b0 = 0.3 * torch.randn(n, dtype=DT, generator=g)
        K = 0.1 * torch.randn(n, n, dtype=DT, generator=g)
        w = torch.cos(torch.arange(n, dtype=DT))

        def res(y, a, b):
            return y - (b + a * torch.sin(y @ K.T + y) * 0.6)

        def reference(a, b):
            y = torch.zeros(n, dtype=DT)
            for _ in range(300):
                y = b.detach() + a.detach() * torch.sin(y @ K.T + y) * 0.6
            for _ in range(3):
                J = torch.eye(n, dtype=DT) - torch.diag(a * torch.cos(y @ K.T + y) * 0.6) @ (K + torch.eye(n, dtype=DT))
                y = y - torch.linalg.solve(J, res(y, a, b))
            return y

        def g12(yfn, a, b):
            y = yfn()
            g1 = torch.autograd.grad((y * w).sum(), (a, b), create_graph=True)
            g2 = torch.autograd.grad((g1[0] * w).sum() + (g1[1] * w ** 2).sum(), (a, b))
            return [t.detach() for t in list(g1) + list(g2)]
        ar, br = a0.clone().requires_grad_(), b0.clone().requires_grad_()
        want = g12(lambda: reference(ar, br), ar, br)
        # the object also holds a tensor that does NOT require grad (a frozen parameter / a listed constant) before, between
        # or after the differentiable ones, or none (seeded C04/8: substitutions skipped as soon as ONE slot is unchanged)
        for kind, frozen_at in (("EditableModule", None), ("nn.Module", None), ("EditableModule", 0), ("EditableModule", 1),
                                ("nn.Module", 1), ("nn.Module", 2)):
            for bck in (dict(method="bicgstab", rtol=1e-12, atol=1e-14), dict(method="cg", rtol=1e-12, atol=1e-14)):
                a, b = a0.clone().requires_grad_(), b0.clone().requires_grad_()
                names = ["a", "b"]
                if frozen_at is not None:
                    names.insert(frozen_at, "one")
                if kind == "EditableModule":
                    class Mod(xt.EditableModule):
                        def __init__(self):
                            self.a, self.b, self.one = a, b, torch.ones(n, dtype=DT)

                        def f(self, y):
                            return res(y, self.a * (self.one if frozen_at is not None else 1.0), self.b)

                        def getparamnames(self, methodname, prefix=""):
                            return [prefix + nm_ for nm_ in names]
                    mod = Mod()
                    fobj, leaves = mod.f, (a, b)
                else:
                    class Net(torch.nn.Module):
                        def __init__(self):
                            super().__init__()
                            for nm_ in names:           # registration order = parameter order
                                setattr(self, nm_, torch.nn.Parameter({"a": a0, "b": b0, "one": torch.ones(n, dtype=DT)}[nm_].clone(),
                                                                      requires_grad=nm_ != "one"))

                        def forward(self, y):
                            return res(y, self.a * (self.one if frozen_at is not None else 1.0), self.b)
                    mod = Net()
                    fobj, leaves = mod.forward, (mod.a, mod.b)
                info = {"function_kind": kind, "unknowns": n, "bck_options": {k: v for k, v in bck.items()},
                        "object_tensors": names, "non_differentiable": "one" if frozen_at is not None else None}
                try:
                    with warnings.catch_warnings():
                        warnings.simplefilter("ignore")
                        got = g12(lambda: rootfinder(fobj, torch.zeros(n, dtype=DT), params=(), method="broyden1", f_tol=1e-13, x_tol=1e-13,
                                                     bck_options=bck), *leaves)
                except Exception as e:
                    ctx.fail("oracle", "rootgrad:object-params:exception", info, repr(e)[:300], "first and second order gradients")
                    continue
                ctx.count(("object-param-krylov", kind, n, bck["method"], frozen_at), nontrivial=True)
                for nm, x_, y_ in zip(("da", "db", "d2a", "d2b"), got, want):
                    if not torch.allclose(x_, y_, rtol=1e-5, atol=1e-7):
                        ctx.fail("oracle", "rootgrad:object-params:%s:%s" % (bck["method"], nm), info, x_, y_)
                        break


def round4_probes(ctx):
    """(a) one tensor reaching the function through two routes (twice in params; in params and held by the function's object): the
    gradient is the sum of the two partial derivatives, for rootfinder, equilibrium and minimize (round-4 seed C04/10: one
    differentiable copy per distinct tensor instead of one per slot);  (b) the backward linear solve with documented options the
    defaults never use - a right preconditioner, a larger system with a spread spectrum so that the periodic recomputation of the
    residual runs - still gives the implicit-function gradient (C04/11, C04/12)"""
    import xitorch as xt
    from xitorch.optimize import rootfinder, equilibrium, minimize
    a = torch.tensor([0.7, 1.3, 0.4], dtype=DT, requires_grad=True)
    w = torch.tensor([1.0, -2.0, 0.5], dtype=DT)

    class Hold(torch.nn.Module):
        def __init__(self, p):
            super().__init__()
            self.p = p

        def f(self, y, q):
            return y ** 3 + (1.0 + self.p * self.p) * y - q - 0.3 * self.p

        def g(self, y, q):
            return 0.2 * torch.tanh(y) * self.p + 0.3 * q

        def h(self, y, q):
            return (0.25 * y ** 4 + 0.5 * (1.0 + self.p * self.p) * y * y - (q + 0.3 * self.p) * y).sum()
    pa = torch.nn.Parameter(a.detach().clone())
    hold = Hold(pa)
    z = torch.zeros(3, dtype=DT)
    cases = [("rootfinder:twice-in-params", lambda: rootfinder(lambda y, p, q: y ** 3 + (1.0 + p * p) * y - q - 0.3 * p, z, params=(a, a), f_tol=1e-13), a,
              lambda t: (lambda y: y ** 3 + (1.0 + t * t) * y - t - 0.3 * t)),
             ("equilibrium:twice-in-params", lambda: equilibrium(lambda y, p, q: 0.2 * torch.tanh(y) * p + 0.3 * q, z, params=(a, a), f_tol=1e-13), a,
              lambda t: (lambda y: 0.2 * torch.tanh(y) * t + 0.3 * t - y)),
             ("minimize:twice-in-params", lambda: minimize(lambda y, p, q: (0.25 * y ** 4 + 0.5 * (1.0 + p * p) * y * y - (q + 0.3 * p) * y).sum(), z, params=(a, a), f_tol=1e-13), a,
              lambda t: (lambda y: y ** 3 + (1.0 + t * t) * y - t - 0.3 * t)),
             ("rootfinder:in-params-and-in-module", lambda: rootfinder(hold.f, z, params=(pa,), f_tol=1e-13), pa,
              lambda t: (lambda y: y ** 3 + (1.0 + t * t) * y - t - 0.3 * t)),
             ("equilibrium:in-params-and-in-module", lambda: equilibrium(hold.g, z, params=(pa,), f_tol=1e-13), pa,
              lambda t: (lambda y: 0.2 * torch.tanh(y) * t + 0.3 * t - y)),
             ("minimize:in-params-and-in-module", lambda: minimize(hold.h, z, params=(pa,), f_tol=1e-13), pa,
              lambda t: (lambda y: y ** 3 + (1.0 + t * t) * y - t - 0.3 * t))]
    for name, call, leaf, resid_of in cases:
        try:
            with warnings.catch_warnings():
                warnings.simplefilter("ignore")
                y = call()
                g1, = torch.autograd.grad((y * w).sum(), leaf)
        except Exception as e:
            ctx.fail("oracle", "rootgrad:aliased-tensor:%s:exception" % name, {}, repr(e)[:200], "the total derivative")
            continue
        # implicit function theorem on the residual with the two routes merged: dy/dt = -(dF/dy)^-1 dF/dt
        t = leaf.detach().clone().requires_grad_()
        yd = y.detach().clone().requires_grad_()
        F = resid_of(t)(yd)
        Jy = torch.stack([torch.autograd.grad(F[i], yd, retain_graph=True)[0] for i in range(3)])
        Jt = torch.stack([torch.autograd.grad(F[i], t, retain_graph=True)[0] for i in range(3)])
        ref = -(torch.linalg.solve(Jy, Jt)).T @ w
        ctx.count(("aliased-tensor", name), nontrivial=True)
        if not torch.allclose(g1, ref, rtol=1e-6, atol=1e-8):
            ctx.fail("oracle", "rootgrad:aliased-tensor:%s" % name, {"routes": name.split(":")[1]}, g1, ref)
    # (b) larger system, Krylov backward with documented options
    g = torch.Generator().manual_seed(ctx.seed + 71)
    n = 24
    Q, _ = torch.linalg.qr(torch.randn(n, n, dtype=DT, generator=g))
    A = (Q * torch.logspace(0, 2, n, dtype=DT)) @ Q.T + 0.1 * torch.randn(n, n, dtype=DT, generator=g)
    wv = torch.cos(torch.arange(n, dtype=DT))
    pre = xt.LinearOperator.m(torch.linalg.inv(A.T + 0.5 * torch.eye(n, dtype=DT)), is_hermitian=False)
    for bck in (dict(method="bicgstab", rtol=1e-12, atol=1e-14), dict(method="bicgstab", rtol=1e-12, atol=1e-14, resid_calc_every=3),
                dict(method="bicgstab", rtol=1e-12, atol=1e-14, precond_r=pre), dict(method="bicgstab", rtol=1e-12, atol=1e-14, precond_l=pre)):
        b = torch.randn(n, dtype=DT, generator=g).requires_grad_()
        s_ = torch.tensor(0.3, dtype=DT, requires_grad=True)
        fbig = lambda y, b, s: y @ A.T + s * torch.tanh(y) - b
        desc = {k: (v if not isinstance(v, xt.LinearOperator) else "<operator>") for k, v in bck.items()}
        try:
            with warnings.catch_warnings():
                warnings.simplefilter("ignore")
                y = rootfinder(fbig, torch.zeros(n, dtype=DT), params=(b, s_), method="broyden1", f_tol=1e-12, x_tol=1e-12, maxiter=400, bck_options=bck)
                gb, gs = torch.autograd.grad((y * wv).sum(), (b, s_))
        except Exception as e:
            ctx.fail("oracle", "rootgrad:krylov-backward-options:exception", {"bck_options": desc}, repr(e)[:200], "gradients")
            continue
        J = A + torch.diag(s_.detach() * (1 - torch.tanh(y.detach()) ** 2))
        lam = torch.linalg.solve(J.T, wv)
        ref_b, ref_s = lam, -(lam * torch.tanh(y.detach())).sum()
        ctx.count(("krylov-backward-options", tuple(sorted(desc))), nontrivial=True)
        if not torch.allclose(gb, ref_b, rtol=1e-6, atol=1e-8) or not torch.allclose(gs, ref_s, rtol=1e-6, atol=1e-8):
            ctx.fail("oracle", "rootgrad:krylov-backward-options", {"n": n, "bck_options": desc},
                     {"max_diff_b": float((gb - ref_b).abs().max()), "diff_s": float((gs - ref_s).abs())}, "the implicit-function gradient (rtol 1e-12 requested)")


def infinite_mask_probe(ctx):
    """the function's object may hold non-differentiable tensors with INFINITE entries (an additive causal mask: 0 on and below the
    diagonal, -inf above) next to the differentiable ones: implicit gradients equal the implicit-function-theorem ones, with the dense
    and with the Krylov backward solve (round-5 seed C04/14: the dummy graph connection p.reshape(-1)[0] * 0 became p.sum() * 0 =
    nan for such a tensor)"""
    import xitorch as xt
    from xitorch.optimize import rootfinder
    g = torch.Generator().manual_seed(ctx.seed + 53)

    def body(y, W, mask, b):
        return y - 0.5 * torch.softmax(W + mask, dim=-1) @ torch.tanh(y) - b

    class Layer(xt.EditableModule):
        def __init__(self, W, mask):
            self.W = W
            self.mask = mask

        def forward(self, y, b):
            return body(y, self.W, self.mask, b)

        def getparamnames(self, methodname, prefix=""):
            return [prefix + "W", prefix + "mask"]

    class NNLayer(torch.nn.Module):
        def __init__(self, W, mask):
            super().__init__()
            self.W = torch.nn.Parameter(W)
            self.mask = torch.nn.Parameter(mask, requires_grad=False)

        def forward(self, y, b):
            return body(y, self.W, self.mask, b)
    for n, bck in ((4, {}), (6, {"method": "bicgstab", "rtol": 1e-12, "atol": 1e-14})):
        for kind in ("EditableModule", "nn.Module"):
            W0 = torch.randn(n, n, dtype=DT, generator=g)
            mask = torch.triu(torch.full((n, n), float("-inf"), dtype=DT), diagonal=1)
            b = torch.randn(n, dtype=DT, generator=g).requires_grad_()
            w = torch.randn(n, dtype=DT, generator=g)
            if kind == "EditableModule":
                W = W0.clone().requires_grad_()
                layer = Layer(W, mask)
            else:
                layer = NNLayer(W0.clone(), mask)
                W = layer.W
            ctx.count(("infinite-mask", n, kind), nontrivial=True)
            info = {"object": kind, "n": n, "held_tensors": "W (differentiable), mask (0 / -inf, frozen)", "bck_options": bck}
            try:
                with warnings.catch_warnings():
                    warnings.simplefilter("ignore")
                    y = rootfinder(layer.forward, torch.zeros(n, dtype=DT), params=(b,), method="broyden1", f_tol=1e-13, bck_options=dict(bck))
                    gW, gb = torch.autograd.grad(y @ w, (W, b))
            except Exception as e:
                ctx.fail("oracle", "rootgrad:infinite-mask:exception", info, repr(e)[:300], "gradients")
                continue
            yd = y.detach()
            J = torch.autograd.functional.jacobian(lambda yy: body(yy, W.detach(), mask, b.detach()), yd)
            gvec = torch.linalg.solve(J.T, -w)
            W1 = W.detach().clone().requires_grad_()
            b1 = b.detach().clone().requires_grad_()
            rW, rb = torch.autograd.grad(body(yd, W1, mask, b1), (W1, b1), grad_outputs=gvec)
            eW, eb = float((gW - rW).abs().max()), float((gb - rb).abs().max())
            if not (eW <= 1e-6 and eb <= 1e-6):
                ctx.fail("oracle", "rootgrad:infinite-mask", info, {"err_W": eW, "err_b": eb, "nan": bool(torch.isnan(gW).any() or torch.isnan(gb).any())},
                         "implicit-function-theorem gradients to 1e-6")


def reassigned_attribute_probe(ctx):
    """history: rootfinder on a module's method; the caller assigns a NEW tensor to the module's attribute; backward through the earlier
    result - the gradient w.r.t. the forward-time tensor is the implicit-function-theorem gradient AT the forward-time values (finding
    F45b: the wrapper believes the object still holds the tensors of the forward call, skips the substitution as 'identical' and the
    Jacobian of the backward pass is evaluated with the newly assigned values)"""
    import xitorch as xt
    from xitorch.optimize import rootfinder

    class ED(xt.EditableModule):
        def __init__(self, a):
            self.a = a

        def resid(self, y):
            return y * y * self.a + y - 1.0

        def getparamnames(self, methodname, prefix=""):
            return [prefix + "a"]

    class NN(torch.nn.Module):
        def __init__(self, a):
            super().__init__()
            self.a = torch.nn.Parameter(a)

        def resid(self, y):
            return y * y * self.a + y - 1.0
    a0 = torch.tensor([0.7, 1.3], dtype=DT)
    for kind in ("EditableModule", "nn.Module"):
        outs = []
        for reassign in (False, True):
            mod = ED(a0.clone().requires_grad_()) if kind == "EditableModule" else NN(a0.clone())
            old = mod.a
            with warnings.catch_warnings():
                warnings.simplefilter("ignore")
                y = rootfinder(mod.resid, torch.tensor([0.5, 0.5], dtype=DT), f_tol=1e-13)
                if reassign:
                    mod.a = (a0 * 3).requires_grad_() if kind == "EditableModule" else torch.nn.Parameter(a0 * 3)
                g, = torch.autograd.grad(y.sum(), old, allow_unused=True)
            outs.append(g)
        ctx.count(("reassigned-attribute-before-backward", kind), nontrivial=True)
        # closed form: y^2 a + y - 1 = 0  =>  dy/da = -y^2 / (2 a y + 1)
        ysol = (-1 + torch.sqrt(1 + 4 * a0)) / (2 * a0)
        ref = -ysol ** 2 / (2 * a0 * ysol + 1)
        if outs[0] is None or not float((outs[0] - ref).abs().max()) <= 1e-9:
            ctx.fail("oracle", "rootgrad:module-method:plain", {"object": kind}, None if outs[0] is None else outs[0].tolist(), ref.tolist())
        elif outs[1] is None or not float((outs[1] - ref).abs().max()) <= 1e-9:
            ctx.fail("oracle", "rootgrad:attribute-reassigned-before-backward", {"object": kind, "history": "y = rootfinder(m.resid, y0); m.a = new tensor; grad(y, old tensor)"},
                     None if outs[1] is None else outs[1].tolist(), ref.tolist())


def tied_weights_probe(ctx):
    """a torch.nn.Module with ONE Parameter registered under two names (tied weights), used through both: the implicit gradient
    w.r.t. the shared parameter counts both uses (finding F36, fixed in 207265b; round-6 seed C04/15 undid the fix), rootfinder and
    equilibrium, dense and Krylov backward"""
    from xitorch.optimize import rootfinder, equilibrium

    class Tied(torch.nn.Module):
        def __init__(self, w, c):
            super().__init__()
            self.w1 = w
            self.w2 = w
            self.c = c

        def resid(self, y):
            return y + 0.3 * torch.tanh(self.w1 * y) + 0.2 * self.w2 * y * y - self.c

        def fixed(self, y):
            return self.c - 0.3 * torch.tanh(self.w1 * y) - 0.2 * self.w2 * y * y
    g = torch.Generator().manual_seed(ctx.seed + 89)
    for n, bck in ((3, {}), (7, {"method": "bicgstab", "rtol": 1e-12, "atol": 1e-14})):
        w = torch.nn.Parameter(torch.rand(n, dtype=DT, generator=g) + 0.5)
        c = torch.nn.Parameter(torch.rand(n, dtype=DT, generator=g))
        m = Tied(w, c)
        for fnl in ("rootfinder", "equilibrium"):
            ctx.count(("tied-weights", fnl, n), nontrivial=True)
            try:
                with warnings.catch_warnings():
                    warnings.simplefilter("ignore")
                    y = rootfinder(m.resid, torch.zeros(n, dtype=DT), f_tol=1e-13, bck_options=dict(bck)) if fnl == "rootfinder" \
                        else equilibrium(m.fixed, torch.zeros(n, dtype=DT), f_tol=1e-13, bck_options=dict(bck))
                    gw, gc = torch.autograd.grad((y * y).sum(), (w, c))
            except Exception as e:
                ctx.fail("oracle", "rootgrad:tied-weights:exception", {"functional": fnl, "n": n}, repr(e)[:300], "gradients")
                continue
            yd = y.detach()
            f = lambda yy, ww, cc: yy + 0.3 * torch.tanh(ww * yy) + 0.2 * ww * yy * yy - cc
            J = torch.autograd.functional.jacobian(lambda yy: f(yy, w.detach(), c.detach()), yd)
            lam = torch.linalg.solve(J.T, -2 * yd)
            w1 = w.detach().clone().requires_grad_()
            c1 = c.detach().clone().requires_grad_()
            rw, rc = torch.autograd.grad(f(yd, w1, c1), (w1, c1), grad_outputs=lam)
            err = max(float((gw - rw).abs().max()), float((gc - rc).abs().max()))
            if not err <= 1e-7:
                ctx.fail("oracle", "rootgrad:tied-weights", {"functional": fnl, "n": n, "bck_options": bck}, {"max_error": err},
                         "implicit-function-theorem gradient counting both names of the shared Parameter")


def search(ctx):
    oracle(ctx)

"""C14 — Interp1D evaluates the declared interpolant of the samples.

Tie (model vs implementation): Model/Interp.v at IEEE binary64 (spline system row by row, Gauss-Jordan
  for torch.linalg.solve, bracket search, both evaluation formulas, extrapolation position maps) against
  the public Interp1D: linear to 2^-44, cubic spline (4 boundary conditions) to 2^-26 relative, the
  extrapolated positions bit for bit (the floor of the normalised coordinate is an oracle input that the
  model validates).
Oracle (implementation): knots reproduced, C0/C1/C2 across knots, boundary conditions, formula
  agreement (few vs many queries), y at init vs call, unsorted samples / shuffled queries, batched y,
  extrapolation values, gradients in y and xq."""
from __future__ import annotations
import math, warnings
import torch
from vlib import cnat, clist, cbool, cfloat, coq_bool_cases
from props.c07 import fvec

RULE = ("grids of 3..14 knots (uniform / clustered / random dyadic) x y in [-4,4] x methods {linear, cspline x "
        "{natural, clamped, not-a-knot, periodic}} x query sets (at knots, at the ends, inside; fewer or more queries than "
        "knots so that both formulas run); extrapolation modes periodic/mirror/bound on queries up to 3 ranges outside; "
        "distinct = (method, bc, grid, queries); non-trivial = at least one query strictly between two knots")
TRUSTED = ["harness tools/props/c14.py", "modelled: torch.linalg.solve (Gauss-Jordan in the model, compared to 2^-26), "
           "torch.sort / searchsorted / gather (contracts), floor of the normalised coordinate (validated oracle)"]
ASSUMPTIONS = ["x never requires grad (toolchain limitation of searchsorted/gather noted in DESIGN section 6)"]
HEADER = ("From XV Require Import Base.Ops Model.Interp Model.InterpRun.\n"
          "From Coq Require Import List PrimFloat.\nImport ListNotations.\n")
DT = torch.float64
BCS = {"natural": "Natural", "clamped": "Clamped", "not-a-knot": "NotAKnot", "periodic": "Periodic"}


def gen_grid(rng, nmin=3):
    n = rng.randrange(nmin, 15)
    kind = rng.choice(["uniform", "clustered", "random"])
    x0 = rng.randrange(-16, 17) / 8
    if kind == "uniform":
        h = rng.choice([1, 2, 4, 8]) / 8
        xs = [x0 + i * h for i in range(n)]
    elif kind == "clustered":
        xs = [x0]
        for i in range(n - 1):
            xs.append(xs[-1] + rng.choice([1 / 32, 1 / 16, 1 / 2, 1.0, 2.0]))
    else:
        xs = [x0]
        for i in range(n - 1):
            xs.append(xs[-1] + rng.randrange(1, 33) / 16)
    return xs


def gen_queries(rng, xs, many):
    n = len(xs)
    nq = rng.randrange(n + 1, 2 * n + 4) if many else rng.randrange(1, n + 1)
    qs = []
    for _ in range(nq):
        r = rng.random()
        if r < 0.2:
            qs.append(rng.choice(xs))
        elif r < 0.3:
            qs.append(rng.choice([xs[0], xs[-1]]))
        else:
            i = rng.randrange(n - 1)
            qs.append(xs[i] + (xs[i + 1] - xs[i]) * rng.randrange(1, 16) / 16)
    return qs


def check(ctx):
    from xitorch.interpolate import Interp1D
    rng = ctx.rng
    cases, meta = [], []
    for _ in range(ctx.n(150, 1000)):
        method = rng.choice(["linear", "cspline", "cspline"])
        bc = rng.choice(list(BCS)) if method == "cspline" else None
        xs = gen_grid(rng, 4 if bc == "not-a-knot" else 3)
        ys = [rng.randrange(-32, 33) / 8 for _ in xs]
        if bc == "periodic":
            ys[-1] = ys[0]
        many = rng.random() < 0.5
        qs = gen_queries(rng, xs, many)
        x, y, q = (torch.tensor(v, dtype=DT) for v in (xs, ys, qs))
        kw = {} if bc is None else {"bc_type": bc}
        at_init = rng.random() < 0.5
        try:
            with warnings.catch_warnings():
                warnings.simplefilter("ignore")
                out = Interp1D(x, y, method=method, **kw)(q) if at_init else Interp1D(x, method=method, **kw)(q, y)
        except Exception as e:
            ctx.fail("oracle", "interp:exception:%s:%s" % (method, bc), {"x": xs, "y": ys, "q": qs}, repr(e)[:200], "no exception")
            continue
        info = {"method": method, "bc": bc, "x": xs, "nq": len(qs), "formula": "many" if many else "few", "y_at": "init" if at_init else "call"}
        if method == "linear":
            cases.append("linear_ok %s %s %s %s %s 0x1p-44 0x1p-48" % (cbool(many), fvec(xs), fvec(ys), fvec(qs), fvec(out.tolist())))
        else:
            cases.append("cubic_ok %s %s %s %s %s %s 0x1p-26 0x1p-30" % (cbool(many), BCS[bc], fvec(xs), fvec(ys), fvec(qs), fvec(out.tolist())))
        meta.append(info)
        ctx.count((method, bc, tuple(xs), tuple(qs)), nontrivial=any(v not in xs for v in qs))
        ctx.stat("%s:%s:%s" % (method, bc, "many" if many else "few"))
        ctx.sample(info, limit=4)
    # extrapolation position maps
    from xitorch._impls.interpolate.extrap_utils import get_extrap_pos
    for _ in range(ctx.n(60, 400)):
        mode = rng.choice(["periodic", "mirror", "bound"])
        xmin = rng.randrange(-16, 17) / 8
        xmax = xmin + rng.randrange(1, 33) / 8
        qs = [xmin + (xmax - xmin) * rng.randrange(-48, 64) / 16 + rng.choice([0, 1 / 64]) for _ in range(rng.randrange(1, 8))]
        qt = torch.tensor(qs, dtype=DT)
        pos = get_extrap_pos(qt, mode, torch.tensor(xmin, dtype=DT), torch.tensor(xmax, dtype=DT))
        xn = (qt - xmin) / (xmax - xmin)
        base = xn.abs() if mode == "mirror" else xn
        ks = torch.floor(base)
        odd = [(int(k) % 2) == 1 for k in ks.tolist()]
        cases.append("extrap_ok %s %s %s %s %s %s %s" % ({"periodic": "EPeriodic", "mirror": "EMirror", "bound": "EBound"}[mode],
                                                     cfloat(xmin), cfloat(xmax), fvec(qs), fvec(ks.tolist()),
                                                     clist([cbool(b) for b in odd]), fvec(pos.tolist())))
        meta.append({"extrap": mode, "xmin": xmin, "xmax": xmax, "q": qs})
        ctx.count(("extrap", mode, xmin, xmax, tuple(qs)))
        ctx.stat("extrap:" + mode)
    failed, errors = coq_bool_cases("c14", HEADER, cases, chunk=60)
    ctx.coverage["traces_validated_against_impl"] += len(cases) - len(failed)
    for e in errors:
        ctx.broken("correspondence:interp1d", e)
    for i in failed[:3]:
        ctx.broken("correspondence:interp1d", {"case": meta[i], "coq": cases[i][:1500]})
    oracle(ctx)
    batched_unsorted_probe(ctx)
    default_extrap_probe(ctx)
    round6_probes(ctx)


def oracle(ctx):
    from xitorch.interpolate import Interp1D
    rng = ctx.rng
    for rep_ in range(ctx.n(25, 200)):
        xs = gen_grid(rng, 5)
        if rep_ % 8 == 3:
            xs = xs[:3]            # the smallest grids (for periodic splines the wrap-around rows touch every column)
        elif rep_ % 8 == 5:
            xs = xs[:4]
        n = len(xs)
        x = torch.tensor(xs, dtype=DT)
        y = torch.tensor([rng.randrange(-32, 33) / 8 for _ in xs], dtype=DT)
        span = xs[-1] - xs[0]
        for method, bc in [("linear", None)] + [("cspline", b) for b in BCS]:
            if bc == "not-a-knot" and n == 3:
                continue     # ill-posed: with one interior knot every cubic through the three samples is a not-a-knot spline
            kw = {} if bc is None else {"bc_type": bc}
            yy = y.clone()
            if bc == "periodic":
                yy[-1] = yy[0]
            info = {"method": method, "bc": bc, "x": xs}
            ctx.count(("oracle", method, bc, tuple(xs)))
            with warnings.catch_warnings():
                warnings.simplefilter("ignore")
                f = Interp1D(x, yy, method=method, **kw)
                # knots reproduced (few and many queries)
                for qq in (x[:3], torch.cat([x, x, x[:2]])):
                    got = f(qq)
                    want = torch.cat([yy, yy, yy[:2]])[:len(qq)] if len(qq) > 3 else yy[:3]
                    if not torch.allclose(got, want, rtol=1e-10, atol=1e-10):
                        ctx.fail("oracle", "interp:knots:%s:%s" % (method, bc), info, got, want)
                # formula agreement: the same queries evaluated with few / many companions
                qin = torch.tensor([xs[0] + span * k / 7.3 for k in range(1, 7)], dtype=DT)
                # an independent implementation of the declared spline (scipy's CubicSpline with the same boundary condition):
                # values between the knots (round-3 seeds C14/7, C15/9: entries of the periodic slope system)
                if method == "cspline":
                    from scipy.interpolate import CubicSpline
                    import numpy as _np
                    ref_sp = CubicSpline(_np.array(xs), yy.numpy(), bc_type=bc)
                    want_sp = torch.tensor(ref_sp(qin.numpy()), dtype=DT)
                    got_sp = f(qin)
                    if not torch.allclose(got_sp, want_sp, rtol=1e-8, atol=1e-9 * (float(yy.abs().max()) + 1)):
                        ctx.fail("oracle", "interp:cspline-vs-independent-spline:%s" % bc, info, got_sp, want_sp)
                few = f(qin[:2])
                manyq = torch.cat([qin[:2], torch.linspace(xs[0], xs[-1], 2 * n + 3, dtype=DT)])
                many = f(manyq)[:2]
                if not torch.allclose(few, many, rtol=1e-10, atol=1e-11):
                    ctx.fail("oracle", "interp:formula-agreement:%s:%s" % (method, bc), info, few, many)
                # y at init vs at call; shuffled samples; shuffled queries; batched y
                perm = torch.randperm(n, generator=torch.Generator().manual_seed(rng.randrange(10 ** 6)))
                r0 = f(qin)
                for name, val in (("y-at-call", Interp1D(x, method=method, **kw)(qin, yy)),
                                  ("shuffled-samples", Interp1D(x[perm], yy[perm], method=method, **kw)(qin)),
                                  ("shuffled-samples-y-at-call", Interp1D(x[perm], method=method, **kw)(qin, yy[perm])),
                                  ("shuffled-queries", f(qin.flip(0)).flip(0)),
                                  ("batched-y", Interp1D(x, torch.stack([yy, 2 * yy]), method=method, **kw)(qin)[0])):
                    if not torch.allclose(val, r0, rtol=1e-9, atol=1e-10):
                        ctx.fail("oracle", "interp:%s:%s:%s" % (name, method, bc), info, val, r0)
                # smoothness across interior knots
                eps = span * 1e-4
                if method == "cspline":
                    for i in range(1, n - 1):
                        xi = xs[i]
                        hh = min(xs[i] - xs[i - 1], xs[i + 1] - xs[i]) * 1e-3
                        pts = torch.tensor([xi - 2 * hh, xi - hh, xi, xi + hh, xi + 2 * hh], dtype=DT)
                        v = f(pts)
                        d1l, d1r = (v[2] - v[1]) / hh, (v[3] - v[2]) / hh
                        d2l, d2r = (v[2] - 2 * v[1] + v[0]) / hh ** 2, (v[4] - 2 * v[3] + v[2]) / hh ** 2
                        scale = float(yy.abs().max()) / min(xs[j + 1] - xs[j] for j in range(n - 1)) ** 2 + 1
                        if not (abs(float(d1l - d1r)) <= 50 * hh * scale and abs(float(d2l - d2r)) <= 0.1 * scale):
                            ctx.fail("oracle", "interp:smoothness:%s" % bc, dict(info, knot=i),
                                     {"d1": [float(d1l), float(d1r)], "d2": [float(d2l), float(d2r)]}, "C1 and C2 at interior knots")
                            break
                    # boundary conditions
                    h0 = (xs[1] - xs[0]) * 1e-3
                    hn = (xs[-1] - xs[-2]) * 1e-3
                    vl = f(torch.tensor([xs[0], xs[0] + h0, xs[0] + 2 * h0, xs[0] + 3 * h0], dtype=DT))
                    vr = f(torch.tensor([xs[-1] - 3 * hn, xs[-1] - 2 * hn, xs[-1] - hn, xs[-1]], dtype=DT))
                    scale = float(yy.abs().max()) + 1
                    if bc == "natural":
                        d2l = float((vl[2] - 2 * vl[1] + vl[0]) / h0 ** 2)
                        d2r = float((vr[3] - 2 * vr[2] + vr[1]) / hn ** 2)
                        lim = 0.02 * scale / min(xs[j + 1] - xs[j] for j in range(n - 1)) ** 2
                        if not (abs(d2l) <= lim and abs(d2r) <= lim):
                            ctx.fail("oracle", "interp:bc:natural", info, [d2l, d2r], "S'' = 0 at both ends")
                    if bc == "clamped":
                        d1l, d1r = float((vl[1] - vl[0]) / h0), float((vr[3] - vr[2]) / hn)
                        lim = 0.02 * scale / min(xs[j + 1] - xs[j] for j in range(n - 1))
                        if not (abs(d1l) <= lim and abs(d1r) <= lim):
                            ctx.fail("oracle", "interp:bc:clamped", info, [d1l, d1r], "S' = 0 at both ends")
                    if bc == "periodic":
                        d1l, d1r = float((vl[1] - vl[0]) / h0), float((vr[3] - vr[2]) / hn)
                        lim = 0.02 * scale / min(xs[j + 1] - xs[j] for j in range(n - 1))
                        if not abs(d1l - d1r) <= lim:
                            ctx.fail("oracle", "interp:bc:periodic", info, [d1l, d1r], "S' equal at the two ends")
                # extrapolation values
                out_q = torch.tensor([xs[0] - 0.3 * span, xs[-1] + 0.4 * span, xs[0] + 0.5 * span], dtype=DT)
                inside = f(out_q[2:])
                vals = {
                    "nan": lambda r: bool(torch.isnan(r[:2]).all()),
                    2.5: lambda r: bool(torch.allclose(r[:2], torch.full((2,), 2.5, dtype=DT))),
                    # zero is a constant like any other (round-3 seed C14/8: `not extrap` took 0 for "no extrapolation")
                    0.0: lambda r: bool(torch.equal(r[:2], torch.zeros(2, dtype=DT))),
                    0: lambda r: bool(torch.equal(r[:2], torch.zeros(2, dtype=DT))),
                    -1: lambda r: bool(torch.equal(r[:2], torch.full((2,), -1.0, dtype=DT))),
                    "bound": lambda r: bool(torch.allclose(r[:2], torch.stack([yy[0], yy[-1]]), rtol=1e-9, atol=1e-9)),
                    "mirror": lambda r: bool(torch.allclose(r[:2], f(torch.tensor([xs[0] + 0.3 * span, xs[-1] - 0.4 * span], dtype=DT)), rtol=1e-8, atol=1e-9)),
                    "periodic": lambda r: bool(torch.allclose(r[:2], f(torch.tensor([xs[0] + 0.7 * span, xs[0] + 0.4 * span], dtype=DT)), rtol=1e-8, atol=1e-9)),
                }
                for ex, pred in vals.items():
                    if ex == "periodic" and not abs(float(yy[0] - yy[-1])) <= 1e-12:
                        continue
                    try:
                        r = Interp1D(x, yy, method=method, extrap=ex, **kw)(out_q)
                    except Exception as e:
                        ctx.fail("oracle", "interp:extrap-exception:%s:%s" % (ex, method), info, repr(e)[:200], "documented value")
                        continue
                    if not pred(r) or not torch.allclose(r[2:], inside, rtol=1e-10, atol=1e-12):
                        ctx.fail("oracle", "interp:extrap:%s:%s:%s" % (ex, method, bc), info, r, "documented extrapolation value; inside untouched")
                # one interpolator object called repeatedly with y given at call time: each call interpolates the y it is given,
                # also when the same tensor object was updated in place in between (round-3 seed C14/9: slopes cached by identity)
                itp = Interp1D(x, method=method, assume_sorted=bool((x[1:] > x[:-1]).all()), **kw)
                ycall = yy.clone()
                first_call = itp(qin, ycall)
                with torch.no_grad():
                    ycall.mul_(-0.5).add_(torch.sin(3.0 * x))
                    if bc == "periodic":
                        ycall[-1] = ycall[0]
                second_call = itp(qin, ycall)
                fresh = Interp1D(x, ycall.clone(), method=method, **kw)(qin)
                if not torch.allclose(first_call, r0, rtol=1e-9, atol=1e-10) or not torch.allclose(second_call, fresh, rtol=1e-9, atol=1e-10):
                    ctx.fail("oracle", "interp:y-at-call:reused-object-after-in-place-update:%s:%s" % (method, bc), info,
                             {"second_call": second_call.tolist(), "fresh_interpolator": fresh.tolist()}, "the interpolant of the y given at the call")
                # mirror / periodic far outside the range, on both sides (round-4 seed C14/11: the mirror map was wrong only for
                # queries one to two, or three to four, range lengths to the LEFT of xmin)
                for off in (-3.4, -2.6, -1.3, -0.7, 1.2, 2.45, 3.7):
                    qf = torch.tensor([xs[0] + off * span if off < 0 else xs[-1] + off * span], dtype=DT)
                    u = (float(qf[0]) - xs[0]) / span                 # position in units of the range, 0..1 inside
                    k_ = math.floor(u)
                    um = u - k_ if k_ % 2 == 0 else 1.0 - (u - k_)        # reflected back into [0, 1]
                    up = u - k_                                           # periodic image
                    for ex, uu in (("mirror", um), ("periodic", up)):
                        if ex == "periodic" and not abs(float(yy[0] - yy[-1])) <= 1e-12:
                            continue
                        want_f = f(torch.tensor([xs[0] + uu * span], dtype=DT))
                        got_f = Interp1D(x, yy, method=method, extrap=ex, **kw)(qf)
                        if not torch.allclose(got_f, want_f, rtol=1e-7, atol=1e-8 * (float(yy.abs().max()) + 1)):
                            ctx.fail("oracle", "interp:extrap-far:%s:%s" % (ex, method), dict(info, query_in_range_units=u), got_f, want_f)
                cb = Interp1D(x, yy, method=method, extrap=lambda q: q * 2, **kw)(out_q)
                if not torch.allclose(cb[:2], out_q[:2] * 2):
                    ctx.fail("oracle", "interp:extrap:callable:%s" % method, info, cb, out_q[:2] * 2)
                # gradients in y and xq equal the interpolant's own derivative / linearity in y
                yg = yy.clone().requires_grad_()
                qg = qin.clone().requires_grad_()
                val = Interp1D(x, yg, method=method, **kw)(qg)
                gy, gq = torch.autograd.grad(val.sum(), (yg, qg))
                if bc != "periodic":     # unit vectors are not periodic data
                    mat = torch.stack([Interp1D(x, e, method=method, **kw)(qin) for e in torch.eye(n, dtype=DT)], dim=-1)  # (nq, n)
                    if not torch.allclose(gy, mat.sum(dim=0), rtol=1e-8, atol=1e-9):
                        ctx.fail("oracle", "interp:grad-y:%s:%s" % (method, bc), info, gy, mat.sum(dim=0))
                hq = span * 1e-6
                fd = (f(qin + hq) - f(qin - hq)) / (2 * hq)
                # the linear interpolant has kinks: compare only queries whose stencil stays inside one interval
                away = (qin[:, None] - x[None, :]).abs().min(dim=1)[0] > 3 * hq
                gq, fd = gq[away], fd[away]
                if not torch.allclose(gq, fd, rtol=1e-4, atol=1e-5 * (float(yy.abs().max()) + 1) / min(xs[j + 1] - xs[j] for j in range(n - 1))):
                    ctx.fail("oracle", "interp:grad-xq:%s:%s" % (method, bc), info, gq, fd)


def batched_unsorted_probe(ctx):
    """x given as a BATCH of differently ordered grids, y batched likewise, supplied at construction or at call time: every row is
    the interpolant of its own samples (round-4 seed C14/10: the re-ordering of a call-time y indexed all rows with all
    permutations)"""
    from xitorch.interpolate import Interp1D
    g = torch.Generator().manual_seed(ctx.seed + 17)
    # every boundary condition (round-5 seed C14/13: the clamped end row was zeroed for the last grid of the batch only)
    for method, kw in (("linear", {}), ("cspline", {"bc_type": "natural"}), ("cspline", {"bc_type": "not-a-knot"}),
                       ("cspline", {"bc_type": "clamped"}), ("cspline", {"bc_type": "periodic"})):
        for nb, n in ((2, 5), (3, 7)):
            xs_sorted = torch.cumsum(torch.rand(nb, n, dtype=DT, generator=g) + 0.2, dim=-1)
            perms = torch.stack([torch.randperm(n, generator=g) for _ in range(nb)])
            x = torch.gather(xs_sorted, -1, perms)
            y_sorted = torch.randn(nb, n, dtype=DT, generator=g)
            if kw.get("bc_type") == "periodic":
                y_sorted[:, -1] = y_sorted[:, 0]
            y = torch.gather(y_sorted, -1, perms)
            lo, hi = xs_sorted[:, :1].max(), xs_sorted[:, -1:].min()
            q = lo + (hi - lo) * torch.rand(4, dtype=DT, generator=g)
            ref = torch.stack([Interp1D(xs_sorted[i], y_sorted[i], method=method, **kw)(q) for i in range(nb)])
            info = {"method": method, "bc": kw.get("bc_type"), "batch": nb, "n": n}
            ctx.count(("batched-unsorted", method, kw.get("bc_type"), nb, n))
            for name, call in (("y-at-construction", lambda: Interp1D(x, y, method=method, **kw)(q)), ("y-at-call", lambda: Interp1D(x, method=method, **kw)(q, y))):
                try:
                    got = call()
                except Exception as e:
                    ctx.fail("oracle", "interp:batched-unsorted-x:%s:exception" % name, info, repr(e)[:200], "one interpolant per row")
                    continue
                if got.shape != ref.shape or not torch.allclose(got, ref, rtol=1e-9, atol=1e-10):
                    ctx.fail("oracle", "interp:batched-unsorted-x:%s" % name, info, {"shape": list(got.shape)}, {"shape": list(ref.shape)})


def default_extrap_probe(ctx):
    """the documented DEFAULT extrapolation follows the boundary condition: clamped -> mirror, periodic -> periodic, otherwise nan
    (round-5 seed C14/14: the base class stored the raw None, queries outside the range came back as nan for every bc)"""
    from xitorch.interpolate import Interp1D
    g = torch.Generator().manual_seed(ctx.seed + 23)
    x = torch.cumsum(torch.rand(6, dtype=DT, generator=g) + 0.2, dim=-1)
    q = torch.cat([x[:1] - torch.tensor([0.7, 0.1], dtype=DT), x[2:3] + 0.01, x[-1:] + torch.tensor([0.05, 0.9], dtype=DT)])
    for bc, mode in (("clamped", "mirror"), ("periodic", "periodic"), ("natural", "nan"), ("not-a-knot", "nan")):
        y = torch.randn(6, dtype=DT, generator=g)
        if bc == "periodic":
            y[-1] = y[0]
        ctx.count(("default-extrap", bc), nontrivial=True)
        try:
            got = Interp1D(x, y, method="cspline", bc_type=bc)(q)
            ref = Interp1D(x, y, method="cspline", bc_type=bc, extrap=mode)(q)
        except Exception as e:
            ctx.fail("oracle", "interp:default-extrap:%s:exception" % bc, {"bc": bc}, repr(e)[:200], "values")
            continue
        same = torch.equal(torch.isnan(got), torch.isnan(ref)) and torch.allclose(got[~torch.isnan(ref)], ref[~torch.isnan(ref)], rtol=1e-12, atol=1e-13)
        if not same or (mode != "nan" and bool(torch.isnan(got).any())):
            ctx.fail("oracle", "interp:default-extrap:%s" % bc, {"bc": bc, "documented_default": mode, "x": x.tolist(), "queries": q.tolist()},
                     {"got": got.tolist()}, {"with_explicit_extrap": ref.tolist()})


def round6_probes(ctx):
    """(a) a batched y with an interior batch dimension of size 1 (shape (2, 1, n)) given at construction behaves like the same y
    given at call time: same values, shape (2, 1, nq) (round-6 seed C14/15: the slopes were squeezed with .squeeze() instead of
    .squeeze(-1)).  (b) the derivative w.r.t. QUERY points outside the sample range, for the extrapolation modes that map the query back
    into the range (mirror, periodic, bound), is the derivative of the extrapolated function itself (C14/16: the mapped position was
    computed from a detached copy, the gradient of outside queries came back as 0)"""
    from xitorch.interpolate import Interp1D
    g = torch.Generator().manual_seed(ctx.seed + 29)
    n = 6
    x = torch.cumsum(torch.rand(n, dtype=DT, generator=g) + 0.2, dim=-1)
    y3 = torch.randn(2, 1, n, dtype=DT, generator=g)
    q = x[0] + (x[-1] - x[0]) * torch.rand(5, dtype=DT, generator=g)
    for method, kw in (("linear", {}), ("cspline", {"bc_type": "natural"}), ("cspline", {"bc_type": "not-a-knot"}), ("cspline", {"bc_type": "clamped"})):
        ctx.count(("singleton-batch-dim", method, kw.get("bc_type")), nontrivial=True)
        try:
            a = Interp1D(x, y3, method=method, **kw)(q)
            b = Interp1D(x, method=method, **kw)(q, y3)
            rows = torch.stack([Interp1D(x, y3[i, 0], method=method, **kw)(q) for i in range(2)]).unsqueeze(1)
        except Exception as e:
            ctx.fail("oracle", "interp:singleton-batch-dim:exception", {"method": method, "bc": kw.get("bc_type"), "y_shape": [2, 1, n]}, repr(e)[:200], "values of shape (2, 1, nq)")
            continue
        if a.shape != rows.shape or b.shape != rows.shape or not torch.allclose(a, rows, rtol=1e-10, atol=1e-12) or not torch.allclose(b, rows, rtol=1e-10, atol=1e-12):
            ctx.fail("oracle", "interp:singleton-batch-dim", {"method": method, "bc": kw.get("bc_type"), "y_shape": [2, 1, n]},
                     {"y_at_construction": list(a.shape), "y_at_call": list(b.shape)}, {"shape": list(rows.shape)})
    L = float(x[-1] - x[0])
    y = torch.randn(n, dtype=DT, generator=g)
    yper = y.clone()
    yper[-1] = yper[0]
    for method, kw in (("linear", {}), ("cspline", {"bc_type": "natural"})):
        for mode in ("mirror", "periodic", "bound"):
            yy = yper if mode == "periodic" else y
            qs = torch.tensor([float(x[0]) - 0.37 * L, float(x[0]) - 1.21 * L, float(x[-1]) + 0.43 * L, float(x[-1]) + 1.63 * L, float(x[0]) + 0.51 * L], dtype=DT)
            ctx.count(("query-gradient-outside", method, mode), nontrivial=True)
            try:
                f = lambda t: Interp1D(x, yy, method=method, extrap=mode, **kw)(t)
                qq = qs.clone().requires_grad_()
                gq, = torch.autograd.grad(f(qq).sum(), qq)
                h = 1e-6
                fd = (f(qs + h) - f(qs - h)) / (2 * h)
            except Exception as e:
                ctx.fail("oracle", "interp:query-gradient-outside:exception", {"method": method, "extrap": mode}, repr(e)[:200], "a gradient")
                continue
            if not torch.allclose(gq, fd, rtol=1e-5, atol=1e-6 * (1 + float(fd.abs().max()))):
                ctx.fail("oracle", "interp:query-gradient-outside", {"method": method, "extrap": mode, "queries_relative_to_range": [-0.37, -1.21, 1.43, 2.63, 0.51]},
                         {"autograd": gq.tolist()}, {"central_differences_of_the_interpolant": fd.tolist()})


def search(ctx):
    oracle(ctx)

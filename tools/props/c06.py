"""C06 — gradients of eigenpairs and singular triplets are exact, incl. degeneracy.

Tie (model vs implementation, 2^-26 relative): Model/SymeigBwd.v at binary64 / complex binary64
  - symeig_torchfcn.backward (methods that go through the implicit backward): for random cotangents of the values
    and the vectors, the degeneracy flag, the right-hand side handed to solve (spied), and - from the spied answer
    of solve - the gradients with respect to the dense matrices of A and M returned by autograd;
  - degen_symeig.backward (dense path): the symmetrised gradient for random cotangents.
Oracle (implementation only): methods x {M absent, M} x operator kinds (dense, matrix-free with parameters) x
  neig < n and neig = n x modes x spectra (random, exactly degenerate with the kept set closed under degeneracy)
  x batches x {float64, complex128}: first- and second-order gradients of gauge-invariant losses (cluster sums of
  eigenvalues, tr(C P) with P the M-orthogonal projector on the kept vectors; s_i and sum s_i u_i v_i^H for svd)
  against (a) torch.linalg.eigh / svd autograd of the dense matrix for non-degenerate spectra, (b) central finite
  differences of the dense reference loss for degenerate ones."""
from __future__ import annotations
import sys, warnings, contextlib
import torch
from vlib import cnat, clist, cbool, cfloat, coq_nat_cases
from props.c05 import enc_s, enc_v, enc_m, inst, gen, rsym, rspd, planted, SPECTRA, DT, CT

RULE = ("tie: n in 2..6 x neig 1..n x {M absent, M} x {lowest, uppest} x {float64, complex128} x {random, degenerate} spectra x "
        "random cotangents; distinct = (path, A, M, neig, mode, cotangents); non-trivial = neig < n or M present. Oracle: methods "
        "{exacteig, custom_exacteig, davidson} x operator kinds x batches x spectra, first and second order; svd shapes")
TRUSTED = ["harness tools/props/c06.py (spy on the solve call of symeig_torchfcn.backward)",
           "autograd's pull-back through A.mm / M.mm and through cholesky / inverse / matmul of the dense path",
           "solve (C01, C02) as the oracle of the shifted systems", "finite differences (degenerate references, 1e-6)"]
ASSUMPTIONS = ["theorems are proved for real symmetric pencils: the implicit path for a non-degenerate kept column, the dense path for "
               "distinct AND for coinciding eigenvalues (masked degeneracy map, gauge-invariant cotangent), the implicit path also for "
               "coinciding kept eigenvalues given a solution of the shifted systems, and in the complex Hermitian case for one non-degenerate "
               "column, for coinciding kept eigenvalues, and on the dense path; the numerical behaviour of the singular shifted solve (F30, F39) and second order beyond re-applying the derivation are "
               "covered by the correspondence and the oracle only",
               "davidson forward pairs are accurate to min_eps: gradient comparisons for davidson use min_eps=1e-10 and 1e-6 tolerance"]
HEADER = ("From Coq Require Import List PrimFloat.\nImport ListNotations.\n"
          "From XV Require Import Base.Ops Base.Cplx Base.LinAlg Model.Symeig Model.SymeigRun Model.SymeigBwd Model.SymeigBwdRun.\n")
TOL = "0x1p-26"
EPS = torch.finfo(torch.float64).eps


def symmod():
    import xitorch.linalg  # noqa
    return sys.modules["xitorch.linalg.symeig"]


@contextlib.contextmanager
def spy_solve():
    mod = symmod()
    orig = mod.solve
    rec = []

    def w(A, B, E=None, M=None, **kw):
        out = orig(A, B, E, M, **kw)
        rec.append((B.detach().clone(), None if E is None else E.detach().clone(), out.detach().clone()))
        return out
    mod.solve = w
    try:
        yield rec
    finally:
        mod.solve = orig


def exactly_singular_shift(A, M, evals):
    """finding F30: some shifted matrix A - e_i M has an exactly zero LU pivot (eigenpairs that are exactly representable,
    e.g. a diagonal A): the implicit backward hands it to torch.linalg.solve, which raises"""
    A = A.detach()
    M = torch.eye(A.shape[-1], dtype=A.dtype) if M is None else M.detach()
    for e in evals.detach().reshape(-1).tolist():
        if int(torch.linalg.lu_factor_ex(A - e * M).info.abs().max()) != 0:
            return True
    return False


def herm(t):
    return (t + t.transpose(-2, -1).conj()) / 2


# ---------------------------------------------------------------- ties
def tie_implicit(ctx, cases, meta):
    import xitorch as xt
    from xitorch.linalg import symeig
    rng = ctx.rng
    for rep in range(ctx.n(50, 350)):
        g = gen(rng)
        cplx = rng.random() < 0.3
        dtype = CT if cplx else DT
        n = rng.randrange(2, 7)
        useM = rng.random() < 0.5
        mode = rng.choice(["lowest", "uppest"])
        fam = rng.choice(["random", "random", "degenerate", "mixed-sign-degenerate", "degenerate-at-zero"])
        if fam == "degenerate-at-zero" and n < 4:
            fam = "degenerate"           # n <= 3 would make A the zero matrix (finding F30, probed separately)
        if fam == "random":
            A, M = rsym(g, n, (), dtype), (rspd(g, n, (), dtype) if useM else None)
            neig = rng.randrange(1, n + 1)
        else:
            A, M = planted(g, n, SPECTRA[fam](n), (), dtype, useM)
            neig = rng.randrange(1, n + 1)
        A = A.clone().requires_grad_()
        if useM:
            M = M.clone().requires_grad_()
        info = {"path": "implicit", "n": n, "neig": neig, "M": useM, "mode": mode, "complex": cplx, "family": fam,
                "A": str(A.tolist()), "Mmat": str(M.tolist()) if useM else None}
        try:
            with warnings.catch_warnings():
                warnings.simplefilter("ignore")
                e, X = symeig(xt.LinearOperator.m(A, is_hermitian=True), neig, mode,
                              xt.LinearOperator.m(M, is_hermitian=True) if useM else None, method="custom_exacteig")
                ge = torch.randn(e.shape, dtype=DT, generator=g)
                gX = torch.randn(X.shape, dtype=dtype, generator=g)
                with spy_solve() as rec:
                    grads = torch.autograd.grad((e, X), (A, M) if useM else (A,), grad_outputs=(ge, gX), allow_unused=True)
        except Exception as ex:
            ctx.fail("oracle", "symeig-grad:exception", info, repr(ex)[:300], "gradients")
            continue
        if len(rec) != 1:
            ctx.broken("correspondence:implicit-backward", {"case": info, "solve_calls": len(rec)})
            continue
        rhs, E, solved = rec[0]
        atol, rtol = EPS ** 0.6, EPS ** 0.4
        # the degeneracy flag as the implementation computes it (same formula, evaluated on its own values)
        diff = (e.detach().unsqueeze(-2) - e.detach().unsqueeze(-1)).abs()
        thr = atol + rtol * e.detach().abs().unsqueeze(-1)
        impl_deg = bool((diff < thr).sum() > e.numel())
        Mz = M.detach() if useM else torch.zeros(0, 0, dtype=dtype)
        gM = grads[1].detach() if useM else torch.zeros(0, 0, dtype=dtype)
        margin = "degen_margin %s %s %s %s" % ("Cops cmag" if cplx else "Fops PrimFloat.abs", enc_s(atol, cplx), enc_s(rtol, cplx), enc_v(e.detach().to(dtype), cplx))
        term = "if %s then 2 else bwd_code %s %s %s %s %s true %s %s %s %s %s %s %s %s %s %s %s" % (
            margin, inst(cplx), TOL, enc_s(atol, cplx), enc_s(rtol, cplx), enc_s(0.5, cplx), cbool(useM), enc_m(Mz, cplx),
            enc_v(e.detach().to(dtype), cplx), enc_m(X.detach(), cplx), enc_v(ge.to(dtype), cplx), enc_m(gX, cplx),
            cbool(impl_deg), enc_m(rhs, cplx), enc_m(solved, cplx), enc_m(grads[0].detach(), cplx), enc_m(gM, cplx))
        cases.append(term)
        meta.append(info)
        ctx.count(("implicit", rep, n, neig, useM, mode, cplx, fam), nontrivial=neig < n or useM)
        ctx.stat("tie_implicit" + ("_degenerate_map" if impl_deg else ""))
        if len(ctx.coverage["samples"]) < 3:
            ctx.sample({k: info[k] for k in ("path", "n", "neig", "M", "mode", "complex", "family")})


def tie_dense(ctx, cases, meta):
    rng = ctx.rng
    mod = sys.modules["xitorch._impls.linalg.symeig"]
    for rep in range(ctx.n(30, 200)):
        g = gen(rng)
        cplx = rng.random() < 0.3
        dtype = CT if cplx else DT
        n = rng.randrange(1, 7)
        fam = rng.choice(["random", "random", "degenerate", "degenerate-at-zero"])
        A = rsym(g, n, (), dtype) if fam == "random" else planted(g, n, SPECTRA[fam](n), (), dtype, False)[0]
        A = A.clone().requires_grad_()
        info = {"path": "dense", "n": n, "complex": cplx, "family": fam, "A": str(A.tolist())}
        e, Y = mod.degen_symeig.apply(A)
        ge = torch.randn(e.shape, dtype=DT, generator=g)
        gY = torch.randn(Y.shape, dtype=dtype, generator=g)
        with warnings.catch_warnings():
            warnings.simplefilter("ignore")
            gA, = torch.autograd.grad((e, Y), (A,), grad_outputs=(ge, gY))
        gaps = (e.detach().unsqueeze(-2) - e.detach().unsqueeze(-1)).abs()
        thr = EPS ** 0.6
        if ((gaps > thr / 4) & (gaps < thr * 4)).any():
            ctx.stat("dense_skipped_gap_at_threshold")
            continue
        cases.append("degen_code %s %s %s %s %s %s %s %s %s" % (
            inst(cplx), TOL, enc_s(thr, cplx), enc_s(0.5, cplx), enc_v(e.detach().to(dtype), cplx), enc_m(Y.detach(), cplx),
            enc_v(ge.to(dtype), cplx), enc_m(gY, cplx), enc_m(gA.detach(), cplx)))
        meta.append(info)
        ctx.count(("dense", rep, n, cplx, fam), nontrivial=n >= 2)
        ctx.stat("tie_dense")


def check(ctx):
    import xitorch.linalg  # noqa
    cases, meta = [], []
    tie_implicit(ctx, cases, meta)
    tie_dense(ctx, cases, meta)
    res, errors = coq_nat_cases("c06", HEADER, cases, chunk=16)
    for e_ in errors:
        ctx.broken("correspondence:symeig-backward", e_)
    nbad = 0
    for i, r in enumerate(res):
        if r is None:
            continue
        if r == 1:
            ctx.coverage["traces_validated_against_impl"] += 1
        elif r == 2:
            ctx.stat("implicit_skipped_gap_at_threshold")
        else:
            nbad += 1
            if nbad <= 3:
                ctx.broken("correspondence:%s-backward" % meta[i]["path"],
                           {"case": meta[i], "code": r, "bits": "1 degeneracy flag, 2 rhs of solve, 4 grad A, 8 grad M"})
    oracle(ctx)


# ---------------------------------------------------------------- oracle
def mf_param_class():
    import xitorch as xt

    class MFP(xt.LinearOperator):
        """matrix-free Hermitian operator whose matrix is derived from a parameter tensor"""
        def __init__(self, a):
            super().__init__(shape=a.shape, is_hermitian=True, dtype=a.dtype, device=a.device)
            self.a = a

        def _mv(self, x):
            return (self.a @ x.unsqueeze(-1)).squeeze(-1)

        def _getparamnames(self, prefix=""):
            return [prefix + "a"]
    return MFP


def dense_pairs(A, M, neig, lowest):
    """differentiable dense reference (non-degenerate): reduced eigh"""
    if M is not None:
        L = torch.linalg.cholesky(M)
        Li = torch.linalg.inv(L)
        A2 = Li @ A @ Li.transpose(-2, -1).conj()
    else:
        A2 = A
    e, Y = torch.linalg.eigh(A2)
    n = A.shape[-1]
    sl = slice(0, neig) if lowest else slice(n - neig, n)
    e, Y = e[..., sl], Y[..., sl]
    X = Li.transpose(-2, -1).conj() @ Y if M is not None else Y
    return e, X


def invariant_loss(e, X, M, ce, C):
    """gauge-invariant: weights on values are constant inside a degenerate cluster (ce is built that way);
    tr(C P) with P = X X^H (M)"""
    P = X @ X.transpose(-2, -1).conj()
    if M is not None:
        P = P @ M
    return (ce * e).sum() + (C * P).sum().real


def cluster_weights(evals_planted, neig, lowest, g):
    """random weights, equal inside clusters of the planted spectrum"""
    n = evals_planted.numel()
    srt = torch.sort(evals_planted)[0]
    kept = srt[:neig] if lowest else srt[n - neig:]
    w = torch.zeros(neig, dtype=DT)
    vals = {}
    for i, v in enumerate(kept.tolist()):
        key = round(v, 6)
        if key not in vals:
            vals[key] = torch.randn((), dtype=DT, generator=g).item()
        w[i] = vals[key]
    return w


def closed_under_degeneracy(evals_planted, neig, lowest):
    n = evals_planted.numel()
    srt = torch.sort(evals_planted)[0].tolist()
    if neig == n:
        return True
    if lowest:
        return abs(srt[neig] - srt[neig - 1]) > 1e-3
    return abs(srt[n - neig] - srt[n - neig - 1]) > 1e-3


def forward_defect(build, nth, symeig, xt, MFP, kind, neig, lowest, useM):
    """max(|A X - M X E|, |X^H M X - I|) of the davidson forward (min_eps 1e-10) of the unperturbed pencil"""
    with torch.no_grad():
        A, M = build(torch.zeros(nth, dtype=DT))
        mk = (lambda t: xt.LinearOperator.m(t, is_hermitian=True)) if kind == "dense" else MFP
        e, X = symeig(mk(A), neig, "lowest" if lowest else "uppest", mk(M) if useM else None, method="davidson", min_eps=1e-10)
        MX = X if M is None else M @ X
        res = (A @ X - MX * e.unsqueeze(-2)).abs().max().item()
        orth = (X.transpose(-2, -1).conj() @ MX - torch.eye(neig, dtype=X.dtype)).abs().max().item()
    return max(res, orth)


def oracle(ctx):
    import xitorch as xt
    from xitorch.linalg import symeig, svd
    MFP = mf_param_class()
    rng = ctx.rng
    for rep in range(ctx.n(50, 400)):
        g = gen(rng)
        method = rng.choice(["exacteig", "custom_exacteig", "davidson"])
        cplx = method != "davidson" and rng.random() < 0.3
        dtype = CT if cplx else DT
        n = rng.randrange(2, 7)
        useM = rng.random() < 0.5
        kind = rng.choice(["dense", "mf"])
        lowest = rng.random() < 0.5
        fam = rng.choice(["random", "random", "degenerate", "mixed-sign-degenerate", "degenerate-at-zero"])
        if fam == "degenerate-at-zero" and n < 4:
            fam = "degenerate"
        batch = rng.choice([(), (), (2,)]) if fam == "random" else ()
        if fam == "random":
            A0, M0 = rsym(g, n, batch, dtype), (rspd(g, n, batch, dtype) if useM else None)
            neig = rng.randrange(1, n + 1)
            spec = None
        else:
            spec = SPECTRA[fam](n)
            A0, M0 = planted(g, n, spec, (), dtype, useM)
            ok = [k for k in range(1, n + 1) if closed_under_degeneracy(spec, k, lowest)]
            neig = rng.choice(ok)
        # parametrisation: A(theta) = A0 + sum theta_k A_k (Hermitian directions), M likewise
        nth = 3
        Ad = herm(torch.randn(nth, *batch, n, n, dtype=dtype, generator=g))
        Md = herm(torch.randn(nth, *batch, n, n, dtype=dtype, generator=g)) * 0.1 if useM else None
        theta = torch.zeros(nth, dtype=DT, requires_grad=True)
        ce = cluster_weights(spec, neig, lowest, g) if spec is not None else torch.randn(neig, dtype=DT, generator=g)
        C = herm(torch.randn(n, n, dtype=dtype, generator=g))
        # documented degeneracy thresholds of the implicit backward: one of the two may be zero - the other one still detects exact
        # degeneracies (round-4 seed C06/10: `or` of the two tests became `and`); a zero absolute threshold cannot see a
        # degeneracy AT zero, so that family keeps the defaults
        bck_thr = rng.choice([None, None, {"degen_atol": 0.0}, {"degen_rtol": 0.0}, {"degen_atol": 1e-9, "degen_rtol": 1e-7}])
        if fam == "degenerate-at-zero" and bck_thr and bck_thr.get("degen_atol") == 0.0:
            bck_thr = None
        info = {"fn": "symeig", "method": method, "n": n, "neig": neig, "M": useM, "kind": kind, "mode": "lowest" if lowest else "uppest",
                "complex": cplx, "family": fam, "batch": list(batch), "generator_seed": g.initial_seed(), "bck_options": bck_thr}
        ctx.count(("symeig-grad", rep, method, n, neig, useM, kind, lowest, cplx, fam), nontrivial=neig < n or useM)

        def build(th):
            shp = (nth,) + (1,) * (len(batch) + 2)
            A = A0 + (th.to(dtype).reshape(shp) * Ad).sum(0)
            M = M0 + (th.to(dtype).reshape(shp) * Md).sum(0) if useM else None
            return A, M

        def impl_loss(th):
            A, M = build(th)
            mk = (lambda t: xt.LinearOperator.m(t, is_hermitian=True)) if kind == "dense" else MFP
            opts = {"min_eps": 1e-10} if method == "davidson" else {}
            if bck_thr:
                opts["bck_options"] = dict(bck_thr)
            e, X = symeig(mk(A), neig, "lowest" if lowest else "uppest", mk(M) if useM else None, method=method, **opts)
            return invariant_loss(e, X, M, ce, C)

        def ref_loss(th):
            A, M = build(th)
            e, X = dense_pairs(A, M, neig, lowest)
            return invariant_loss(e, X, M, ce, C)

        try:
            with warnings.catch_warnings():
                warnings.simplefilter("ignore")
                L = impl_loss(theta)
                g1, = torch.autograd.grad(L, theta, create_graph=True)
        except Exception as ex:
            msg = repr(ex)
            if method == "davidson" and "positive-definite" in msg:
                ctx.stat("davidson_forward_F27")          # finding F27 of C05 (forward), not a gradient matter
                continue
            if method != "exacteig" and "singular" in msg:
                with torch.no_grad():
                    A_, M_ = build(torch.zeros(nth, dtype=DT))
                    e_, _ = dense_pairs(A_, M_, neig, lowest)
                if exactly_singular_shift(A_, M_, e_):
                    ctx.fail("oracle", "symeig-grad:implicit:exactly-singular-shifted-system", info, msg[:300], "first-order gradient")
                    continue
            ctx.fail("oracle", "symeig-grad:%s:exception" % method, info, msg[:300], "first-order gradient")
            continue
        tol = 2e-6 if method == "davidson" else 1e-7
        if spec is None:
            th2 = torch.zeros(nth, dtype=DT, requires_grad=True)
            Lr = ref_loss(th2)
            r1, = torch.autograd.grad(Lr, th2, create_graph=True)
            ref1 = r1.detach()
            refkind = "torch.linalg.eigh autograd"
        else:
            h = 1e-5
            ref1 = torch.zeros(nth, dtype=DT)
            with torch.no_grad():
                for k in range(nth):
                    dv = torch.zeros(nth, dtype=DT)
                    dv[k] = h
                    ref1[k] = (ref_loss(dv) - ref_loss(-dv)) / (2 * h)
            tol = max(tol, 2e-6)
            refkind = "central finite differences of the dense reference"
        scale = 1 + ref1.abs().max().item()
        if not torch.isfinite(g1).all() or (g1.detach() - ref1).abs().max().item() > tol * scale:
            key = "symeig-grad:first-order:%s%s%s" % (method, ":M" if useM else "", ":degenerate" if spec is not None else "")
            obs = {"impl": g1.detach().tolist(), "reference": ref1.tolist(), "reference_kind": refkind}
            if method == "davidson" and torch.isfinite(g1).all():
                # finding F39: the un-deflated shifted solve of the implicit backward amplifies the inexactness of an iterative
                # forward.  Recognised by (a) a forward defect above rounding, (b) the SAME backward with an exact forward
                # (custom_exacteig) agreeing with the reference on this input; anything else keeps the generic key.
                try:
                    with warnings.catch_warnings():
                        warnings.simplefilter("ignore")
                        defect = forward_defect(build, nth, symeig, xt, MFP, kind, neig, lowest, useM)
                        method_saved, method = method, "custom_exacteig"
                        try:
                            th3 = torch.zeros(nth, dtype=DT, requires_grad=True)
                            g3, = torch.autograd.grad(impl_loss(th3), th3)
                        finally:
                            method = method_saved
                    exact_ok = bool(torch.isfinite(g3).all()) and (g3 - ref1).abs().max().item() <= 1e-7 * scale
                except Exception:
                    defect, exact_ok = 0.0, False
                obs["forward_defect_of_davidson"] = defect
                obs["same_backward_with_exact_forward_agrees"] = exact_ok
                if defect > 1e-12 and exact_ok:
                    key = "symeig-grad:davidson:inexact-forward-amplified"
            ctx.fail("oracle", key, info, obs, "agree to %g" % tol)
            continue
        # second order (non-degenerate: against the reference's autograd; degenerate: finite and symmetric)
        try:
            with warnings.catch_warnings():
                warnings.simplefilter("ignore")
                w = torch.randn(nth, dtype=DT, generator=g)
                g2, = torch.autograd.grad((g1 * w).sum(), theta)
        except Exception as ex:
            ctx.fail("oracle", "symeig-grad:second-order:%s:exception" % method, info, repr(ex)[:300], "second-order gradient")
            continue
        if spec is None:
            r2, = torch.autograd.grad((r1 * w).sum(), th2)
            scale2 = 1 + r2.abs().max().item()
            tol2 = 2e-4 if method == "davidson" else 1e-6
            if not torch.isfinite(g2).all() or (g2 - r2).abs().max().item() > tol2 * scale2:
                ctx.fail("oracle", "symeig-grad:second-order:%s%s" % (method, ":M" if useM else ""), info,
                         {"impl": g2.tolist(), "reference": r2.tolist()}, "agree to %g" % tol2)
        elif not torch.isfinite(g2).all():
            ctx.fail("oracle", "symeig-grad:second-order:%s:degenerate:nonfinite" % method, info, g2.tolist(), "finite")
    # ---- a close but distinct pair at a small scale: the degeneracy threshold is atol + rtol |e| with atol = eps^0.6 << rtol =
    #      eps^0.4 (seeded defect C06/4: the two exponents swapped - invisible when |e| ~ 1) ----
    for rep in range(ctx.n(4, 16)):
        g = gen(rng)
        n = rng.randrange(3, 6)
        spec = torch.tensor([1e-3, 1e-3 + 2e-7, 2e-3, 3.5e-3, 5e-3][:n], dtype=DT)
        method = ["custom_exacteig", "exacteig", "davidson"][rep % 3]
        A0, _ = planted(g, n, spec, (), DT, False)
        Ad = herm(torch.randn(2, n, n, dtype=DT, generator=g)) * 1e-3
        ce = torch.randn(2, dtype=DT, generator=g)
        Cm = herm(torch.randn(n, n, dtype=DT, generator=g))
        outs = []
        for which in ("impl", "ref"):
            th = torch.zeros(2, dtype=DT, requires_grad=True)
            Am = A0 + (th.reshape(2, 1, 1) * Ad).sum(0)
            with warnings.catch_warnings():
                warnings.simplefilter("ignore")
                if which == "impl":
                    e_, X_ = symeig(xt.LinearOperator.m(Am, is_hermitian=True), 2, "lowest", method=method,
                                    **({"min_eps": 1e-12} if method == "davidson" else {}))
                else:
                    e_, X_ = dense_pairs(Am, None, 2, True)
                # a loss that tells the two vectors of the pair apart (they are NOT degenerate)
                L_ = (ce * e_).sum() * 1e3 + (Cm * (X_[:, :1] @ X_[:, :1].T)).sum()
                outs.append(torch.autograd.grad(L_, th)[0])
        ctx.count(("close-pair", rep, n, method), nontrivial=True)
        sc = 1 + float(outs[1].abs().max())
        if not torch.isfinite(outs[0]).all() or float((outs[0] - outs[1]).abs().max()) > 1e-4 * sc:
            ctx.fail("oracle", "symeig-grad:close-pair-at-small-scale:%s" % method,
                     {"spectrum": spec.tolist(), "method": method, "n": n, "generator_seed": g.initial_seed()},
                     {"impl": outs[0].tolist(), "reference": outs[1].tolist()}, "agree to 1e-4 (the pair is separated by 200 thresholds)")
    # ---- the caller's degeneracy thresholds are the ones used (documented backward options degen_atol / degen_rtol): a pair
    #      at |e| ~ 1000 separated by 3e-4 is degenerate for the default relative threshold (eps^0.4 |e| = 5.5e-4) and resolved
    #      for degen_rtol = 1e-10 or for both thresholds zero (round-3 seed C06/9: degen_rtol read from the key of degen_atol) ----
    for rep in range(ctx.n(2, 6)):
        g = gen(rng)
        n = 5
        spec = torch.tensor([1000.0, 1000.0003, 1003.0, 1005.0, 1007.0], dtype=DT)
        A0, _ = planted(g, n, spec, (), DT, False)
        Ad = herm(torch.randn(2, n, n, dtype=DT, generator=g))
        ce = torch.randn(3, dtype=DT, generator=g)
        Cm = herm(torch.randn(n, n, dtype=DT, generator=g))
        for bck in ({"degen_rtol": 1e-10}, {"degen_rtol": 0.0, "degen_atol": 0.0}, {"degen_rtol": 1e-10, "degen_atol": 1e-12}):
            outs = []
            for which in ("impl", "ref"):
                th = torch.zeros(2, dtype=DT, requires_grad=True)
                Am = A0 + (th.reshape(2, 1, 1) * Ad).sum(0)
                with warnings.catch_warnings():
                    warnings.simplefilter("ignore")
                    if which == "impl":
                        e_, X_ = symeig(xt.LinearOperator.m(Am, is_hermitian=True), 3, "lowest", method="custom_exacteig", bck_options=dict(bck))
                    else:
                        e_, X_ = dense_pairs(Am, None, 3, True)
                    L_ = (ce * e_).sum() + 1e-3 * (Cm * (X_[:, :1] @ X_[:, :1].T)).sum()
                    outs.append(torch.autograd.grad(L_, th)[0])
            ctx.count(("user-degeneracy-thresholds", rep, tuple(sorted(bck.items()))), nontrivial=True)
            sc = 1 + float(outs[1].abs().max())
            if not torch.isfinite(outs[0]).all() or float((outs[0] - outs[1]).abs().max()) > 1e-4 * sc:
                ctx.fail("oracle", "symeig-grad:user-degeneracy-thresholds", {"spectrum": spec.tolist(), "bck_options": bck, "generator_seed": g.initial_seed()},
                         {"impl": outs[0].tolist(), "reference": outs[1].tolist()}, "agree to 1e-4 (the pair is resolved with the caller's thresholds)")
    # ---- a well-separated spectrum with a wide dynamic range: the relative threshold is relative to EACH eigenvalue (round-4 seed
    #      C06/11: relative to the largest one, which flagged the small well-separated eigenvalues as degenerate) ----
    for rep in range(ctx.n(2, 8)):
        g = gen(rng)
        spec = torch.tensor([1e-3, 2e-3, 1.0, 5e3], dtype=DT)
        A0, _ = planted(g, 4, spec, (), DT, False)
        Ad = herm(torch.randn(2, 4, 4, dtype=DT, generator=g)) * 1e-4
        Cm = herm(torch.randn(4, 4, dtype=DT, generator=g))
        for method, neig_ in (("custom_exacteig", 4), ("custom_exacteig", 2), ("exacteig", 4)):
            outs = []
            for which in ("impl", "ref"):
                th = torch.zeros(2, dtype=DT, requires_grad=True)
                Am = A0 + (th.reshape(2, 1, 1) * Ad).sum(0)
                with warnings.catch_warnings():
                    warnings.simplefilter("ignore")
                    if which == "impl":
                        e_, X_ = symeig(xt.LinearOperator.m(Am, is_hermitian=True), neig_, "lowest", method=method)
                    else:
                        e_, X_ = dense_pairs(Am, None, neig_, True)
                    L_ = e_[:2].sum() * 1e3 + (Cm * (X_[:, :1] @ X_[:, :1].T)).sum() + 0.5 * (Cm * (X_[:, 1:2] @ X_[:, 1:2].T)).sum()
                    outs.append(torch.autograd.grad(L_, th)[0])
            ctx.count(("wide-range-spectrum", rep, method, neig_), nontrivial=True)
            sc = 1 + float(outs[1].abs().max())
            if not torch.isfinite(outs[0]).all() or float((outs[0] - outs[1]).abs().max()) > 1e-5 * sc:
                ctx.fail("oracle", "symeig-grad:wide-range-spectrum:%s" % method, {"spectrum": spec.tolist(), "neig": neig_, "generator_seed": g.initial_seed()},
                         {"impl": outs[0].tolist(), "reference": outs[1].tolist()}, "agree to 1e-5 (all eigenvalues are well separated relative to their own size)")
    # ---- sums of several matrix-free operators of one class: each operand's tensor gets its gradient (round-4 seed C06/12) ----
    class PS(xt.LinearOperator):
        def __init__(self, w):
            super().__init__(shape=w.shape, is_hermitian=True, dtype=w.dtype, device=w.device)
            self.w = w

        def _mv(self, x):
            return torch.matmul(0.5 * (self.w + self.w.transpose(-2, -1)), x.unsqueeze(-1)).squeeze(-1)

        def _getparamnames(self, prefix=""):
            return [prefix + "w"]
    for method in ("custom_exacteig", "davidson"):
        g = gen(rng)
        ws = [torch.randn(5, 5, dtype=DT, generator=g).requires_grad_() for _ in range(3)]
        cw = torch.randn(2, dtype=DT, generator=g)
        try:
            with warnings.catch_warnings():
                warnings.simplefilter("ignore")
                e_, X_ = symeig((PS(ws[0]) + PS(ws[1])) + PS(ws[2]), 2, "lowest", method=method, **({"min_eps": 1e-10} if method == "davidson" else {}))
                got = torch.autograd.grad((cw * e_).sum() + (X_[:, :1] @ X_[:, :1].T)[0, 1], ws, allow_unused=True)
        except Exception as ex:
            ctx.fail("oracle", "symeig-grad:nested-operands-of-one-class:exception", {"method": method}, repr(ex)[:200], "gradients")
            continue
        wr = [w.detach().clone().requires_grad_() for w in ws]
        S_ = sum(0.5 * (w + w.T) for w in wr)
        er, Xr = torch.linalg.eigh(S_)
        ref = torch.autograd.grad((cw * er[:2]).sum() + (Xr[:, :1] @ Xr[:, :1].T)[0, 1], wr)
        ctx.count(("nested-sum-names", method), nontrivial=True)
        for i, (a_, r_) in enumerate(zip(got, ref)):
            if a_ is None or not torch.allclose(a_, r_, rtol=1e-5, atol=1e-6):
                ctx.fail("oracle", "symeig-grad:nested-operands-of-one-class:p%d" % (i + 1), {"expression": "(p1 + p2) + p3", "method": method},
                         None if a_ is None else float((a_ - r_).abs().max()), "the gradient w.r.t. every operand's tensor")
                break
    # ---- exactly diagonal operators, partial spectrum: the shifted systems are exactly singular and the exact solver retries
    #      with a small diagonal shift (seeded defect C06/5: the retry lost the eigenvalue shift) ----
    for kind in ("dense", "mf"):
        for useM_ in (False, True):
            outs = []
            for which in ("impl", "ref"):
                Adg = torch.diag(torch.tensor([1.0, 2.0, 3.0, 5.0], dtype=DT)).requires_grad_()
                Mdg = torch.diag(torch.tensor([1.0, 2.0, 1.0, 0.5], dtype=DT)).requires_grad_() if useM_ else None
                mk = (lambda t: xt.LinearOperator.m(t, is_hermitian=True)) if kind == "dense" else MFP
                Cd = herm(torch.randn(4, 4, dtype=DT, generator=torch.Generator().manual_seed(1)))
                with warnings.catch_warnings():
                    warnings.simplefilter("ignore")
                    if which == "impl":
                        e_, X_ = symeig(mk(Adg), 2, "lowest", mk(Mdg) if useM_ else None, method="custom_exacteig")
                    else:
                        e_, X_ = dense_pairs(Adg, Mdg, 2, True)
                    P_ = X_ @ X_.T
                    P_ = P_ @ Mdg if useM_ else P_
                    L_ = (e_ * torch.tensor([0.3, -0.7], dtype=DT)).sum() + (Cd * P_).sum()
                    gr = torch.autograd.grad(L_, (Adg, Mdg) if useM_ else (Adg,))
                outs.append([herm(t) for t in gr])
            ctx.count(("diagonal-partial", kind, useM_), nontrivial=True)
            if any(not float((a_ - b_).abs().max()) <= 1e-8 for a_, b_ in zip(*outs)):
                ctx.fail("oracle", "symeig-grad:exactly-diagonal-partial-spectrum", {"A": "diag(1,2,3,5)", "M": useM_, "operator": kind, "neig": 2},
                         [float((a_ - b_).abs().max()) for a_, b_ in zip(*outs)], "agrees with the dense reference")
    # ---- the backward pass uses the parameters SAVED by the forward pass, whatever happened to the operator object since
    #      (seeded defect C06/6: the solve of the backward ran with the object's current parameters) ----
    g = gen(rng)
    A1 = rsym(g, 5, (), DT).requires_grad_()
    A2 = rsym(g, 5, (), DT)
    Cr = herm(torch.randn(5, 5, dtype=DT, generator=g))
    outs = []
    for reuse in (False, True):
        op = MFP(A1)
        with warnings.catch_warnings():
            warnings.simplefilter("ignore")
            e_, X_ = symeig(op, 2, "lowest", method="custom_exacteig")
            L_ = e_.sum() + (Cr * (X_ @ X_.T)).sum()
            if reuse:
                op.a = A2                                  # the caller re-uses the operator object for another matrix
            outs.append(herm(torch.autograd.grad(L_, A1)[0]))
    ctx.count(("operator-reused-before-backward",), nontrivial=True)
    if not float((outs[0] - outs[1]).abs().max()) <= 1e-9:
        ctx.fail("oracle", "symeig-grad:operator-reused-before-backward", {"method": "custom_exacteig", "n": 5, "neig": 2},
                 float((outs[0] - outs[1]).abs().max()), "the gradient is that of the matrix the forward pass saw")
    # ---- finding F30: exactly representable eigenpairs (a diagonal, non-degenerate matrix) ----
    Ad_ = torch.diag(torch.tensor([1.0, 2.0, 3.0], dtype=DT)).requires_grad_()
    ctx.count(("F30-probe",))
    try:
        with warnings.catch_warnings():
            warnings.simplefilter("ignore")
            e_, X_ = symeig(xt.LinearOperator.m(Ad_, is_hermitian=True), 3, method="custom_exacteig")
            torch.autograd.grad(e_.sum() + (X_ @ X_.T).sum(), Ad_)
    except Exception as ex:
        if "singular" in repr(ex) and exactly_singular_shift(Ad_, None, e_):
            ctx.fail("oracle", "symeig-grad:implicit:exactly-singular-shifted-system", {"A": "diag(1, 2, 3)", "neig": 3, "method": "custom_exacteig"},
                     repr(ex)[:200], "first-order gradient")
        else:
            ctx.fail("oracle", "symeig-grad:custom_exacteig:exception", {"A": "diag(1, 2, 3)"}, repr(ex)[:200], "first-order gradient")
    # ---- finding F39: an iterative forward at its DEFAULT tolerance (davidson, min_eps 1e-6): the gradient of a gauge-invariant
    #      function of the vectors should inherit an error of the order of the forward residual over the gap to the rest of the
    #      spectrum (here 1); the un-deflated shifted solve divides the projection error by e_computed - e_true instead ----
    for deg in (False, True):
        gF = torch.Generator()
        gF.manual_seed(6002)
        nF = 60
        QF, _ = torch.linalg.qr(torch.randn(nF, nF, dtype=DT, generator=gF))
        specF = torch.cat([torch.tensor([1.0, 1.0 if deg else 1.3], dtype=DT), 2 + 0.5 * torch.arange(nF - 2, dtype=DT)])
        AF = herm(QF @ torch.diag(specF) @ QF.T)
        AdF = herm(torch.randn(nF, nF, dtype=DT, generator=gF))
        CF = herm(torch.randn(nF, nF, dtype=DT, generator=gF))
        ctx.count(("F39-probe", deg), nontrivial=True)
        outs = {}
        try:
            for method in ("exacteig", "custom_exacteig", "davidson"):
                th = torch.zeros((), dtype=DT, requires_grad=True)
                Am = AF + th * AdF
                with warnings.catch_warnings():
                    warnings.simplefilter("ignore")
                    e_, X_ = symeig(xt.LinearOperator.m(Am, is_hermitian=True), 2, "lowest", method=method)
                    gv, = torch.autograd.grad(0.7 * e_.sum() + (CF * (X_ @ X_.T)).sum(), th)
                with torch.no_grad():
                    resid = float((AF @ X_ - X_ * e_).abs().max())
                outs[method] = (gv.item(), resid)
        except Exception as ex:
            msg = repr(ex)
            if "positive-definite" in msg:
                ctx.stat("davidson_forward_F27")
            else:
                ctx.fail("oracle", "symeig-grad:default-tolerance-probe:exception", {"n": nF, "degenerate_pair": deg}, msg[:300], "a gradient")
            continue
        ref = outs["exacteig"][0]
        infoF = {"n": nF, "neig": 2, "spectrum": "1, %s, 2, 2.5, 3, ..." % ("1" if deg else "1.3"), "generator_seed": 6002,
                 "loss": "0.7 sum(e) + tr(C X X^T)", "options": "defaults"}
        if abs(outs["custom_exacteig"][0] - ref) > 1e-8 * (1 + abs(ref)):
            ctx.fail("oracle", "symeig-grad:default-tolerance-probe:custom_exacteig", infoF, {k: v[0] for k, v in outs.items()},
                     "the implicit backward with an exact forward agrees with exacteig")
        gd, rd = outs["davidson"]
        if abs(gd - ref) > 1e3 * max(rd, 1e-12) * (1 + abs(ref)):
            ctx.fail("oracle", "symeig-grad:davidson:inexact-forward-amplified", infoF,
                     {"davidson": gd, "exacteig": ref, "forward_residual_of_davidson": rd},
                     "gradient error at most 1000 x the forward residual (gap to the rest of the spectrum is 0.7 or 1)")
    # ---- a BATCH in which one matrix has repeated kept eigenvalues and the other has not: every element gets the gradient it gets when
    #      handled alone (round-6 seed C06/16: the switch of the degenerate treatment required every batch element to be degenerate;
    #      the degenerate one then received gradients of order 1e15) ----
    gB = torch.Generator().manual_seed(ctx.seed + 97)
    for method in ("custom_exacteig", "exacteig"):
        n, neig = 4, 3
        A_deg, _ = planted(gB, n, torch.tensor([1.0, 1.0, 2.5, 4.0], dtype=DT), (), DT, False)
        A_non, _ = planted(gB, n, torch.tensor([0.5, 1.5, 2.5, 4.0], dtype=DT), (), DT, False)
        Cb = herm(torch.randn(n, n, dtype=DT, generator=gB))
        Ad = herm(torch.randn(n, n, dtype=DT, generator=gB))

        def gradof(A0s):
            th = torch.zeros((), dtype=DT, requires_grad=True)
            Ab = torch.stack([a + th * Ad for a in A0s]) if len(A0s) > 1 else A0s[0] + th * Ad
            with warnings.catch_warnings():
                warnings.simplefilter("ignore")
                e_, X_ = symeig(xt.LinearOperator.m(Ab, is_hermitian=True), neig, "lowest", method=method)
            P_ = X_ @ X_.transpose(-2, -1)
            per = (e_.sum(-1) + (Cb * P_).sum((-2, -1)))
            per = per.reshape(-1)
            return [float(torch.autograd.grad(per[i], th, retain_graph=True)[0]) for i in range(per.numel())]
        ctx.count(("batch-mixed-degeneracy", method), nontrivial=True)
        try:
            both = gradof([A_deg, A_non])
            alone = gradof([A_deg]) + gradof([A_non])
        except Exception as ex:
            ctx.fail("oracle", "symeig-grad:batch-mixed-degeneracy:exception", {"method": method}, repr(ex)[:300], "gradients")
            continue
        if not all(abs(u - w) <= 1e-7 * (1 + abs(w)) for u, w in zip(both, alone)):
            ctx.fail("oracle", "symeig-grad:batch-mixed-degeneracy:%s" % method, {"batch": "[spectrum 1,1,2.5,4 ; spectrum 0.5,1.5,2.5,4]", "neig": neig},
                     {"batched": both}, {"each_alone": alone})
    # ---- svd ----
    for rep in range(ctx.n(20, 150)):
        g = gen(rng)
        method = rng.choice(["exacteig", "custom_exacteig"])
        cplx = rng.random() < 0.3
        dtype = CT if cplx else DT
        m, n = rng.choice([(4, 3), (3, 4), (3, 3), (5, 2), (2, 5)])
        mn = min(m, n)
        k = rng.randrange(1, mn + 1)
        mode = rng.choice(["uppest", "lowest"])
        # overall scale of the operator: ds/dA = u v^H does not depend on it (seeded C06/7: eigenvalues of A^H A clamped at 1e-12)
        amp = rng.choice([1.0, 1.0, 1e-3, 1e-8])
        A0 = (amp * torch.randn(m, n, dtype=dtype, generator=g)).requires_grad_()
        cs = torch.randn(k, dtype=DT, generator=g)
        if amp != 1.0:
            # the eigenvalues of A^H A are then closer than the documented absolute degeneracy threshold (eps^0.6): only
            # functions that do not depend on the basis inside the (numerically) degenerate subspace are in the property:
            # the full reconstruction and the sum of all singular values
            k = mn
            cs = torch.full((k,), 0.7, dtype=DT)
        C = torch.randn(m, n, dtype=dtype, generator=g)
        info = {"fn": "svd", "method": method, "m": m, "n": n, "k": k, "mode": mode, "complex": cplx, "generator_seed": g.initial_seed(),
                "A": "%g * randn" % amp}
        ctx.count(("svd-grad", rep, method, m, n, k, mode, cplx, amp), nontrivial=True)

        def loss_of(u, s, vh):
            rec = (u * s.unsqueeze(-2).to(dtype)) @ vh
            return (cs * s).sum() + (C.conj() * rec).sum().real
        try:
            u, s, vh = svd(xt.LinearOperator.m(A0), k, mode, method=method)
            g1, = torch.autograd.grad(loss_of(u, s, vh), A0, create_graph=True)
            w = torch.randn(m, n, dtype=dtype, generator=g)
            g2, = torch.autograd.grad((g1 * w.conj()).sum().real, A0)
        except Exception as ex:
            ctx.fail("oracle", "svd-grad:exception", info, repr(ex)[:300], "gradients")
            continue
        A1 = A0.detach().clone().requires_grad_()
        U, S, Vh = torch.linalg.svd(A1, full_matrices=False)
        sl = slice(0, k) if mode == "uppest" else slice(mn - k, mn)
        Uk, Sk, Vk = U[:, sl].flip(-1), S[sl].flip(-1), Vh[sl, :].flip(-2)
        r1, = torch.autograd.grad(loss_of(Uk, Sk, Vk), A1, create_graph=True)
        r2, = torch.autograd.grad((r1 * w.conj()).sum().real, A1)
        for nm, a, b, tol in (("first-order", g1.detach(), r1.detach(), 1e-7), ("second-order", g2, r2, 1e-5)):
            if nm == "second-order" and amp != 1.0:
                break                                      # second derivatives scale like 1/amp: compared at unit scale only
            sc = 1 + b.abs().max().item()
            if not torch.isfinite(a).all() or (a - b).abs().max().item() > tol * sc:
                ctx.fail("oracle", "svd-grad:%s" % nm, info, {"max_diff": (a - b).abs().max().item(), "scale": sc}, "agree to %g" % tol)
                break

    # ---- svd of matrix-free operators that define the forward product only: A^H comes from LinearOperator's autograd
    #      adjoint, and its result must stay connected to the operator's parameters (seeded C06/8) ----
    class ScaledKernel(xt.LinearOperator):
        def __init__(self, a, K, b):
            super().__init__(shape=K.shape, is_hermitian=False, dtype=K.dtype, device=K.device)
            self.a, self.K, self.b = a, K, b

        def _mv(self, x):
            return self.a * torch.matmul(self.K, (self.b * x).unsqueeze(-1)).squeeze(-1)

        def _getparamnames(self, prefix=""):
            return [prefix + "a", prefix + "K", prefix + "b"]
    for rep in range(ctx.n(6, 40)):
        g = gen(rng)
        # the first repetitions enumerate wide / tall / square x the two dense methods, the rest is random
        combos = [((3, 5), "exacteig"), ((5, 3), "custom_exacteig"), ((4, 4), "exacteig"), ((2, 6), "custom_exacteig"), ((5, 3), "exacteig"),
                  ((3, 5), "custom_exacteig")]
        (m, n), method = combos[rep] if rep < len(combos) else (rng.choice([(5, 3), (3, 5), (4, 4), (2, 6), (6, 2)]), rng.choice(["exacteig", "custom_exacteig"]))
        mn = min(m, n)
        k = rng.choice([mn, max(1, mn - 1)])
        mode = rng.choice(["uppest", "lowest"])
        K = torch.randn(m, n, dtype=DT, generator=g)
        a0 = torch.rand(m, dtype=DT, generator=g) + 0.5
        b0 = torch.rand(n, dtype=DT, generator=g) + 0.5
        W = torch.randn(m, n, dtype=DT, generator=g)
        cs = torch.randn(k, dtype=DT, generator=g)
        info = {"fn": "svd", "operator": "matrix-free diag(a) K diag(b), _mv only", "method": method, "m": m, "n": n, "k": k, "mode": mode,
                "generator_seed": g.initial_seed()}
        ctx.count(("svd-grad-mf", rep, method, m, n, k, mode), nontrivial=True)

        def loss_mf(u, s, vh):
            return (cs * s).sum() + (W * ((u * s.unsqueeze(-2)) @ vh)).sum()
        a = a0.clone().requires_grad_()
        b = b0.clone().requires_grad_()
        try:
            u, s, vh = svd(ScaledKernel(a, K, b), k, mode, method=method)
            ga, gb = torch.autograd.grad(loss_mf(u, s, vh), (a, b))
        except Exception as ex:
            ctx.fail("oracle", "svd-grad:matrix-free:exception", info, repr(ex)[:300], "gradients")
            continue
        ar = a0.clone().requires_grad_()
        br = b0.clone().requires_grad_()
        U, S, Vh = torch.linalg.svd(ar.unsqueeze(-1) * K * br, full_matrices=False)
        sl = slice(0, k) if mode == "uppest" else slice(mn - k, mn)
        ra, rb = torch.autograd.grad(loss_mf(U[:, sl].flip(-1), S[sl].flip(-1), Vh[sl, :].flip(-2)), (ar, br))
        for nm, x, y in (("a", ga, ra), ("b", gb, rb)):
            sc = 1 + y.abs().max().item()
            if not torch.isfinite(x).all() or not (x - y).abs().max().item() <= 1e-6 * sc:
                ctx.fail("oracle", "svd-grad:matrix-free:first-order:%s" % nm, info, {"max_diff": (x - y).abs().max().item(), "scale": sc}, "agree to 1e-6")
                break


def search(ctx):
    ctx.tier = "thorough"
    oracle(ctx)

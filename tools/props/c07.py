"""C07 — solve_ivp integrates the ODE with the declared scheme and accuracy.

Tie 1 (translator): Gen/Tableaus.v regenerated from /repo; all order conditions re-proved.
Tie 2 (correspondence): the float-instance Gallina models of explicit_rk (bit for bit) and of the
        adaptive controller (decisions + 2^-30 relative tolerance, thin-margin cases skipped) against
        rk4_ivp/rk38_ivp/fwd_euler_ivp/rk23_adaptive/rk45_adaptive and the public solve_ivp on random
        polynomial vector fields: trajectory and the full sequence of (t, y) at which fcn is called.
Oracle (implementation alone): y(ts[0]) = y0, prefix independence, time reversal, tuple = tensor,
        observed convergence order on closed-form problems, adaptive error within tolerance."""
from __future__ import annotations
import math, warnings
from fractions import Fraction
import torch
from vlib import cnat, clist, coq_bool_cases, coq_nat_cases, cfloat

RULE = ("random polynomial vector fields (dim 1-3, depth<=3 expressions over t, y_i, dyadic constants) x "
        "time grids (2-6 points, uniform/ragged, increasing/decreasing) x methods; fixed-step methods compared "
        "bit for bit (trajectory + every fcn call), adaptive ones on decisions and to 2^-30; distinct = "
        "(method, field, grid); non-trivial = at least one step and a field that depends on y")
TRUSTED = ["translator tools/translate_tableaus.py (rational reconstruction checked by float round-trip)",
           "harness tools/props/c07.py (field expression evaluated with the same operation tree in torch)",
           "cited, not formalised: Butcher's theorem (order conditions <=> local error O(h^(p+1)))",
           "PrimFloat primitives (IEEE binary64) as evaluated by vm_compute"]
ASSUMPTIONS = ["adaptive model computes errnorm**(-1/(q+1)) by bisection+Newton (no pow primitive); compared with tolerance",
               "torch.matmul / norm reduction order differs from the model's left-to-right sums only at rounding level"]
HEADER = ("From XV Require Import Base.Ops Model.ExplicitRK Model.AdaptiveRK Model.RKRun Gen.Tableaus.\n"
          "From Coq Require Import QArith List PrimFloat.\nImport ListNotations.\n")
DT = torch.float64


# ---------------- field expressions ----------------
def gen_exp(rng, dim, depth):
    r = rng.random()
    if depth == 0 or r < 0.3:
        k = rng.random()
        if k < 0.55:
            return ("Y", rng.randrange(dim))
        if k < 0.7:
            return ("T",)
        return ("C", Fraction(rng.randrange(-12, 13), 8))
    op = rng.choice(["Add", "Sub", "Mul"])
    return (op, gen_exp(rng, dim, depth - 1), gen_exp(rng, dim, depth - 1))


def exp_coq(e):
    if e[0] == "Y":
        return "(FY %d)" % e[1]
    if e[0] == "T":
        return "FT"
    if e[0] == "C":
        return "(FC (%d # %d))" % (e[1].numerator, e[1].denominator)
    return "(F%s %s %s)" % (e[0], exp_coq(e[1]), exp_coq(e[2]))


def exp_eval(e, t, y):
    if e[0] == "Y":
        return y[e[1]]
    if e[0] == "T":
        return t
    if e[0] == "C":
        return torch.tensor(float(e[1]), dtype=DT)
    a, b = exp_eval(e[1], t, y), exp_eval(e[2], t, y)
    return a + b if e[0] == "Add" else (a - b if e[0] == "Sub" else a * b)


def depends_on_y(e):
    return e[0] == "Y" or (e[0] in ("Add", "Sub", "Mul") and (depends_on_y(e[1]) or depends_on_y(e[2])))


def exp_str(e):
    if e[0] == "Y":
        return "y%d" % e[1]
    if e[0] == "T":
        return "t"
    if e[0] == "C":
        return str(e[1])
    return "(%s %s %s)" % (exp_str(e[1]), {"Add": "+", "Sub": "-", "Mul": "*"}[e[0]], exp_str(e[2]))


def fvec(xs):
    return clist([cfloat(float(x)) for x in xs])


class TooManyCalls(Exception):
    pass


def guarded(f, limit=20000):
    """a non-terminating adaptive loop (NaN error estimate) must not hang the check"""
    n = [0]

    def g(*a):
        n[0] += 1
        if n[0] > limit:
            raise TooManyCalls("more than %d evaluations of fcn" % limit)
        return f(*a)
    return g


def make_fcn(es, calls):
    def fcn(t, y):
        if len(calls) > 4000:
            raise TooManyCalls("more than 4000 evaluations of fcn")
        calls.append((float(t), [float(v) for v in y.reshape(-1)]))
        yy = y.reshape(-1)
        tt = t if isinstance(t, torch.Tensor) else torch.tensor(t, dtype=DT)
        return torch.stack([exp_eval(e, tt, yy) + 0 * tt for e in es]).reshape(y.shape)
    return fcn


def gen_grid(rng):
    n = rng.randrange(2, 7)
    t0 = rng.randrange(-8, 9) / 8
    kind = rng.choice(["uniform", "ragged"])
    steps = [rng.choice([1, 2, 3, 4, 6]) / 32 for _ in range(n - 1)] if kind == "ragged" else [rng.choice([1, 2, 4]) / 32] * (n - 1)
    ts = [t0]
    sign = -1 if rng.random() < 0.35 else 1
    for s in steps:
        ts.append(ts[-1] + sign * s)
    return ts


FIXED = {"rk4": ("rk4_c", "rk4_b", "rk4_a"), "rk38": ("rk38_c", "rk38_b", "rk38_a"), "euler": ("euler_c", "euler_b", "euler_a")}
ADAPT = {"rk23": "rk23", "rk45": "rk45"}


def check(ctx):
    from xitorch.integrate import solve_ivp
    from xitorch._impls.integrate.ivp import explicit_rk as ex, adaptive_rk as ad
    rng = ctx.rng
    bcases, bmeta, ncases, nmeta = [], [], [], []
    nfix = ctx.n(90, 600)
    nad = ctx.n(60, 400)
    impl_fixed = {"rk4": ex.rk4_ivp, "rk38": ex.rk38_ivp, "euler": ex.fwd_euler_ivp}
    impl_adapt = {"rk23": ad.rk23_adaptive, "rk45": ad.rk45_adaptive}
    for i in range(nfix):
        meth = rng.choice(list(FIXED))
        dim = rng.randrange(1, 4)
        es = [gen_exp(rng, dim, rng.randrange(1, 4)) for _ in range(dim)]
        ts = gen_grid(rng)
        y0 = [rng.randrange(-16, 17) / 8 for _ in range(dim)]
        calls = []
        fcn = make_fcn(es, calls)
        tst, y0t = torch.tensor(ts, dtype=DT), torch.tensor(y0, dtype=DT)
        via_api = rng.random() < 0.5
        try:
            with torch.no_grad():
                yt = solve_ivp(fcn, tst, y0t, method=meth) if via_api else impl_fixed[meth](fcn, tst, y0t, ())
        except TooManyCalls:
            continue
        if not torch.isfinite(yt).all():
            ctx.stat("skipped_nonfinite")
            continue
        c, b, a = FIXED[meth]
        bcases.append("explicit_ok %s %s %s %s %s %s %s %s" % (
            c, b, a, clist([exp_coq(e) for e in es]), fvec(ts), fvec(y0),
            clist([fvec(row) for row in yt.tolist()]),
            clist(["(%s, %s)" % (cfloat(t), fvec(y)) for t, y in calls])))
        info = {"method": meth, "field": [exp_str(e) for e in es], "ts": ts, "y0": y0, "via": "solve_ivp" if via_api else "direct"}
        bmeta.append(info)
        ctx.count((meth, tuple(info["field"]), tuple(ts)), nontrivial=any(depends_on_y(e) for e in es))
        ctx.stat("fixed:" + meth)
        ctx.sample(info, limit=3)
    for i in range(nad):
        meth = rng.choice(list(ADAPT))
        dim = rng.randrange(1, 4)
        es = [gen_exp(rng, dim, rng.randrange(1, 3)) for _ in range(dim)]
        ts = gen_grid(rng)
        y0 = [rng.randrange(-16, 17) / 8 for _ in range(dim)]
        atol, rtol = rng.choice([(1e-8, 1e-5), (1e-6, 1e-4), (1e-10, 1e-8), (1e-4, 1e-3)])
        calls = []
        fcn = make_fcn(es, calls)
        tst, y0t = torch.tensor(ts, dtype=DT), torch.tensor(y0, dtype=DT)
        via_api = rng.random() < 0.5
        try:
            with torch.no_grad():
                yt = solve_ivp(fcn, tst, y0t, method=meth, atol=atol, rtol=rtol) if via_api else \
                    impl_adapt[meth](fcn, tst, y0t, (), atol=atol, rtol=rtol)
        except TooManyCalls:
            ctx.stat("skipped_nonterminating_field")
            continue
        except Exception as e:
            ctx.fail("oracle", "ivp:%s:exception" % meth, {"field": [exp_str(e_) for e_ in es], "ts": ts, "y0": y0}, repr(e), "no exception")
            continue
        if not torch.isfinite(yt).all() or len(calls) > 3000 or max(abs(v) for _, y in calls for v in y) > 1e6:
            ctx.stat("skipped_nonfinite_or_long")
            continue
        neg = ts[1] < ts[0]
        # the solver sees the negated problem for a decreasing grid: the model's calls are in those coordinates
        mcalls = [((-t if neg else t), y) for t, y in calls]
        p = ADAPT[meth]
        ncases.append("adaptive_code %s_A %s_B %s_C %s_E %s_max_factor %s_min_factor %s_step_mult (S %s_error_estimator_order) %s %s %s %s %s %s %s" % (
            p, p, p, p, p, p, p, p, cfloat(atol), cfloat(rtol), clist([exp_coq(e) for e in es]), fvec(ts), fvec(y0),
            clist([fvec(row) for row in yt.tolist()]),
            clist(["(%s, %s)" % (cfloat(t), fvec(y)) for t, y in mcalls])))
        info = {"method": meth, "field": [exp_str(e) for e in es], "ts": ts, "y0": y0, "atol": atol, "rtol": rtol,
                "ncalls": len(calls), "via": "solve_ivp" if via_api else "direct"}
        nmeta.append(info)
        ctx.count((meth, tuple(info["field"]), tuple(ts), atol), nontrivial=any(depends_on_y(e) for e in es))
        ctx.stat("adaptive:" + meth)
        ctx.sample(info, limit=6)
    failed, errors = coq_bool_cases("c07f", HEADER, bcases, chunk=40)
    for e in errors:
        ctx.broken("correspondence:explicit_rk", e)
    for i in failed[:3]:
        ctx.broken("correspondence:explicit_rk", {"case": bmeta[i], "coq": bcases[i][:1500]})
    ctx.coverage["traces_validated_against_impl"] += len(bcases) - len(failed)
    codes, errors = coq_nat_cases("c07a", HEADER, ncases, chunk=12)
    for e in errors:
        ctx.broken("correspondence:adaptive_rk", e)
    for i, cd in enumerate(codes):
        if cd == 1:
            ctx.coverage["traces_validated_against_impl"] += 1
        elif cd == 2:
            ctx.stat("thin_margin_skipped")
        elif cd == 3:
            ctx.stat("model_out_of_fuel")
        elif cd == 0:
            ctx.broken("correspondence:adaptive_rk", {"case": nmeta[i], "coq": ncases[i][:1500]})
            import os
            os.makedirs("/verif/replay", exist_ok=True)
            open("/verif/replay/C07-adaptive-case-%d.txt" % i, "w").write(ncases[i])
    if any(c == 0 for c in codes) or failed:
        pass
    oracle(ctx)


# ---------------- implementation-only oracle ----------------
def oracle(ctx, heavy=False):
    from xitorch.integrate import solve_ivp
    rng = ctx.rng
    a = torch.tensor([0.7, -0.4, 1.1], dtype=DT)
    y0 = torch.tensor([1.0, -0.5, 2.0], dtype=DT)
    fam = {
        "linear": (lambda t, y: -a * y, lambda t, t0: y0 * torch.exp(-a * (t - t0))),
        "forced": (lambda t, y: -y + torch.sin(t) * torch.ones_like(y),
                   lambda t, t0: (y0 - 0.5 * (math.sin(t0) - math.cos(t0))) * math.exp(-(t - t0)) + 0.5 * (math.sin(t) - math.cos(t))),
        "logistic": (lambda t, y: y * (1 - y), "logistic"),
    }
    orders = {"euler": 1, "rk4": 4, "rk38": 4}
    y0_default = y0
    for name, (f, sol) in fam.items():
        f = guarded(f, 200000)
        y0 = y0_default
        if sol == "logistic":
            y0 = torch.tensor([0.2, 0.5, 0.9], dtype=DT)
            sol = (lambda y0: (lambda t, t0: 1 / (1 + (1 / y0 - 1) * math.exp(-(t - t0)))))(y0)
        for direction in (1, -1):
            t0, t1 = 0.3, 0.3 + direction * 1.2
            # --- observed order of the fixed-step methods
            for meth, p in orders.items():
                if sol is None:
                    continue
                errs = []
                for n in (8, 16, 32):
                    ts = torch.linspace(t0, t1, n + 1, dtype=DT)
                    yt = solve_ivp(f, ts, y0, method=meth)
                    errs.append(float((yt[-1] - sol(t1, t0)).abs().max()))
                    ctx.count(("order", name, meth, direction, n))
                    if not torch.equal(yt[0], y0):
                        ctx.fail("oracle", "ivp:%s:y(ts0)!=y0" % meth, {"family": name}, yt[0], y0)
                rate = math.log2(errs[0] / errs[1]) if errs[1] > 0 else 99
                rate2 = math.log2(errs[1] / errs[2]) if errs[2] > 0 else 99
                if min(rate, rate2) < p - 0.4 and errs[2] > 1e-13:
                    ctx.fail("oracle", "ivp:%s:order" % meth, {"family": name, "direction": direction, "errors": errs},
                             "observed order %.2f / %.2f" % (rate, rate2), "order >= %d" % p)
                if p >= 4 and min(rate, rate2) > p + 1.6 and errs[1] > 1e-12:
                    pass
            # --- adaptive accuracy
            for meth in ("rk23", "rk45"):
                for (atol, rtol) in ((1e-8, 1e-6), (1e-10, 1e-8)):
                    if sol is None:
                        continue
                    ts = torch.tensor([t0, t0 + direction * 0.1, t0 + direction * 0.7, t1], dtype=DT)
                    yt = solve_ivp(f, ts, y0, method=meth, atol=atol, rtol=rtol)
                    ref = torch.stack([sol(float(t), t0) for t in ts])
                    err = float((yt - ref).abs().max())
                    ctx.count(("adaptive-acc", name, meth, direction, atol))
                    bound = 300 * (atol + rtol * float(ref.abs().max()))
                    if not err <= bound:
                        ctx.fail("oracle", "ivp:%s:accuracy" % meth, {"family": name, "atol": atol, "rtol": rtol, "direction": direction},
                                 err, "<= %g" % bound)
                    if not torch.equal(yt[0], y0):
                        ctx.fail("oracle", "ivp:%s:y(ts0)!=y0" % meth, {"family": name}, yt[0], y0)
            # --- prefix independence, reversal, tuple state
            for meth in ("euler", "rk4", "rk38", "rk23", "rk45"):
                ts = torch.tensor([t0, t0 + direction * 0.2, t0 + direction * 0.5, t1], dtype=DT)
                full = solve_ivp(f, ts, y0, method=meth)
                part = solve_ivp(f, ts[:3], y0, method=meth)
                ctx.count(("prefix", name, meth, direction))
                tol = 0.0 if meth in orders else 1e-9
                if not (full[:3] - part).abs().max() <= tol:
                    ctx.fail("oracle", "ivp:%s:prefix" % meth, {"family": name, "direction": direction},
                             float((full[:3] - part).abs().max()), "values do not depend on later time points")
                # time reversal (adaptive; for the fixed-step methods the decreasing-grid runs of the
                # order test above compare with the closed form directly)
                if meth not in orders:
                    tight = dict(atol=1e-10, rtol=1e-9)
                    fwd = solve_ivp(f, ts, y0, method=meth, **tight)
                    back = solve_ivp(f, torch.flip(ts, dims=[0]), fwd[-1], method=meth, **tight)
                    if not (back[-1] - y0).abs().max() <= 1e-6:
                        ctx.fail("oracle", "ivp:%s:reversal" % meth, {"family": name, "direction": direction},
                                 float((back[-1] - y0).abs().max()), "decreasing ts gives the time-reversed solution")
                # tuple state == concatenated state
                ft = lambda t, ys: (f(t, ys[0]), f(t, ys[1]))
                y0b = (y0, torch.stack([y0, y0 * 0.5]))
                try:
                    tup = solve_ivp(ft, ts, y0b, method=meth)
                except Exception as e:
                    ctx.fail("oracle", "ivp:%s:tuple:exception" % meth, {"family": name, "state": "tuple of a (3,) and a (2, 3) tensor"}, repr(e)[:200],
                             "the same result as for the concatenated state")
                    continue
                cat = solve_ivp(lambda t, y: torch.cat([f(t, y[:3]), f(t, y[3:6]), f(t, y[6:9])]), ts,
                                torch.cat([y0, y0, y0 * 0.5]), method=meth)
                got = torch.cat([tup[0], tup[1].reshape(len(ts), -1)], dim=-1)
                if not (got - cat).abs().max() <= 1e-12:
                    ctx.fail("oracle", "ivp:%s:tuple" % meth, {"family": name}, float((got - cat).abs().max()),
                             "list-of-tensors state equals concatenated state")
                ctx.count(("tuple", name, meth, direction))
    time_unit_oracle(ctx)
    scale_and_dtype_oracle(ctx)
    round3_oracle(ctx)
    round4_oracle(ctx)
    round5_oracle(ctx)
    round6_oracle(ctx)


def time_unit_oracle(ctx):
    """The controller |h sum_i E_i K_i| <= atol + rtol |y| does not depend on the unit of time: with a rate k = 2^-j the
    stage slopes scale by k and the steps by 1/k exactly, so the trajectory at the rescaled times is the same and the
    global error stays a modest multiple of the tolerance on long intervals too (seeded defect C07/2: the factor h of
    the error norm dropped - short intervals only over-estimate the error, long ones under-estimate it)."""
    from xitorch.integrate import solve_ivp
    Arot = torch.tensor([[0.0, 1.0], [-1.0, 0.0]], dtype=DT)
    y0 = torch.tensor([1.0, 0.0], dtype=DT)
    for meth in ("rk45", "rk23"):
        for rtol, atol in ((1e-6, 1e-9), (1e-4, 1e-7)):
            ref = None
            for j in (0, 7, 10, -6):
                k = 2.0 ** -j
                f = guarded(lambda t, y: k * (Arot @ y), 400000)
                ts = torch.linspace(0, 10.0 / k, 6, dtype=DT)
                yt = solve_ivp(f, ts, y0, method=meth, rtol=rtol, atol=atol)
                th = k * ts
                exact = torch.stack([torch.cos(th), -torch.sin(th)], dim=-1)
                err = float((yt - exact).norm(dim=-1).max())
                ctx.count(("time-unit", meth, rtol, j))
                info = {"family": "rotation with rate 2^-%d on [0, 10*2^%d]" % (j, j), "method": meth, "rtol": rtol, "atol": atol}
                if not err <= 100 * (atol + rtol):
                    ctx.fail("oracle", "ivp:%s:accuracy-long-interval" % meth, info, err, "<= %g" % (100 * (atol + rtol)))
                if ref is None:
                    ref = yt
                elif not float((yt - ref).abs().max()) <= 1e-9:
                    ctx.fail("oracle", "ivp:%s:time-unit-dependence" % meth, info, float((yt - ref).abs().max()),
                             "the same trajectory in every unit of time")


def scale_and_dtype_oracle(ctx):
    """(atol, rtol) settings on states of very different amplitude: the error scale is atol + rtol |y| (seeded defect C07/4: the
    two swapped - invisible when |y| ~ 1); the working dtype is the state's (seeded defect C07/6: taken from the time grid)"""
    from xitorch.integrate import solve_ivp
    Arot = torch.tensor([[0.0, 1.0], [-1.0, 0.0]], dtype=DT)
    ts = torch.linspace(0, 6.0, 5, dtype=DT)
    exact = torch.stack([torch.cos(ts), -torch.sin(ts)], dim=-1)
    for meth in ("rk45", "rk23"):
        for amp, atol, rtol in ((1e-6, 1e-12, 1e-6), (1e3, 1e-3, 1e-6), (1.0, 1e-9, 1e-6)):
            f = guarded(lambda t, y: Arot @ y, 400000)
            yt = solve_ivp(f, ts, amp * torch.tensor([1.0, 0.0], dtype=DT), method=meth, atol=atol, rtol=rtol)
            err = float((yt - amp * exact).norm(dim=-1).max())
            ctx.count(("amplitude", meth, amp))
            if not err <= 300 * (atol + rtol * amp):
                ctx.fail("oracle", "ivp:%s:accuracy-vs-amplitude" % meth, {"family": "rotation", "amplitude": amp, "atol": atol, "rtol": rtol},
                         err, "<= %g" % (300 * (atol + rtol * amp)))
    for meth in ("euler", "rk4", "rk38", "rk23", "rk45"):
        y0 = torch.tensor([1.0, 0.3], dtype=DT)
        yt = solve_ivp(lambda t, y: -y, torch.linspace(0, 1, 4, dtype=torch.float32), y0, method=meth)
        ctx.count(("dtype-grid32", meth))
        if yt.dtype != DT or not torch.equal(yt[0], y0):
            ctx.fail("oracle", "ivp:%s:dtype-follows-grid" % meth, {"state": "float64", "grid": "float32"}, [str(yt.dtype), yt[0].tolist()],
                     "float64 result with y(ts[0]) == y0")
        y0c = torch.tensor([1.0 + 0.5j, 0.3 - 1.0j], dtype=torch.complex128)
        tsc = torch.linspace(0, 1, 9, dtype=DT)
        ytc = solve_ivp(lambda t, y: 1j * y, tsc, y0c, method=meth)
        ctx.count(("dtype-complex", meth))
        refc = y0c * torch.exp(1j * tsc).unsqueeze(-1)
        tolc = {"euler": 0.2, "rk4": 1e-5, "rk38": 1e-5, "rk23": 1e-3, "rk45": 1e-4}[meth]
        if ytc.dtype != torch.complex128 or not torch.equal(ytc[0], y0c) or not float((ytc - refc).abs().max()) <= tolc:
            ctx.fail("oracle", "ivp:%s:complex-state" % meth, {"state": "complex128", "grid": "float64"},
                     [str(ytc.dtype), float((ytc - refc).abs().max()) if ytc.dtype == torch.complex128 else None], "complex128 result within %g" % tolc)


def round3_oracle(ctx):
    """adaptive methods: (a) grids that force REJECTED trial steps after accepted ones (a very short first interval, then long
    ones: the step grows until the controller overshoots) - the retried step must start from the same state and derivative
    (seeded C07/7: the FSAL derivative was a view of the stage buffer and a rejected trial overwrote it);
    (b) the result of a float64 solve does not depend on solves run before it, e.g. in float32 (seeded C07/8: tableau cached on
    the class in the dtype of the last call);  (c) atol = 0 is a purely relative tolerance, not "use the default" (C07/9)"""
    from xitorch.integrate import solve_ivp
    import math
    w = 3.0
    cases = [
        ("separable", lambda t, y: -2 * t * y, torch.tensor([-3.0, -2.99, 0.0, 1.0, 3.0], dtype=DT), torch.tensor([1.0, -2.0], dtype=DT),
         lambda ts, y0: y0 * torch.exp(ts[0] ** 2 - ts ** 2)[:, None]),
        ("oscillator", lambda t, y: torch.stack([y[1], -w * w * y[0]]), torch.tensor([0.0, 0.01, 1.0, 4.0, 10.0], dtype=DT),
         torch.tensor([1.0, 0.0], dtype=DT), lambda ts, y0: torch.stack([torch.cos(w * ts), -w * torch.sin(w * ts)], dim=-1)),
        ("logistic", lambda t, y: y * (1 - y), torch.tensor([0.0, 1e-3, 2.0, 6.0, 12.0], dtype=DT), torch.tensor([0.05, 0.5], dtype=DT),
         lambda ts, y0: 1.0 / (1.0 + (1.0 / y0 - 1.0) * torch.exp(-ts)[:, None])),
    ]
    for meth, atol, rtol in (("rk45", 1e-8, 1e-5), ("rk23", 1e-8, 1e-5), ("rk45", 1e-10, 1e-8)):
        for name, fcn, ts, y0, exact in cases:
            yt = solve_ivp(guarded(fcn, 400000), ts, y0, method=meth, atol=atol, rtol=rtol)
            ex = exact(ts, y0)
            ratio = float((yt - ex).abs().max() / (atol + rtol * ex.abs().max()))
            ctx.count(("rejected-steps", meth, name, atol))
            if not ratio <= 60.0:
                ctx.fail("oracle", "ivp:%s:accuracy-after-rejected-steps" % meth,
                         {"family": name, "ts": ts.tolist(), "atol": atol, "rtol": rtol}, ratio, "error / (atol + rtol max|y|) <= 60")
    # (b) history independence
    Arot = torch.tensor([[0.0, 1.0], [-1.0, 0.0]], dtype=DT)
    ts = torch.linspace(0, 5.0, 6, dtype=DT)
    y0 = torch.tensor([1.0, 0.0], dtype=DT)
    for meth in ("rk45", "rk23", "rk4", "rk38", "euler"):
        kw = dict(atol=1e-12, rtol=1e-10) if meth in ("rk45", "rk23") else {}
        first = solve_ivp(guarded(lambda t, y: Arot @ y, 400000), ts, y0, method=meth, **kw)
        solve_ivp(lambda t, y: -y, torch.linspace(0, 1, 3, dtype=torch.float32), torch.ones(2, dtype=torch.float32), method=meth)
        solve_ivp(lambda t, y: 1j * y, torch.linspace(0, 1, 3, dtype=DT), torch.ones(2, dtype=torch.complex128), method=meth)
        again = solve_ivp(guarded(lambda t, y: Arot @ y, 400000), ts, y0, method=meth, **kw)
        ctx.count(("history", meth))
        if again.dtype != first.dtype or not torch.equal(first, again):
            ctx.fail("oracle", "ivp:%s:history-dependent" % meth, {"sequence": ["float64 solve", "float32 solve", "complex128 solve", "the same float64 solve"]},
                     float((first - again).abs().max()) if again.dtype == first.dtype else str(again.dtype), "bit-identical results")
    # (c) purely relative / purely absolute tolerances
    lam = -1.0
    tsd = torch.linspace(0, 30.0, 4, dtype=DT)
    for meth in ("rk45", "rk23"):
        yt = solve_ivp(guarded(lambda t, y: lam * y, 400000), tsd, torch.tensor([1.0], dtype=DT), method=meth, atol=0.0, rtol=1e-6)
        rel = float(((yt[:, 0] - torch.exp(lam * tsd)).abs() / torch.exp(lam * tsd)).max())
        ctx.count(("zero-atol", meth))
        if not rel <= 1e-3:
            ctx.fail("oracle", "ivp:%s:zero-atol-relative-accuracy" % meth, {"ode": "y' = -y on [0, 30]", "atol": 0.0, "rtol": 1e-6}, rel,
                     "relative error <= 1e-3 at every requested time")
        yt = solve_ivp(guarded(lambda t, y: Arot @ y, 400000), ts, 1e3 * y0, method=meth, atol=1e-6, rtol=0.0)
        err = float((yt - 1e3 * torch.stack([torch.cos(ts), -torch.sin(ts)], dim=-1)).abs().max())
        ctx.count(("zero-rtol", meth))
        if not err <= 1e-3:
            ctx.fail("oracle", "ivp:%s:zero-rtol-absolute-accuracy" % meth, {"ode": "rotation, |y| = 1e3", "atol": 1e-6, "rtol": 0.0}, err, "<= 1e-3")


def round4_oracle(ctx):
    """adaptive methods: (a) dense output grids on problems that get harder along the way (blow-up, narrow pulse): a step clipped to
    a requested time and then REJECTED must not be recorded as having reached that time (round-4 seed C07/10); (b) right-hand
    sides defined on part of the state space only: a trial step that leaves the domain gives a NaN error estimate and must be
    rejected and retried, not accepted (C07/11); (c) the order of the pairs: with tolerances so loose that each interval is ONE
    step, rk45 integrates t^k exactly for k <= 4 and rk23 for k <= 2 (C07/12: rk45 ran the 3(2) tableau)"""
    from xitorch.integrate import solve_ivp
    tsb = torch.linspace(0.0, 0.95, 40, dtype=DT)
    tsp = torch.linspace(0.0, 4.0, 60, dtype=DT)
    cases = [("blow-up y' = y^2", lambda t, y: y * y, tsb, torch.tensor([1.0], dtype=DT), 1.0 / (1.0 - tsb).unsqueeze(-1)),
             ("narrow pulse", lambda t, y: -2.0 * 50.0 * (t - 2.0) * torch.exp(-50.0 * (t - 2.0) ** 2) + 0.0 * y, tsp, torch.exp(torch.tensor([-200.0], dtype=DT)),
              torch.exp(-50.0 * (tsp - 2.0) ** 2).unsqueeze(-1))]
    for meth in ("rk45", "rk23"):
        for name, fcn, ts, y0, exact in cases:
            for atol, rtol in ((1e-10, 1e-7),):
                try:
                    yt = solve_ivp(guarded(fcn, 400000), ts, y0, method=meth, atol=atol, rtol=rtol)
                except Exception as e:
                    ctx.fail("oracle", "ivp:%s:dense-grid:exception" % meth, {"family": name}, repr(e)[:200], "a trajectory")
                    continue
                ctx.count(("dense-grid-hardening", meth, name))
                rel = float(((yt - exact).abs() / (atol / rtol + exact.abs())).max())
                # (global error over 40-60 requested times: a generous 1e4 x rtol; a recorded value at the wrong time is off by 1e-2)
                if not rel <= 1e4 * rtol:
                    ctx.fail("oracle", "ivp:%s:accuracy-on-dense-grid" % meth, {"family": name, "npoints": len(ts), "atol": atol, "rtol": rtol}, rel,
                             "relative error <= %g at every requested time" % (1e4 * rtol))
    # (b) partial domains
    for meth in ("rk45", "rk23"):
        for name, fcn, T1, y0, exact in (("y' = sqrt(1 - y^2)", lambda t, y: torch.sqrt(1.0 - y * y), 1.5, 0.0, lambda t: math.sin(t)),
                                         ("y' = -y log y", lambda t, y: -y * torch.log(y), 3.0, 0.05, lambda t: math.exp(math.log(0.05) * math.exp(-t)))):
            ts = torch.tensor([0.0, T1], dtype=DT)
            try:
                yt = solve_ivp(guarded(fcn, 400000), ts, torch.tensor([y0], dtype=DT), method=meth, atol=1e-10, rtol=1e-8)
            except Exception as e:
                ctx.fail("oracle", "ivp:%s:partial-domain:exception" % meth, {"family": name}, repr(e)[:200], "a trajectory")
                continue
            ctx.count(("partial-domain", meth, name))
            err = abs(float(yt[-1, 0]) - exact(T1))
            if not err <= 1e-5:                       # NaN compares false
                ctx.fail("oracle", "ivp:%s:right-hand-side-with-partial-domain" % meth, {"family": name, "ts": ts.tolist()},
                         {"y_end": float(yt[-1, 0]), "exact": exact(T1)}, "the solution within 1e-5 (a trial step that leaves the domain is rejected)")
    # (c) order of the embedded pairs, one step per interval
    ts1 = torch.tensor([0.0, 1.0], dtype=DT)
    for meth, exact_upto in (("rk45", 4), ("rk23", 2)):
        for kdeg in range(0, exact_upto + 1):
            yt = solve_ivp(lambda t, y: (kdeg + 1.0) * t ** kdeg + 0.0 * y, ts1, torch.zeros(1, dtype=DT), method=meth, atol=1e6, rtol=1e6)
            ctx.count(("pair-order", meth, kdeg))
            if not abs(float(yt[-1, 0]) - 1.0) <= 1e-12:
                ctx.fail("oracle", "ivp:%s:pair-order" % meth, {"rhs": "(k+1) t^k", "k": kdeg, "tolerances": "so loose that [0, 1] is one step"},
                         float(yt[-1, 0]), "exactly 1 (a pair of order %d integrates t^k exactly for k <= %d)" % (exact_upto + 1, exact_upto))


def round5_oracle(ctx):
    """the forward integration is run with the FORWARD options: bck_options (another method, looser tolerances) configure the backward
    pass only, so the returned trajectory is bitwise the one obtained without them (round-5 seed C07/13: the forward solver was
    called with the backward configuration)"""
    from xitorch.integrate import solve_ivp
    ts = torch.linspace(0.0, 2.0, 5, dtype=DT)
    y0 = torch.tensor([1.0, 0.0], dtype=DT)

    def osc(t, y):
        return torch.stack([y[1], -4.0 * y[0]])
    for meth, fwd in (("rk45", {"rtol": 1e-9, "atol": 1e-10}), ("rk23", {"rtol": 1e-7, "atol": 1e-9}), ("rk4", {}), ("rk38", {}), ("euler", {})):
        ref = solve_ivp(osc, ts, y0, method=meth, **fwd)
        for bck in ({"rtol": 1e-2, "atol": 1e-2}, {"method": "euler"}, {"method": "rk23", "rtol": 1e-1, "atol": 1e-1}):
            ctx.count(("bck-options-leave-forward-alone", meth, tuple(sorted(bck))), nontrivial=True)
            try:
                yt = solve_ivp(osc, ts, y0, method=meth, bck_options=dict(bck), **fwd)
            except Exception as e:
                ctx.fail("oracle", "ivp:%s:bck-options:exception" % meth, {"bck_options": bck}, repr(e)[:200], "a trajectory")
                continue
            if not torch.equal(yt, ref):
                ctx.fail("oracle", "ivp:%s:bck-options-change-the-forward-result" % meth, {"fwd_options": fwd, "bck_options": bck},
                         {"max_difference": float((yt - ref).abs().max())}, "bitwise the trajectory without bck_options")


def round6_oracle(ctx):
    """decreasing output times with a right-hand side that returns one of its ARGUMENTS (y' = y written `return y`, y' = c written
    `return c`): the trajectory is the solution run backwards and the caller's tensors are untouched, for adaptive and fixed-step
    methods (round-6 seed C07/16: the time-reversal wrapper negated the returned tensor in place)"""
    from xitorch.integrate import solve_ivp
    ts = torch.linspace(1.0, 0.0, 5, dtype=DT)
    for meth in ("rk45", "rk23", "rk4", "rk38", "euler"):
        for name, fcn, exact in (("return y", lambda t, y, c: y, lambda y0, c: y0 * torch.exp(ts - 1.0).unsqueeze(-1)),
                                 ("return c", lambda t, y, c: c, lambda y0, c: y0 + (ts - 1.0).unsqueeze(-1) * c)):
            y0 = torch.tensor([1.0, -2.0], dtype=DT)
            c = torch.tensor([0.5, 0.25], dtype=DT)
            y0c, cc = y0.clone(), c.clone()
            ctx.count(("aliasing-rhs-backwards", meth, name), nontrivial=True)
            try:
                yt = solve_ivp(guarded(fcn, 20000), ts, y0, params=(c,), method=meth, **({"rtol": 1e-9, "atol": 1e-11} if meth in ("rk45", "rk23") else {}))
            except Exception as e:
                ctx.fail("oracle", "ivp:%s:aliasing-rhs:exception" % meth, {"rhs": name, "y0_untouched": bool(torch.equal(y0, y0c)), "param_untouched": bool(torch.equal(c, cc))},
                         repr(e)[:200], "a trajectory")
                continue
            tol = {"euler": 0.2, "rk23": 1e-5}.get(meth, 1e-3 if meth in ("rk4", "rk38") else 1e-6)
            err = float((yt - exact(y0c, cc)).abs().max())
            if not (torch.equal(y0, y0c) and torch.equal(c, cc) and torch.equal(yt[0], y0c) and err <= tol):
                ctx.fail("oracle", "ivp:%s:aliasing-rhs-backwards" % meth, {"rhs": name, "ts": "1 -> 0, 5 points"},
                         {"y0_untouched": bool(torch.equal(y0, y0c)), "param_untouched": bool(torch.equal(c, cc)), "first_row_is_y0": bool(torch.equal(yt[0], y0c)), "max_error": err},
                         "caller's tensors untouched, yt[0] = y0, error <= %g" % tol)


def search(ctx):
    oracle(ctx, heavy=True)

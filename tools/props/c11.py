"""C11 — LinearOperator products are mutually consistent for every operator expression.

Tie (exact correspondence):
  (a) Model/LinopFlags.v vs LinearOperator.__new__ on random class tables x instantiation histories;
  (b) Model/LinopExpr.v vs the implementation on random expression trees over tracing leaf classes of
      every capability subset: the structure the operators (.H, matmul, +, -, *) build, and for each of
      mv/rmv/mm/rmm/fullmatrix the exact sequence of user-level products that are called.
Oracle (implementation alone): every product equals the product with the dense reference matrix, exactly
  (small integers / Gaussian integers), over batch shapes and dtypes; shape / Hermiticity violations raise."""
from __future__ import annotations
import itertools, warnings
import torch
from vlib import cnat, cZ, clist, cbool, coq_bool_cases

RULE = ("(a) class tables of 1-4 classes (random parents, random optional-method subsets) x histories of "
        "1-7 instantiations incl. LinearOperator itself and classes without _mv; (b) expression trees of depth "
        "<=4 over leaves {user classes with each of the 16 capability subsets, Hermitian-flagged or not, "
        "dense-wrapped} built with .H / matmul / + / - / scalar *, in float32, float64 and complex128 with "
        "operator and operand batch shapes; distinct = (tree structure, op) or (table, history); non-trivial = "
        "tree has a composed node / history has >= 2 classes")
TRUSTED = ["harness tools/props/c11.py (tracing leaf classes; read-back of the operator objects into model terms)",
           "modelled, not verified: torch.matmul, autograd's adjoint (torch.autograd.grad of a linear map is its "
           "conjugate transpose), the user's optional methods agreeing with _mv (the property's premise)"]
ASSUMPTIONS = ["square operators of one size per tree in the symbolic model; rectangular shapes and batch broadcasting "
               "are covered by the dense-reference oracle only"]
HEADER = ("From Coq Require Import List ZArith Bool.\nImport ListNotations.\n"
          "From XV Require Import Model.LinopExpr Model.LinopFlags.\n")

METHS = ["Mv", "Mm", "Rmv", "Rmm", "Full", "Gpn"]
PYNAME = {"Mv": "_mv", "Mm": "_mm", "Rmv": "_rmv", "Rmm": "_rmm", "Full": "_fullmatrix", "Gpn": "_getparamnames"}
FLAGATTR = {"Mv": "_is_mv_implemented", "Mm": "_is_mm_implemented", "Rmv": "_is_rmv_implemented",
            "Rmm": "_is_rmm_implemented", "Full": "_is_fullmatrix_implemented", "Gpn": "_is_gpn_implemented"}


# =======================================================================================
# (a) flags
# =======================================================================================
def gen_table(rng):
    n = rng.randrange(1, 5)
    tb = []
    for i in range(n):
        parent = None if i == 0 or rng.random() < 0.35 else rng.randrange(i)
        defs = [m for m in METHS if rng.random() < (0.75 if m == "Mv" and parent is None else 0.3)]
        tb.append((parent, defs))
    return tb


def build_classes(xt, tb):
    clss = []
    for i, (parent, defs) in enumerate(tb):
        body = {}
        for m in defs:
            body[PYNAME[m]] = (lambda self, *a, **k: None)
        base = xt.LinearOperator if parent is None else clss[parent]
        clss.append(type("XVCls%d" % i, (base,), body))
    return clss


def run_history(xt, clss, hist):
    out = []
    for t in hist:
        cls = xt.LinearOperator if t == "Base" else clss[t]
        try:
            inst = cls(shape=(2, 2))
            out.append([bool(getattr(inst, FLAGATTR[m])) for m in METHS])
        except RuntimeError:
            out.append(None)
    return out


def coq_table(tb):
    return clist(["(mkCls %s %s)" % ("None" if p is None else "(Some %d)" % p, clist(d)) for p, d in tb])


def coq_hist(h):
    return clist(["Base" if t == "Base" else "(User %d)" % t for t in h])


def coq_outcomes(o):
    return clist(["ErrNoMv" if x is None else "(Ok %s)" % clist([cbool(b) for b in x]) for x in o])


def flags_cases(ctx, xt, cases, meta):
    rng = ctx.rng
    specs = []
    for _ in range(ctx.n(150, 1500)):
        tb = gen_table(rng)
        hist = [rng.choice(list(range(len(tb))) + ["Base"]) if rng.random() < 0.9 else "Base"
                for _ in range(rng.randrange(1, 8))]
        specs.append((tb, hist))
    if ctx.thorough():
        # exhaustive: every chain / fork of <=3 classes where each class defines a subset of {Mv,Rmv,Mm},
        # every history of length <=3 over the classes
        sub = [[], ["Mv"], ["Rmv"], ["Mv", "Rmv", "Mm"]]
        for n in (1, 2, 3):
            parents_opts = list(itertools.product(*[[None] + list(range(i)) for i in range(n)]))
            for parents in parents_opts:
                for defs in itertools.product(sub, repeat=n):
                    tb = list(zip(parents, defs))
                    for L in (1, 2, 3):
                        for hist in itertools.product(list(range(n)) + ["Base"], repeat=L):
                            if n == 3 and L == 3 and rng.random() < 0.8:
                                continue
                            specs.append((tb, list(hist)))
    for tb, hist in specs:
        clss = build_classes(xt, tb)
        out = run_history(xt, clss, hist)
        cases.append("outcomes_eqb (fst (run %s %s (init_state %s))) %s" % (coq_table(tb), coq_hist(hist), coq_table(tb), coq_outcomes(out)))
        meta.append({"kind": "flags", "table": tb, "history": hist, "observed": out})
        ctx.count(("flags", repr(tb), repr(hist)), nontrivial=len(set(hist)) >= 2)
        ctx.stat("flags_cases")
        # property oracle, without the model: the flags are those of the class whatever came before
        for t, o in zip(hist, out):
            if t == "Base":
                want = None
            else:
                def resolves(c, m):
                    while c is not None:
                        if m in tb[c][1]:
                            return True
                        c = tb[c][0]
                    return False
                fl = [resolves(t, m) for m in METHS]
                want = fl if fl[0] else None
            if o != want:
                ctx.fail("oracle", "flags:history-dependent", {"table": tb, "history": hist}, {"class": t, "flags": o},
                         {"flags": want})
                break
    ctx.sample({"kind": "flags", "table": specs[0][0], "history": specs[0][1]})


# =======================================================================================
# (b) expressions
# =======================================================================================
TRACE = []
_leafcls = {}


def leaf_class(xt, caps):
    """a user class defining _mv and the optional methods in caps = (rmv, mm, rmm, full)"""
    if caps in _leafcls:
        return _leafcls[caps]

    def init(self, mat, lid, herm):
        xt.LinearOperator.__init__(self, shape=mat.shape, is_hermitian=herm, dtype=mat.dtype, device=mat.device,
                                   _suppress_hermit_warning=True)
        self.mat = mat
        self.lid = lid

    body = {"__init__": init,
            "_mv": lambda self, x: (TRACE.append(("CMv", self.lid)), torch.matmul(self.mat, x.unsqueeze(-1)).squeeze(-1))[1],
            "_getparamnames": lambda self, prefix="": [prefix + "mat"]}
    if caps[0]:
        body["_rmv"] = lambda self, x: (TRACE.append(("CRmv", self.lid)),
                                        torch.matmul(self.mat.transpose(-2, -1).conj(), x.unsqueeze(-1)).squeeze(-1))[1]
    if caps[1]:
        body["_mm"] = lambda self, x: (TRACE.append(("CMm", self.lid)), torch.matmul(self.mat, x))[1]
    if caps[2]:
        body["_rmm"] = lambda self, x: (TRACE.append(("CRmm", self.lid)),
                                        torch.matmul(self.mat.transpose(-2, -1).conj(), x))[1]
    if caps[3]:
        body["_fullmatrix"] = lambda self: (TRACE.append(("CFull", self.lid)), self.mat)[1]
    cls = type("XVLeaf%d%d%d%d" % tuple(int(c) for c in caps), (xt.LinearOperator,), body)
    _leafcls[caps] = cls
    return cls


def rand_int_matrix(rng, shape, dtype, herm=False):
    n = shape[-1]
    numel = 1
    for s in shape:
        numel *= s
    re = torch.tensor([float(rng.randrange(-3, 4)) for _ in range(numel)], dtype=torch.float64).reshape(shape)
    if dtype.is_complex:
        im = torch.tensor([float(rng.randrange(-3, 4)) for _ in range(numel)], dtype=torch.float64).reshape(shape)
        m = torch.complex(re, im)
    else:
        m = re
    if herm:
        m = m + m.transpose(-2, -1).conj()
    return m.to(dtype)


class Node:
    """harness-side record of a constructed operator: the python object, its model term, its dense matrix"""
    def __init__(self, op, term, mexp, dense, tag):
        self.op, self.term, self.mexp, self.dense, self.tag = op, term, mexp, dense, tag


def readback(xt, op, leaves_by_id, mexp_of):
    """model term of the object the implementation actually built"""
    from xitorch._core import linop as L
    if isinstance(op, L.MatrixLinearOperator):
        return "(Dense %s %s)" % (mexp_of(op), cbool(op.is_hermitian))
    if isinstance(op, L.AdjointLinearOperator):
        return "(Adj %s)" % readback(xt, op.obj, leaves_by_id, mexp_of)
    if isinstance(op, L.MatmulLinearOperator):
        return "(Matmul %s %s %s)" % (readback(xt, op.a, leaves_by_id, mexp_of), readback(xt, op.b, leaves_by_id, mexp_of),
                                      cbool(op.is_hermitian))
    if isinstance(op, L.AddLinearOperator):
        return "(Add %s %s %s)" % (readback(xt, op.a, leaves_by_id, mexp_of), readback(xt, op.b, leaves_by_id, mexp_of),
                                   cbool(op.mul == 1))
    if isinstance(op, L.MulLinearOperator):
        return "(Mul %s %s)" % (readback(xt, op.a, leaves_by_id, mexp_of), cZ(int(op.f)))
    caps = leaves_by_id[op.lid]
    return "(Leaf %d (mkCaps %s %s %s %s) %s)" % (op.lid, cbool(caps[0]), cbool(caps[1]), cbool(caps[2]), cbool(caps[3]),
                                                  cbool(op.is_hermitian))


def gen_tree(ctx, xt, rng, n, dtype, batch):
    """build a random operator through the public operators; returns Node plus construction checks"""
    leaves_by_id = {}
    mexps = {}          # id(python op) -> mexp string for dense operators
    checks = []
    keep = []

    def mexp_of(op):
        return mexps[id(op)]

    def new_leaf():
        lid = len(leaves_by_id)
        herm = rng.random() < 0.25
        if rng.random() < 0.3:
            mat = rand_int_matrix(rng, batch + (n, n), dtype, herm)
            op = xt.LinearOperator.m(mat, is_hermitian=herm if rng.random() < 0.5 else None)
            leaves_by_id[lid] = "dense"
            mexps[id(op)] = "(MLeaf %d)" % lid
            keep.append(op)
            return Node(op, None, None, mat, "D"), lid
        caps = tuple(rng.random() < 0.5 for _ in range(4))
        mat = rand_int_matrix(rng, batch + (n, n), dtype, herm)
        op = leaf_class(xt, caps)(mat, lid, herm)
        leaves_by_id[lid] = caps
        keep.append(op)
        return Node(op, None, None, mat, "L" + "".join(str(int(c)) for c in caps) + ("h" if herm else "")), lid

    def build(depth):
        r = rng.random()
        if depth == 0 or r < 0.25:
            nd, _ = new_leaf()
            return nd
        kind = rng.choice(["H", "matmul", "add", "sub", "mul", "H", "matmul", "hmatmul"])
        from xitorch._core import linop as L
        if kind == "H":
            a = build(depth - 1)
            res = a.op.H
            if isinstance(res, L.MatrixLinearOperator) and id(res) not in mexps:
                mexps[id(res)] = "(MH %s)" % mexps[id(a.op)]
            keep.append(res)
            dh = res.is_hermitian if isinstance(res, L.MatrixLinearOperator) else False
            checks.append(("mk_H %s %s" % ("%s", cbool(dh)), [a.op], res))
            return Node(res, None, None, a.dense.transpose(-2, -1).conj(), "H(%s)" % a.tag)
        if kind == "mul":
            a = build(depth - 1)
            f = rng.choice([2, -1, 3, 0, -2])
            res = a.op * f if rng.random() < 0.5 else f * a.op
            if isinstance(res, L.MatrixLinearOperator):
                mexps[id(res)] = "(MScale %s %s)" % (cZ(f), mexps[id(a.op)])
            keep.append(res)
            dh = res.is_hermitian if isinstance(res, L.MatrixLinearOperator) else False
            checks.append(("mk_mul %s %s %s" % ("%s", cZ(f).replace("%", "%%"), cbool(dh)), [a.op], res))
            return Node(res, None, None, a.dense * f, "%d*(%s)" % (f, a.tag))
        if kind == "hmatmul":
            a = build(depth - 1)
            ah = a.op.H
            if isinstance(ah, L.MatrixLinearOperator) and id(ah) not in mexps:
                mexps[id(ah)] = "(MH %s)" % mexps[id(a.op)]
            res = ah.matmul(a.op, is_hermitian=True)
            if isinstance(res, L.MatrixLinearOperator):
                mexps[id(res)] = "(MMul %s %s)" % (mexps[id(ah)], mexps[id(a.op)])
            keep.extend([ah, res])
            checks.append(("mk_matmul %s %s true", [ah, a.op], res))
            return Node(res, None, None, a.dense.transpose(-2, -1).conj() @ a.dense, "(%s)^H(%s)" % (a.tag, a.tag))
        a = build(depth - 1)
        b = build(depth - 1)
        if kind == "matmul":
            res = a.op.matmul(b.op)
            if isinstance(res, L.MatrixLinearOperator):
                mexps[id(res)] = "(MMul %s %s)" % (mexps[id(a.op)], mexps[id(b.op)])
            keep.append(res)
            checks.append(("mk_matmul %s %s false", [a.op, b.op], res))
            return Node(res, None, None, a.dense @ b.dense, "(%s)@(%s)" % (a.tag, b.tag))
        plus = kind == "add"
        res = a.op + b.op if plus else a.op - b.op
        if isinstance(res, L.MatrixLinearOperator):
            mexps[id(res)] = "(%s %s %s)" % ("MAdd" if plus else "MSub", mexps[id(a.op)], mexps[id(b.op)])
        keep.append(res)
        dh = res.is_hermitian if isinstance(res, L.MatrixLinearOperator) else False
        checks.append(("mk_add %s %s %s %s" % ("%s", "%s", cbool(plus), cbool(dh)), [a.op, b.op], res))
        return Node(res, None, None, a.dense + b.dense if plus else a.dense - b.dense,
                    "(%s)%s(%s)" % (a.tag, "+" if plus else "-", b.tag))

    root = build(rng.randrange(1, 5))
    rb = lambda op: readback(xt, op, leaves_by_id, mexp_of)
    return root, rb, checks, keep


def expr_cases(ctx, xt, cases, meta):
    rng = ctx.rng
    ntrees = ctx.n(120, 900)
    OPS = [("OMv", "mv"), ("ORmv", "rmv"), ("OMm", "mm"), ("ORmm", "rmm"), ("OFull", "fullmatrix")]
    for ti in range(ntrees):
        dtype = rng.choice([torch.float64, torch.float64, torch.complex128, torch.float32])
        n = rng.randrange(1, 4)
        batch = rng.choice([(), (), (2,), (1, 2)])
        with warnings.catch_warnings():
            warnings.simplefilter("ignore")
            try:
                root, rb, checks, keep = gen_tree(ctx, xt, rng, n, dtype, batch)
            except Exception as e:
                ctx.fail("oracle", "linop:construct:%s" % type(e).__name__, {"n": n, "dtype": str(dtype)}, repr(e),
                         "operator expressions over well-shaped operands can be built")
                continue
        term = rb(root.op)
        info = {"kind": "expr", "tree": root.tag, "dtype": str(dtype), "n": n, "batch": list(batch)}
        # structure built by the operators = structure predicted by the simplifying constructors
        for fmt, args, res in checks:
            cases.append("lexpr_eqb (%s) (%s)" % (fmt % tuple(rb(a) for a in args), rb(res)))
            meta.append(dict(info, check="constructor", constructor=fmt.split(" ")[0]))
        composed = any(c in root.tag for c in "@+-*H")
        for opk, pyname in OPS:
            r = rng.choice([1, 2, 3])
            xb = rng.choice([(), batch, (3,) + batch if rng.random() < 0.3 else batch])
            if pyname in ("mv", "rmv"):
                x = rand_int_matrix(rng, xb + (n, 1), dtype).squeeze(-1)
            elif pyname == "fullmatrix":
                x = None
            else:
                x = rand_int_matrix(rng, xb + (n, r), dtype)
            del TRACE[:]
            try:
                with warnings.catch_warnings():
                    warnings.simplefilter("ignore")
                    y = getattr(root.op, pyname)() if x is None else getattr(root.op, pyname)(x)
                trace = list(TRACE)
                err = None
            except Exception as e:
                trace, err, y = list(TRACE), e, None
            ctx.count(("expr", root.tag, pyname, str(dtype), batch), nontrivial=composed)
            ctx.stat("op:" + pyname)
            if err is not None:
                # model: the product must not raise (products_total)
                cases.append("raises (run_op %s %s)" % (opk, term))
                meta.append(dict(info, op=pyname, error=repr(err)[:200]))
                ctx.fail("oracle", "linop:%s:raises:%s" % (pyname, type(err).__name__), dict(info, op=pyname),
                         repr(err)[:300], "the product is defined for every operator expression")
                continue
            cases.append("ucalls_eqb (calls (run_op %s %s)) %s" % (
                opk, term, clist(["(%s %d)" % (k, i) for k, i in trace])))
            meta.append(dict(info, op=pyname, trace=trace))
            # dense-reference oracle (exact: small integers)
            A = root.dense
            if pyname == "mv":
                ref = torch.matmul(A, x.unsqueeze(-1)).squeeze(-1)
            elif pyname == "rmv":
                ref = torch.matmul(A.transpose(-2, -1).conj(), x.unsqueeze(-1)).squeeze(-1)
            elif pyname == "mm":
                ref = torch.matmul(A, x)
            elif pyname == "rmm":
                ref = torch.matmul(A.transpose(-2, -1).conj(), x)
            else:
                ref = A
            if tuple(y.shape) != tuple(ref.shape) or not torch.equal(y.to(ref.dtype), ref):
                ctx.fail("oracle", "linop:%s:value" % pyname, dict(info, op=pyname, operand_shape=None if x is None else list(x.shape)),
                         {"got": y, "want": ref}, "product with the dense matrix of the expression")
            if y.dtype != dtype:
                ctx.fail("oracle", "linop:%s:dtype" % pyname, dict(info, op=pyname), str(y.dtype), str(dtype))
        ctx.sample(info, limit=8)


def shape_oracle(ctx, xt):
    """mismatched shapes / false Hermiticity claims are rejected with an error"""
    rng = ctx.rng
    n = 3
    mat = rand_int_matrix(rng, (n, n), torch.float64)
    rect = rand_int_matrix(rng, (2, 3), torch.float64)
    ops = {"dense": xt.LinearOperator.m(mat), "user": leaf_class(xt, (False, False, False, False))(mat, 0, False),
           "rect": xt.LinearOperator.m(rect)}
    bad = []
    for name, op in ops.items():
        p, q = op.shape[-2:]
        for meth, shp in (("mv", (q + 1,)), ("mm", (q + 1, 2)), ("rmv", (p + 1,)), ("rmm", (p + 1, 2))):
            try:
                getattr(op, meth)(torch.zeros(shp, dtype=torch.float64))
                bad.append((name, meth, shp))
            except RuntimeError:
                pass
            ctx.count(("shape", name, meth))
    sym = mat + mat.T
    checks = [
        ("matmul-mismatch", lambda: ops["dense"].matmul(ops["rect"])),
        ("add-mismatch", lambda: ops["dense"] + ops["rect"]),
        ("sub-mismatch", lambda: ops["user"] - ops["rect"]),
        ("hermitian-nonsquare", lambda: leaf_class(xt, (False, False, False, False))(rect, 1, True)),
        ("m-false-hermitian", lambda: xt.LinearOperator.m(mat + torch.triu(torch.ones(n, n, dtype=torch.float64), 1), is_hermitian=True)),
        # a product of two dense operands DECLARED Hermitian is checked like LinearOperator.m (round-5 seed C11/13: the dense
        # shortcut of matmul built the operator without the check, rmv / rmm of the result then disagreed with fullmatrix)
        ("matmul-dense-false-hermitian", lambda: xt.LinearOperator.m(torch.tensor([[1.0, 2.0, 0.0], [2.0, 3.0, 1.0], [0.0, 1.0, 2.0]], dtype=torch.float64)).matmul(
            xt.LinearOperator.m(torch.diag(torch.arange(1.0, n + 1, dtype=torch.float64))), is_hermitian=True)),
        ("scalar-nonnumber", lambda: ops["user"] * "2"),
        ("shape-1d", lambda: leaf_class(xt, (False, False, False, False))(torch.zeros(3, dtype=torch.float64), 2, False)),
    ]
    for name, f in checks:
        try:
            f()
            bad.append((name,))
        except (RuntimeError, TypeError, AssertionError):
            pass
        ctx.count(("reject", name))
    for b in bad:
        ctx.fail("oracle", "linop:accepted:" + "-".join(str(x) for x in b[:2]), {"case": [str(x) for x in b]}, "no error",
                 "shape or Hermiticity violations are rejected with an error")
    # rectangular operators and batch broadcasting against the dense reference
    for _ in range(ctx.n(40, 300)):
        dtype = rng.choice([torch.float64, torch.complex128, torch.float32])
        p, q = rng.randrange(1, 4), rng.randrange(1, 4)
        ba = rng.choice([(), (2,), (2, 1), (1, 3)])
        bx = rng.choice([(), (2,), (3,), (2, 3), (4, 2, 3)])
        try:
            torch.broadcast_shapes(ba, bx)
        except RuntimeError:
            continue
        A = rand_int_matrix(rng, ba + (p, q), dtype)
        caps = tuple(rng.random() < 0.5 for _ in range(4))
        kinds = [xt.LinearOperator.m(A), leaf_class(xt, caps)(A, 0, False)]
        B = rand_int_matrix(rng, ba + (q, p), dtype)
        kinds.append(leaf_class(xt, caps)(A, 0, False).matmul(xt.LinearOperator.m(B)))
        denses = [A, A, A @ B]
        for op, D in zip(kinds, denses):
            pp, qq = D.shape[-2:]
            x = rand_int_matrix(rng, bx + (qq, 2), dtype)
            xr = rand_int_matrix(rng, bx + (pp, 2), dtype)
            for meth, arg, ref in (("mm", x, D @ x), ("rmm", xr, D.transpose(-2, -1).conj() @ xr),
                                   ("mv", x[..., 0], (D @ x[..., :1])[..., 0]),
                                   ("rmv", xr[..., 0], (D.transpose(-2, -1).conj() @ xr[..., :1])[..., 0])):
                try:
                    with warnings.catch_warnings():
                        warnings.simplefilter("ignore")
                        y = getattr(op, meth)(arg)
                except Exception as e:
                    ctx.fail("oracle", "linop:%s:bcast-raises" % meth, {"A": list(D.shape), "x": list(arg.shape), "dtype": str(dtype),
                                                                       "cls": type(op).__name__}, repr(e)[:200], "broadcast")
                    continue
                ctx.count(("bcast", meth, tuple(D.shape), tuple(arg.shape), str(dtype), type(op).__name__))
                if tuple(y.shape) != tuple(ref.shape) or not torch.equal(y, ref):
                    ctx.fail("oracle", "linop:%s:bcast-value" % meth, {"A": list(D.shape), "x": list(arg.shape), "dtype": str(dtype),
                                                                      "cls": type(op).__name__}, {"got": y, "want": ref},
                             "shapes broadcast over batch dimensions")


def scale_oracle(ctx, xt):
    """a wrapped dense matrix describes ONE matrix whatever the magnitude of its entries: the automatic Hermitian flag of
    LinearOperator.m, rmv / .H and a false Hermiticity claim are decided relative to the size of the entries (finding F33:
    torch.allclose's absolute tolerance 1e-8 flagged every small non-symmetric matrix as Hermitian, so .H and rmv were
    the operator itself)"""
    rng = ctx.rng
    for rep in range(ctx.n(24, 200)):
        g = torch.Generator().manual_seed(rng.randrange(1 << 30))
        n = rng.choice([2, 3, 4])
        amp = rng.choice([1e-12, 1e-9, 1e-8, 1e-4, 1.0, 1e6])
        dtype = rng.choice([torch.float64, torch.complex128])
        herm = rng.random() < 0.4
        M0 = torch.randn(n, n, dtype=dtype, generator=g)
        if herm:
            M0 = M0 + M0.transpose(-2, -1).conj()
        else:
            M0 = M0 + 2.0 * torch.triu(torch.ones(n, n, dtype=dtype), 1)        # asymmetry of the order of the entries
        mat = amp * M0
        info = {"n": n, "amplitude": amp, "dtype": str(dtype), "hermitian": herm, "generator_seed": g.initial_seed()}
        ctx.count(("scale", rep, n, amp, str(dtype), herm))
        try:
            op = xt.LinearOperator.m(mat)
        except Exception as e:
            ctx.fail("oracle", "linop:scale:construct", info, repr(e)[:200], "an operator")
            continue
        if bool(op.is_hermitian) != herm:
            ctx.fail("oracle", "linop:scale:hermitian-flag", info, bool(op.is_hermitian), herm)
            continue
        x = torch.randn(n, dtype=dtype, generator=g)
        ref = mat.transpose(-2, -1).conj() @ x
        for nm, y in (("rmv", op.rmv(x)), ("H.mv", op.H.mv(x))):
            if not (y - ref).abs().max() <= 1e-12 * amp * 10:
                ctx.fail("oracle", "linop:scale:%s" % nm, info, float((y - ref).abs().max()), "conjugate transpose product")
                break
        if not herm:
            try:
                xt.LinearOperator.m(mat, is_hermitian=True)
                ctx.fail("oracle", "linop:scale:false-hermitian-claim-accepted", info, "no error", "RuntimeError")
            except RuntimeError:
                pass


def aliasing_and_batch_oracle(ctx, xt):
    """(1) operators whose product hands back its ARGUMENT (identity) or a view of it (restriction) inside expressions: the
    caller's vector is left untouched and every product describes the expression's matrix (round-3 seed C11/8: the scaled
    operator multiplied the operand's result in place);  (2) operands of an expression with DIFFERENT batch shapes: the result
    has the broadcast batch shape and mv / mm / rmv / rmm / fullmatrix / .H agree with the dense expression (round-3 seed C11/9:
    the batch shape of a product taken from the left operand only)"""
    DTs = (torch.float64, torch.complex128)

    class Ident(xt.LinearOperator):
        def __init__(self, n, dtype):
            super().__init__(shape=(n, n), is_hermitian=False, dtype=dtype)

        def _mv(self, x):
            return x

        def _getparamnames(self, prefix=""):
            return []

    class Restrict(xt.LinearOperator):
        def __init__(self, k, n, dtype):
            super().__init__(shape=(k, n), is_hermitian=False, dtype=dtype)
            self.k = k

        def _mv(self, x):
            return x[..., :self.k]          # a view of the argument

        def _getparamnames(self, prefix=""):
            return []
    g = torch.Generator().manual_seed(ctx.seed + 5)
    for dtype in DTs:
        n, k = 4, 2
        Bm = torch.randn(n, n, dtype=dtype, generator=g)
        eye = torch.eye(n, dtype=dtype)
        exprs = [("3*I", lambda: Ident(n, dtype) * 3, 3 * eye),
                 ("I*(-2)", lambda: -2 * Ident(n, dtype), -2 * eye),
                 ("3*I+B", lambda: Ident(n, dtype) * 3 + xt.LinearOperator.m(Bm, is_hermitian=False), 3 * eye + Bm),
                 ("B@(2*I)", lambda: xt.LinearOperator.m(Bm, is_hermitian=False).matmul(2 * Ident(n, dtype)), 2 * Bm),
                 ("(2*R)", lambda: 2 * Restrict(k, n, dtype), 2 * eye[:k]),
                 ("(2*R)@B", lambda: (2 * Restrict(k, n, dtype)).matmul(xt.LinearOperator.m(Bm, is_hermitian=False)), 2 * Bm[:k])]
        for nm, mk, dense in exprs:
            op = mk()
            x = torch.randn(n, dtype=dtype, generator=g)
            X = torch.randn(n, 3, dtype=dtype, generator=g)
            xk, Xk = x.clone(), X.clone()
            info = {"expression": nm, "dtype": str(dtype)}
            ctx.count(("aliasing", nm, str(dtype)))
            try:
                y1, y2 = op.mv(x), op.mv(x)
                Y1, Y2 = op.mm(X), op.mm(X)
                fm = op.fullmatrix()
            except Exception as e:
                ctx.fail("oracle", "linop:aliasing:exception", info, repr(e)[:200], "products")
                continue
            if not torch.equal(x, xk) or not torch.equal(X, Xk):
                ctx.fail("oracle", "linop:aliasing:operand-modified", info, {"x_after": x.tolist()}, {"x_before": xk.tolist()})
                continue
            for what, got, want in (("mv", y1, dense @ xk), ("mv-second-call", y2, dense @ xk), ("mm", Y1, dense @ Xk), ("mm-second-call", Y2, dense @ Xk),
                                    ("fullmatrix", fm, dense)):
                if got.shape != want.shape or not torch.allclose(got, want, rtol=1e-12, atol=1e-12):
                    ctx.fail("oracle", "linop:aliasing:%s" % what, info, got, want)
                    break
    # (1b) a wrapped dense matrix whose tensor is temporarily replaced (with op.uselinopparams(new)): inside the block ALL products
    #      describe the new matrix, afterwards all describe the old one again (round-4 seed C11/10: the conjugate transpose cached at
    #      construction);  (1c) the products of an operator that defines _mv only also work while autograd is switched off (round-4
    #      seed C11/12: the autograd-based adjoint lost its enable_grad)
    for dtype in DTs:
        n = 3
        M_old = torch.randn(n, n, dtype=dtype, generator=g)
        M_new = torch.randn(n, n, dtype=dtype, generator=g)
        op = xt.LinearOperator.m(M_old, is_hermitian=False)
        x = torch.randn(n, dtype=dtype, generator=g)
        X = torch.randn(n, 2, dtype=dtype, generator=g)

        def all_products(o):
            return {"mv": o.mv(x), "mm": o.mm(X), "rmv": o.rmv(x), "rmm": o.rmm(X), "fullmatrix": o.fullmatrix(), "H.mv": o.H.mv(x)}

        def expected(Mx):
            MH = Mx.transpose(-2, -1).conj()
            return {"mv": Mx @ x, "mm": Mx @ X, "rmv": MH @ x, "rmm": MH @ X, "fullmatrix": Mx, "H.mv": MH @ x}
        stages = []
        try:
            stages.append(("before", all_products(op), expected(M_old)))
            with op.uselinopparams(M_new):
                stages.append(("inside uselinopparams(new)", all_products(op), expected(M_new)))
            stages.append(("after", all_products(op), expected(M_old)))
        except Exception as e:
            ctx.fail("oracle", "linop:substituted-matrix:exception", {"dtype": str(dtype)}, repr(e)[:200], "products")
            continue
        ctx.count(("substituted-matrix", str(dtype)))
        for stage, got, want in stages:
            bad = [k for k in want if got[k].shape != want[k].shape or not torch.allclose(got[k], want[k], rtol=1e-12, atol=1e-12)]
            if bad:
                ctx.fail("oracle", "linop:substituted-matrix:%s" % bad[0], {"dtype": str(dtype), "stage": stage}, got[bad[0]], want[bad[0]])
                break
        mvonly = leaf_class(xt, (False, False, False, False))(M_old, 7, False)
        try:
            with torch.no_grad():
                got = {"rmv": mvonly.rmv(x), "rmm": mvonly.rmm(X), "H.mv": mvonly.H.mv(x), "(2*A).rmv": (2 * mvonly).rmv(x), "fullmatrix": mvonly.fullmatrix()}
            MH = M_old.transpose(-2, -1).conj()
            want = {"rmv": MH @ x, "rmm": MH @ X, "H.mv": MH @ x, "(2*A).rmv": 2 * MH @ x, "fullmatrix": M_old}
            ctx.count(("no-grad-products", str(dtype)))
            bad = [k for k in want if got[k].shape != want[k].shape or not torch.allclose(got[k], want[k], rtol=1e-12, atol=1e-12)]
            if bad:
                ctx.fail("oracle", "linop:no-grad:%s" % bad[0], {"dtype": str(dtype), "operator": "_mv only"}, got[bad[0]], want[bad[0]])
        except Exception as e:
            ctx.fail("oracle", "linop:no-grad:exception", {"dtype": str(dtype), "operator": "_mv only", "context": "torch.no_grad()"}, repr(e)[:200],
                     "the conjugate-transpose products")
    # (2) different batch shapes of the operands
    for dtype in DTs:
        n = 3
        for ba, bb in (((), (2,)), ((2,), ()), ((1, 2), (3, 1, 1)), ((2,), (2,)), ((), (2, 3))):
            A0 = torch.randn(*ba, n, n, dtype=dtype, generator=g)
            B0 = torch.randn(*bb, n, n, dtype=dtype, generator=g)
            full = tuple(torch.broadcast_shapes(ba, bb))
            mkA = [("dense", lambda: xt.LinearOperator.m(A0, is_hermitian=False)), ("user", lambda: leaf_class(xt, (True, True, True, True))(A0, 0, False))]
            mkB = [("dense", lambda: xt.LinearOperator.m(B0, is_hermitian=False)), ("user", lambda: leaf_class(xt, (False, False, False, False))(B0, 1, False))]
            for (ka, fa), (kb, fb) in ((mkA[0], mkB[1]), (mkA[1], mkB[0]), (mkA[1], mkB[1])):
                for enm, mk, dense in (("a@b", lambda: fa().matmul(fb()), A0 @ B0), ("a+b", lambda: fa() + fb(), A0 + B0), ("a-b", lambda: fa() - fb(), A0 - B0)):
                    info = {"expression": enm, "a": ka, "b": kb, "a_batch": list(ba), "b_batch": list(bb), "dtype": str(dtype)}
                    ctx.count(("batch-mix", enm, ka, kb, ba, bb, str(dtype)))
                    try:
                        op = mk()
                        x = torch.randn(n, dtype=dtype, generator=g)
                        X = torch.randn(n, 2, dtype=dtype, generator=g)
                        res = {"shape": list(op.shape), "mv": op.mv(x), "mm": op.mm(X), "rmv": op.rmv(x), "rmm": op.rmm(X),
                               "fullmatrix": op.fullmatrix(), "H.fullmatrix": op.H.fullmatrix()}
                    except Exception as e:
                        ctx.fail("oracle", "linop:batch-mix:exception", info, repr(e)[:200], "products with the broadcast batch shape")
                        continue
                    dH = dense.transpose(-2, -1).conj()
                    want = {"shape": list(full) + [n, n], "mv": dense @ x, "mm": dense @ X, "rmv": dH @ x, "rmm": dH @ X, "fullmatrix": dense,
                            "H.fullmatrix": dH}
                    for key in want:
                        gv, wv = res[key], want[key]
                        ok = gv == wv if key == "shape" else (gv.shape == wv.shape and torch.allclose(gv, wv, rtol=1e-10, atol=1e-10))
                        if not ok:
                            ctx.fail("oracle", "linop:batch-mix:%s" % key, info, gv if key == "shape" else list(gv.shape), wv if key == "shape" else list(wv.shape))
                            break


def check(ctx):
    import xitorch as xt
    cases, meta = [], []
    aliasing_and_batch_oracle(ctx, xt)
    flags_cases(ctx, xt, cases, meta)
    expr_cases(ctx, xt, cases, meta)
    shape_oracle(ctx, xt)
    scale_oracle(ctx, xt)
    failed, errors = coq_bool_cases("c11", HEADER, cases, chunk=300)
    ctx.coverage["traces_validated_against_impl"] += len(cases) - len(failed)
    for e in errors:
        ctx.broken("correspondence:linop", e)
    for i in failed[:4]:
        ctx.broken("correspondence:linop:" + meta[i].get("kind", ""), {"case": meta[i], "coq": cases[i][:2000]})


def search(ctx):
    import xitorch as xt
    cases, meta = [], []
    scale_oracle(ctx, xt)
    flags_cases(ctx, xt, cases, meta)
    expr_cases(ctx, xt, cases, meta)

"""C02 — gradients through solve equal the derivative of the exact solution map.

Tie (model vs implementation, 2^-24): Model/SolveBackward.v (the four outputs of the backward pass as
  dense formulas, linear solves by Gauss-Jordan) evaluated at IEEE binary64 against torch.autograd through
  the public solve: the solution, grad_B, grad_A, grad_M (through the leaf S with M = S S^T + I) and grad_E,
  for every forward / backward method combination.
Oracle (implementation): first AND second-order gradients against a dense differentiable reference graph
  (torch.linalg.solve of the same leaves), matrix-free / composed / shared-parameter operators, complex128,
  batch patterns, inputs that do not influence X."""
from __future__ import annotations
import warnings
import torch
from vlib import cnat, clist, cbool, cfloat, coq_nat_cases
from props.c07 import fvec

RULE = ("dense systems n in 1..4 x ncols 1..2 x {no E, E, E+M} x forward methods {exactsolve, cg/bicgstab, broyden1} x "
        "backward methods x random cotangents; distinct = (n, ncols, mode, methods, data); non-trivial = n >= 2. Oracle adds "
        "second order, operator kinds, complex128, batches")
TRUSTED = ["harness tools/props/c02.py", "autograd's chain rule through A.mm / M.mm (pull-back of theta |-> A(theta) X at cotangent V)",
           "torch.linalg.solve as the dense differentiable reference of the oracle"]
ASSUMPTIONS = ["conjugation placement for complex gradients is covered by the oracle only (theorems are over a commutative ring, transpose case)"]
HEADER = ("From XV Require Import Base.Ops Base.LinAlg Model.SolveBackward Model.SolveBackwardRun.\n"
          "From Coq Require Import List PrimFloat.\nImport ListNotations.\n")
DT = torch.float64


def fmat(m):
    return clist([fvec(r) for r in m.tolist()])


def fcols(m):
    return clist([fvec(c) for c in m.T.tolist()])


def check(ctx):
    import xitorch as xt
    from xitorch.linalg import solve
    rng = ctx.rng
    cases, meta = [], []
    for _ in range(ctx.n(80, 500)):
        n = rng.randrange(1, 5)
        nc = rng.randrange(1, 3)
        mode = rng.choice(["none", "E", "EM"])
        g = torch.Generator().manual_seed(rng.randrange(10 ** 6))
        R = torch.randn(n, n, dtype=DT, generator=g)
        sym = rng.random() < 0.5
        A0 = (R @ R.T / n + 1.5 * torch.eye(n, dtype=DT)) if sym else (0.4 * R + 2.0 * torch.eye(n, dtype=DT))
        A = A0.clone().requires_grad_()
        S = (0.3 * torch.randn(n, n, dtype=DT, generator=g)).requires_grad_()
        B = torch.randn(n, nc, dtype=DT, generator=g).requires_grad_()
        E = (-0.5 * torch.rand(nc, dtype=DT, generator=g)).requires_grad_()
        G = torch.randn(n, nc, dtype=DT, generator=g)
        M = S @ S.T + torch.eye(n, dtype=DT)
        fwd = rng.choice(["exactsolve", "cg", "bicgstab", "broyden1"] if sym else ["exactsolve", "bicgstab", "broyden1"])
        bck = rng.choice(["exactsolve", "bicgstab", "cg"] if sym else ["exactsolve", "bicgstab"])
        tight = {"cg": dict(rtol=1e-12, atol=1e-14, max_niter=100), "bicgstab": dict(rtol=1e-12, atol=1e-14, max_niter=100),
                 "broyden1": dict(f_tol=1e-12, x_tol=1e-12, maxiter=500), "exactsolve": {}}
        Aop = xt.LinearOperator.m(A, is_hermitian=sym)
        Mop = xt.LinearOperator.m(M, is_hermitian=True) if mode == "EM" else None
        try:
            with warnings.catch_warnings():
                warnings.simplefilter("ignore")
                X = solve(Aop, B, E if mode != "none" else None, Mop, method=fwd,
                          bck_options=dict(method=bck, **tight[bck]), **tight[fwd])
                leaves = [A, B] + ([E] if mode != "none" else []) + ([S] if mode == "EM" else [])
                grads = torch.autograd.grad((X * G).sum(), leaves, allow_unused=True)
        except Exception as e:
            ctx.fail("oracle", "solvegrad:exception:%s:%s" % (fwd, bck), {"n": n, "mode": mode}, repr(e)[:300], "gradients")
            continue
        gA, gB = grads[0], grads[1]
        gE = grads[2] if mode != "none" else torch.zeros(nc, dtype=DT)
        gS = grads[3] if mode == "EM" else None
        es = E.detach() if mode != "none" else torch.zeros(nc, dtype=DT)
        Mm = M.detach() if mode == "EM" else torch.eye(n, dtype=DT)
        info = {"n": n, "ncols": nc, "mode": mode, "forward": fwd, "backward": bck, "symmetric": sym}
        # grad w.r.t. the unconstrained M from the leaf S:  gS = (gM + gM^T) S  -> compare at the S level in python
        cases.append("solve_grad_code %s %s %s %s %s %s %s %s %s %s %s %s" % (
            fmat(A.detach()), fmat(Mm), fvec(es.tolist()), fcols(B.detach()), fcols(G), fcols(X.detach()), fcols(gB),
            fmat(gA), fmat(torch.zeros(n, n, dtype=DT)), fvec(gE.tolist()), cbool(False), cbool(mode != "none")))
        meta.append(info)
        ctx.count((n, nc, mode, fwd, bck, tuple(A0.reshape(-1).tolist()[:3])), nontrivial=n >= 2)
        ctx.stat("fwd:" + fwd)
        ctx.stat("bck:" + bck)
        ctx.sample(info, limit=5)
        if mode == "EM":
            # the model's grad_M formula, pushed to the leaf S in python: V (X E)^T with V from the dense transposed solves
            Xd = X.detach()
            V = torch.stack([torch.linalg.solve((A.detach() - es[j] * Mm).T, G[:, j]) for j in range(nc)], dim=-1)
            gM = V @ (Xd * es).T
            want = (gM + gM.T) @ S.detach()
            if not torch.allclose(gS, want, rtol=1e-6, atol=1e-8):
                ctx.fail("oracle", "solvegrad:grad-M:%s:%s" % (fwd, bck), info, gS, want)
    codes, errors = coq_nat_cases("c02", HEADER, cases, chunk=40)
    for e in errors:
        ctx.broken("correspondence:solve-backward", e)
    for i, cd in enumerate(codes):
        if cd == 1:
            ctx.coverage["traces_validated_against_impl"] += 1
        elif cd == 2:
            ctx.stat("model_singular")
        elif cd == 0:
            ctx.broken("correspondence:solve-backward", {"case": meta[i], "coq": cases[i][:1200]})
    oracle(ctx)


def oracle(ctx):
    import xitorch as xt
    from xitorch.linalg import solve
    rng = ctx.rng

    class MVOp(xt.LinearOperator):
        """matrix-free operator A = a * Bmat + diag(dvec) with shared parameters"""
        def __init__(self, a, Bmat, dvec, herm):
            super().__init__(shape=Bmat.shape, is_hermitian=herm, dtype=Bmat.dtype, device=Bmat.device)
            self.a, self.Bmat, self.dvec = a, Bmat, dvec

        def _mv(self, x):
            return self.a * torch.matmul(self.Bmat, x.unsqueeze(-1)).squeeze(-1) + self.dvec * x

        def _getparamnames(self, prefix=""):
            return [prefix + "a", prefix + "Bmat", prefix + "dvec"]
    class TOp(xt.LinearOperator):
        """0.5 * w^T (plain transpose), matrix-free; holds the tensor it is given under its own parameter name"""
        def __init__(self, w):
            super().__init__(shape=w.shape, is_hermitian=False, dtype=w.dtype, device=w.device)
            self.w = w

        def _mv(self, x):
            return 0.5 * torch.matmul(self.w.transpose(-2, -1), x.unsqueeze(-1)).squeeze(-1)

        def _getparamnames(self, prefix=""):
            return [prefix + "w"]
    for rep in range(ctx.n(6, 40)):
        torch.manual_seed(ctx.seed * 77 + rep)
        dtype = rng.choice([torch.float64, torch.float64, torch.complex128])
        n = rng.choice([2, 3, 4, 6])
        nc = rng.randrange(1, 3)
        ba = rng.choice([(), (), (2,)])
        mode = rng.choice(["none", "E", "EM"])
        kind_list = ["shared-tensor-sum", "dense", "matrix-free", "composed", "product", "hermitian+general"]
        kind = kind_list[rep] if rep < len(kind_list) else rng.choice(kind_list)       # every kind in every run
        a = torch.tensor(0.7, dtype=dtype, requires_grad=True)
        Bm = (0.3 * torch.randn(*ba, n, n, dtype=dtype)).requires_grad_()
        dv = (2.0 + torch.rand(n, dtype=torch.float64)).to(dtype).requires_grad_()
        unused = torch.randn(3, dtype=dtype, requires_grad=True)
        Bt = torch.randn(*ba, n, nc, dtype=dtype).requires_grad_()
        # a real shift of a complex system (the case the eigen-solver's backward produces; fix F28) every other time
        e_real = dtype.is_complex and rep % 2 == 0
        E = (-0.3 * torch.rand(nc, dtype=torch.float64)).to(torch.float64 if e_real else dtype).requires_grad_() if mode != "none" else None
        S = (0.3 * torch.randn(n, n, dtype=dtype)).requires_grad_()

        def dense_A0():
            return a * Bm + torch.diag_embed(dv)

        def dense_Q():
            return torch.eye(n, dtype=dtype) + 0.2 * Bm

        H0 = torch.randn(n, n, dtype=dtype)
        H0 = 0.2 * (H0 + H0.transpose(-2, -1).conj())

        def dense_A():
            # "hermitian+general": a Hermitian-flagged term plus a general one is NOT Hermitian (seeded defect C02/6)
            if kind == "hermitian+general":
                return H0 + dense_A0()
            # "product": a matrix-free factor times a dense factor (the adjoint of a product reverses the factors;
            # seeded defect C02/3)
            # "shared-tensor-sum": the SAME tensor object held under two parameter names, by two terms of a sum (round-3 seed
            # C02/9: repeated positions of a tensor no longer recorded, and not re-filled on substitution)
            if kind == "shared-tensor-sum":
                return dense_A0() + 0.5 * Bm.transpose(-2, -1)
            return dense_A0() @ dense_Q() if kind == "product" else dense_A0()

        def dense_M():
            return S @ S.transpose(-2, -1).conj() + torch.eye(n, dtype=dtype)

        def make_A():
            if kind == "dense":
                return xt.LinearOperator.m(dense_A(), is_hermitian=False)
            if kind == "matrix-free":
                return MVOp(a, Bm, dv, False)
            if kind == "hermitian+general":
                return xt.LinearOperator.m(H0, is_hermitian=True) + MVOp(a, Bm, dv, False)
            if kind == "product":
                return MVOp(a, Bm, dv, False).matmul(xt.LinearOperator.m(dense_Q(), is_hermitian=False))
            if kind == "shared-tensor-sum":
                return MVOp(a, Bm, dv, False) + TOp(Bm)
            return MVOp(a * 0.5, Bm, dv * 0.5, False) + xt.LinearOperator.m(0.5 * dense_A(), is_hermitian=False)

        def ref():
            Am = dense_A()
            cols = []
            for j in range(nc):
                sh = 0 if E is None else E[j] * (dense_M() if mode == "EM" else torch.eye(n, dtype=dtype))
                cols.append(torch.linalg.solve(Am - sh, Bt[..., j:j + 1])[..., 0])
            return torch.stack(cols, dim=-1)
        leaves = [a, Bm, dv, Bt] + ([E] if E is not None else []) + ([S] if mode == "EM" else []) + [unused]
        Gc = torch.randn(*ba, n, nc, dtype=dtype)

        def grads_of(xfn):
            X = xfn()
            loss = (X * Gc.conj()).sum().real if dtype.is_complex else (X * Gc).sum()
            g1 = torch.autograd.grad(loss, leaves, create_graph=True, allow_unused=True)
            g1z = [torch.zeros_like(l) if g is None else g for g, l in zip(g1, leaves)]
            s = sum((g.abs() ** 2).sum() if dtype.is_complex else (g * g).sum() for g in g1z[:4])
            g2 = torch.autograd.grad(s, leaves, allow_unused=True) if s.requires_grad else [None] * len(leaves)
            g2z = [torch.zeros_like(l) if g is None else g for g, l in zip(g2, leaves)]
            return X.detach(), [g.detach() for g in g1z], [g.detach() for g in g2z], g1
        Xr, r1, r2, _ = grads_of(ref)
        fwd_methods = ["exactsolve", "bicgstab"] if n <= 5 else ["bicgstab"]
        for fwd in fwd_methods:
            for bck in ("exactsolve", "bicgstab"):
                tight = dict(rtol=1e-12, atol=1e-14, max_niter=200)
                info = {"kind": kind, "dtype": str(dtype), "real_E": e_real, "n": n, "ncols": nc, "mode": mode, "A_batch": list(ba), "forward": fwd, "backward": bck}
                try:
                    with warnings.catch_warnings():
                        warnings.simplefilter("ignore")
                        Mop = xt.LinearOperator.m(dense_M(), is_hermitian=True) if mode == "EM" else None
                        X, g1, g2, raw = grads_of(lambda: solve(make_A(), Bt, E, Mop, method=fwd,
                                                                bck_options=dict(method=bck, **(tight if bck != "exactsolve" else {})),
                                                                **(tight if fwd != "exactsolve" else {})))
                except Exception as e:
                    ctx.fail("oracle", "solvegrad:%s:exception" % kind, info, repr(e)[:300], "first and second order gradients")
                    continue
                ctx.count(("oracle", kind, str(dtype), n, nc, mode, tuple(ba), fwd, bck))
                names = ["a", "Bmat", "dvec", "B"] + (["E"] if E is not None else []) + (["S"] if mode == "EM" else []) + ["unused"]
                for nm, x_, y_ in zip(names, g1, r1):
                    if not torch.allclose(x_, y_, rtol=1e-6, atol=1e-8):
                        ctx.fail("oracle", "solvegrad:first-order:%s:%s" % (kind, nm), info, x_, y_)
                        break
                for nm, x_, y_ in zip(names, g2, r2):
                    if not torch.allclose(x_, y_, rtol=1e-5, atol=1e-7):
                        ctx.fail("oracle", "solvegrad:second-order:%s:%s" % (kind, nm), info, x_, y_)
                        break
                if raw[-1] is not None and float(raw[-1].abs().max()) != 0:
                    ctx.fail("oracle", "solvegrad:unused-nonzero", info, raw[-1], "None or zero")
    backward_options_probe(ctx)
    operator_reuse_probe(ctx)
    operator_history_probe(ctx)
    nested_sum_names_probe(ctx)
    substituted_forward_probe(ctx)
    options_snapshot_probe(ctx)
    parameterless_operator_probe(ctx)
    autodetected_hermitian_leaf_probe(ctx)
    nested_backward_options_probe(ctx)
    ignored_M_probe(ctx)


def operator_reuse_probe(ctx):
    """the temporary substitution of the operator's parameters ends with the ORIGINAL tensors back in place (seeded defect
    C02/4: the clones of the pull-back were left in the operator): after a backward pass the operator holds the same
    tensor objects, and a second solve after an in-place update of the leaf sees the update"""
    import xitorch as xt
    from xitorch.linalg import solve

    class MV1(xt.LinearOperator):
        def __init__(self, m):
            super().__init__(shape=m.shape, is_hermitian=False, dtype=m.dtype, device=m.device)
            self.m = m

        def _mv(self, x):
            return torch.matmul(self.m, x.unsqueeze(-1)).squeeze(-1)

        def _getparamnames(self, prefix=""):
            return [prefix + "m"]
    g = torch.Generator().manual_seed(ctx.seed + 41)
    for kind in ("dense", "matrix-free"):
        for meth in ("custom_exactsolve", "bicgstab"):
            M0 = (0.3 * torch.randn(4, 4, dtype=torch.float64, generator=g) + 2 * torch.eye(4, dtype=torch.float64)).requires_grad_()
            Bv = torch.randn(4, 1, dtype=torch.float64, generator=g)
            op = xt.LinearOperator.m(M0, is_hermitian=False) if kind == "dense" else MV1(M0)
            before = [id(p) for p in op.getlinopparams()]
            with warnings.catch_warnings():
                warnings.simplefilter("ignore")
                X1 = solve(op, Bv, method=meth, **({} if meth == "custom_exactsolve" else dict(rtol=1e-12, atol=1e-14)))
                torch.autograd.grad(X1.sum(), M0)
                after = [id(p) for p in op.getlinopparams()]
                with torch.no_grad():
                    M0.mul_(2.0)
                X2 = solve(op, Bv, method=meth, **({} if meth == "custom_exactsolve" else dict(rtol=1e-12, atol=1e-14)))
            ctx.count(("operator-reuse", kind, meth), nontrivial=True)
            info = {"operator": kind, "method": meth}
            if after != before:
                ctx.fail("oracle", "solvegrad:operator-parameters-not-restored", info, "different tensor objects after backward", "the original tensors")
            elif not torch.allclose(X2.detach(), X1.detach() / 2, rtol=1e-8, atol=1e-10):
                ctx.fail("oracle", "solvegrad:operator-reuse-stale", info, float((X2.detach() - X1.detach() / 2).abs().max()),
                         "the second solve uses the updated leaf")


def operator_history_probe(ctx):
    """one operator object used for a SEQUENCE of solves and backward passes of mixed order: every gradient equals the dense
    reference whatever ran before on that object (seeded C02/8: the adjoint operator built for the first backward was cached
    in the operator and carried its graph / its values into later calls)"""
    import xitorch as xt
    from xitorch.linalg import solve

    class MV2(xt.LinearOperator):
        def __init__(self, m):
            super().__init__(shape=m.shape, is_hermitian=False, dtype=m.dtype, device=m.device)
            self.m = m

        def _mv(self, x):
            return torch.matmul(self.m, x.unsqueeze(-1)).squeeze(-1)

        def _getparamnames(self, prefix=""):
            return [prefix + "m"]
    rng = ctx.rng
    g = torch.Generator().manual_seed(ctx.seed + 97)
    n, nc = 4, 2
    for kind in ("dense", "matrix-free", "dense+dense"):
        for meth in ("custom_exactsolve", "bicgstab"):
            M0 = (0.3 * torch.rand(n, n, dtype=torch.float64, generator=g) + 2 * torch.eye(n, dtype=torch.float64)).requires_grad_()
            if kind == "dense":
                op, dense = xt.LinearOperator.m(M0, is_hermitian=False), (lambda: M0)
            elif kind == "matrix-free":
                op, dense = MV2(M0), (lambda: M0)
            else:
                M1 = 0.2 * torch.rand(n, n, dtype=torch.float64, generator=g)
                op, dense = xt.LinearOperator.m(M0, is_hermitian=False) + xt.LinearOperator.m(M1, is_hermitian=False), (lambda: M0 + M1)
            kw = dict(method=meth, bck_options=dict(method=meth))
            if meth != "custom_exactsolve":
                kw.update(rtol=1e-13, atol=1e-15)
                kw["bck_options"].update(rtol=1e-13, atol=1e-15)
            orders = [rng.choice([1, 2]) for _ in range(ctx.n(3, 6))]
            if 2 not in orders[1:]:
                orders[-1] = 2
            for step, order in enumerate(orders):
                Bv = torch.rand(n, nc, dtype=torch.float64, generator=g).requires_grad_()
                cot = torch.rand(n, nc, dtype=torch.float64, generator=g)
                cot2 = torch.rand(n, n, dtype=torch.float64, generator=g)

                def grads(xf):
                    gA, = torch.autograd.grad((xf() * cot).sum(), M0, create_graph=order == 2)
                    if order == 1:
                        return (gA,)
                    return (gA.detach(),) + tuple(torch.autograd.grad((gA * cot2).sum(), (M0, Bv)))
                info = {"operator": kind, "method": meth, "orders_so_far": orders[:step + 1]}
                try:
                    with warnings.catch_warnings():
                        warnings.simplefilter("ignore")
                        got = grads(lambda: solve(op, Bv, **kw))
                except Exception as e:
                    ctx.fail("oracle", "solvegrad:operator-history:exception", info, repr(e)[:200], "gradients")
                    break
                ref = grads(lambda: torch.linalg.solve(dense(), Bv))
                ctx.count(("operator-history", kind, meth, tuple(orders[:step + 1])), nontrivial=True)
                tol = 1e-8 if meth == "custom_exactsolve" else 1e-6
                bad = [i for i, (a, r) in enumerate(zip(got, ref)) if not (a - r).abs().max() <= tol * (1 + r.abs().max())]
                if bad:
                    ctx.fail("oracle", "solvegrad:operator-history:%s" % ("first-order" if bad[0] == 0 else "second-order"), info,
                             {"max_diff": [float((a - r).abs().max()) for a, r in zip(got, ref)]}, "the dense reference, whatever ran before")
                    break


def nested_sum_names_probe(ctx):
    """sums of several matrix-free operators of ONE class (their parameters have the same attribute name): every operand's tensor
    reaches the backward pass under its own prefixed name (round-4 seeds C02/12, C06/12: the prefix of the right operand of a sum)"""
    import xitorch as xt
    from xitorch.linalg import solve

    class P(xt.LinearOperator):
        def __init__(self, w):
            super().__init__(shape=w.shape, is_hermitian=False, dtype=w.dtype, device=w.device)
            self.w = w

        def _mv(self, x):
            return torch.matmul(self.w, x.unsqueeze(-1)).squeeze(-1)

        def _getparamnames(self, prefix=""):
            return [prefix + "w"]
    g = torch.Generator().manual_seed(ctx.seed + 113)
    n = 4
    for shape_name, build in (("(p1 + p2) + p3", lambda a, b, c: (P(a) + P(b)) + P(c)), ("p1 + (p2 - p3)", lambda a, b, c: P(a) + (P(b) - P(c))),
                              ("(p1 - p2) @ p3", lambda a, b, c: (P(a) - P(b)).matmul(P(c)))):
        for meth in ("custom_exactsolve", "bicgstab"):
            ws = [(0.2 * torch.randn(n, n, dtype=torch.float64, generator=g) + (2.0 if i == 0 else 0.0) * torch.eye(n, dtype=torch.float64)).requires_grad_()
                  for i in range(3)]
            if "@" in shape_name:
                with torch.no_grad():
                    ws[2].add_(torch.eye(n, dtype=torch.float64))
            Bv = torch.randn(n, 2, dtype=torch.float64, generator=g)
            dense = {"(p1 + p2) + p3": lambda: ws[0] + ws[1] + ws[2], "p1 + (p2 - p3)": lambda: ws[0] + ws[1] - ws[2],
                     "(p1 - p2) @ p3": lambda: (ws[0] - ws[1]) @ ws[2]}[shape_name]
            kw = dict(method=meth, bck_options=dict(method=meth))
            if meth == "bicgstab":
                kw.update(rtol=1e-13, atol=1e-15)
                kw["bck_options"].update(rtol=1e-13, atol=1e-15)
            try:
                with warnings.catch_warnings():
                    warnings.simplefilter("ignore")
                    X = solve(build(*ws), Bv, **kw)
                    got = torch.autograd.grad((X * X).sum(), ws, allow_unused=True)
            except Exception as e:
                ctx.fail("oracle", "solvegrad:nested-operands-of-one-class:exception", {"expression": shape_name, "method": meth}, repr(e)[:200], "gradients")
                continue
            Xr = torch.linalg.solve(dense(), Bv)
            ref = torch.autograd.grad((Xr * Xr).sum(), ws)
            ctx.count(("nested-sum-names", shape_name, meth), nontrivial=True)
            for i, (a_, r_) in enumerate(zip(got, ref)):
                if a_ is None or not torch.allclose(a_, r_, rtol=1e-6, atol=1e-8):
                    ctx.fail("oracle", "solvegrad:nested-operands-of-one-class:p%d" % (i + 1), {"expression": shape_name, "method": meth},
                             None if a_ is None else float((a_ - r_).abs().max()), "the gradient w.r.t. every operand's tensor")
                    break


def substituted_forward_probe(ctx):
    """the forward solve runs while the operator temporarily holds OTHER tensors (with A.uselinopparams(W): ..., as xitorch's own
    functionals do), or the operator object is given another matrix between the forward call and the backward pass: the backward
    pass differentiates the system that was SOLVED (round-4 seed C02/10: the adjoint operator taken from the operator's current
    contents instead of the saved parameters)"""
    import xitorch as xt
    from xitorch.linalg import solve
    g = torch.Generator().manual_seed(ctx.seed + 131)
    n = 4
    for meth in ("custom_exactsolve", "bicgstab"):
        for scenario in ("uselinopparams", "matrix-reassigned"):
            W0 = (0.3 * torch.randn(n, n, dtype=torch.float64, generator=g) + 2 * torch.eye(n, dtype=torch.float64))
            W = (0.3 * torch.randn(n, n, dtype=torch.float64, generator=g) + 3 * torch.eye(n, dtype=torch.float64)).requires_grad_()
            Bv = torch.randn(n, 2, dtype=torch.float64, generator=g).requires_grad_()
            kw = dict(method=meth, bck_options=dict(method=meth))
            if meth == "bicgstab":
                kw.update(rtol=1e-13, atol=1e-15)
                kw["bck_options"].update(rtol=1e-13, atol=1e-15)
            try:
                with warnings.catch_warnings():
                    warnings.simplefilter("ignore")
                    if scenario == "uselinopparams":
                        op = xt.LinearOperator.m(W0.clone(), is_hermitian=False)
                        with op.uselinopparams(W):
                            X = solve(op, Bv, **kw)
                    else:
                        op = xt.LinearOperator.m(W, is_hermitian=False)
                        X = solve(op, Bv, **kw)
                        op.mat = W0.clone()
                    gW, gB = torch.autograd.grad((X * X).sum(), (W, Bv))
            except Exception as e:
                ctx.fail("oracle", "solvegrad:forward-under-substitution:exception", {"scenario": scenario, "method": meth}, repr(e)[:200], "gradients")
                continue
            Xr = torch.linalg.solve(W, Bv)
            rW, rB = torch.autograd.grad((Xr * Xr).sum(), (W, Bv))
            ctx.count(("forward-under-substitution", scenario, meth), nontrivial=True)
            if not torch.allclose(gW, rW, rtol=1e-6, atol=1e-8) or not torch.allclose(gB, rB, rtol=1e-6, atol=1e-8):
                ctx.fail("oracle", "solvegrad:forward-under-substitution:%s" % scenario, {"scenario": scenario, "method": meth},
                         {"max_diff_W": float((gW - rW).abs().max()), "max_diff_B": float((gB - rB).abs().max())},
                         "the gradient of the system that was solved")


def backward_options_probe(ctx):
    """regardless 'of the backward options': a callable given as the backward method is the solver of the adjoint system
    (first order) and of the systems met when the backward pass is differentiated (seeded defect C04/3)"""
    import xitorch as xt
    from xitorch.linalg import solve
    from xitorch._impls.linalg.solve import exactsolve
    calls = {"fwd": 0, "bck": 0}

    def mk(tag):
        def f(A, B, E=None, M=None, **unused):
            calls[tag] += 1
            return exactsolve(A, B, E, M)
        return f
    for n in (3, 8):
        g = torch.Generator().manual_seed(ctx.seed + 17 * n)
        Am = (0.3 * torch.randn(n, n, dtype=torch.float64, generator=g) + 2.0 * torch.eye(n, dtype=torch.float64)).requires_grad_()
        Bm = torch.randn(n, 2, dtype=torch.float64, generator=g).requires_grad_()
        calls["fwd"] = calls["bck"] = 0
        X = solve(xt.LinearOperator.m(Am, is_hermitian=False), Bm, method=mk("fwd"), bck_options={"method": mk("bck")})
        f0, b0 = calls["fwd"], calls["bck"]
        g1 = torch.autograd.grad(X.sum(), (Am, Bm), create_graph=True)
        b1 = calls["bck"]
        torch.autograd.grad((g1[0] ** 2).sum() + (g1[1] ** 2).sum(), (Am, Bm))
        b2 = calls["bck"]
        ctx.count(("bck-options", n), nontrivial=True)
        info = {"n": n, "method": "<callable>", "bck_options": "{'method': <callable>}"}
        if f0 != 1 or b0 != 0 or b1 - b0 < 1 or calls["fwd"] != 1:
            ctx.fail("oracle", "solvegrad:backward-method-ignored:first-order", info,
                     {"forward_solver_calls": calls["fwd"], "backward_solver_calls_in_first_backward": b1 - b0},
                     "forward solver once in the forward pass, backward solver in the backward pass")
        elif b2 - b1 < 1:
            ctx.fail("oracle", "solvegrad:backward-method-ignored:second-order", info, {"backward_solver_calls": b2 - b1},
                     "the backward solver also runs when the backward pass is differentiated")


def options_snapshot_probe(ctx):
    """the backward pass runs with the options as they were GIVEN at the call: a caller who keeps one options dictionary and changes an
    entry after the forward call (a looser tolerance for the next solve, another method) does not change the gradients of the earlier
    result, and solve does not write into the caller's dictionaries (round-5 seed C02/14: the context kept the caller's bck_options
    dictionary itself instead of a copy)"""
    import xitorch as xt
    from xitorch.linalg import solve
    g = torch.Generator().manual_seed(ctx.seed + 71)
    n = 6
    A0 = torch.randn(n, n, dtype=DT, generator=g) * 0.3 + 3.0 * torch.eye(n, dtype=DT)
    B0 = torch.randn(n, 2, dtype=DT, generator=g)
    for fwd_method, bck_method in (("bicgstab", "bicgstab"), ("exactsolve", "cg"), ("cg", "bicgstab")):
        outs = []
        for mutate in (False, True):
            A = A0.clone().requires_grad_()
            B = B0.clone().requires_grad_()
            bck = {"method": bck_method, "rtol": 1e-12, "atol": 1e-14}
            fwd = {"rtol": 1e-12, "atol": 1e-14} if fwd_method != "exactsolve" else {}
            bck_before, fwd_before = dict(bck), dict(fwd)
            with warnings.catch_warnings():
                warnings.simplefilter("ignore")
                X = solve(xt.LinearOperator.m(A, is_hermitian=False), B, method=fwd_method, bck_options=bck, **fwd)
                untouched = bck == bck_before and fwd == fwd_before
                if mutate:
                    bck["rtol"] = 0.5
                    bck["atol"] = 0.5
                    bck["max_niter"] = 1
                gA, gB = torch.autograd.grad((X * X).sum(), (A, B))
            outs.append((gA, gB, untouched))
        ctx.count(("options-snapshot", fwd_method, bck_method), nontrivial=True)
        info = {"fwd_method": fwd_method, "bck_options": {"method": bck_method, "rtol": 1e-12, "atol": 1e-14},
                "changed_after_the_forward_call": {"rtol": 0.5, "atol": 0.5, "max_niter": 1}}
        if not (outs[0][2] and outs[1][2]):
            ctx.fail("oracle", "solvegrad:options:callers-dictionary-modified", info, "modified", "solve leaves the caller's option dictionaries alone")
        d = max(float((outs[0][0] - outs[1][0]).abs().max()), float((outs[0][1] - outs[1][1]).abs().max()))
        if not d == 0.0:
            ctx.fail("oracle", "solvegrad:options:changed-after-the-call", info, {"max_gradient_difference": d},
                     "bitwise the gradients obtained when the dictionary is left alone")


def parameterless_operator_probe(ctx):
    """operators WITHOUT tensor parameters (a fixed stencil: _getparamnames returns []) for A and / or M: the gradients w.r.t. B and E
    are those of the dense solution map (finding F43: the backward pass asked autograd for gradients w.r.t. an empty list)"""
    import xitorch as xt
    from xitorch.linalg import solve
    g = torch.Generator().manual_seed(ctx.seed + 73)

    class Fixed(xt.LinearOperator):
        def __init__(self, mat, herm):
            super().__init__(shape=mat.shape, is_hermitian=herm, dtype=mat.dtype, device=mat.device)
            self.mat = mat.detach()

        def _mv(self, x):
            return (self.mat @ x.unsqueeze(-1)).squeeze(-1)

        def _getparamnames(self, prefix=""):
            return []
    n = 5
    A0 = torch.randn(n, n, dtype=DT, generator=g) * 0.3 + 3.0 * torch.eye(n, dtype=DT)
    Mh = torch.randn(n, n, dtype=DT, generator=g) * 0.2
    M0 = Mh @ Mh.T + torch.eye(n, dtype=DT)
    for useE, useM, fixedA, fixedM in ((False, False, True, False), (True, False, True, False), (True, True, True, True), (True, True, False, True)):
        A = A0.clone().requires_grad_()
        B = torch.randn(n, 2, dtype=DT, generator=g).requires_grad_()
        E = (torch.randn(2, dtype=DT, generator=g) * 0.1).requires_grad_() if useE else None
        Aop = Fixed(A, False) if fixedA else xt.LinearOperator.m(A, is_hermitian=False)
        Mop = (Fixed(M0, True) if fixedM else xt.LinearOperator.m(M0, is_hermitian=True)) if useM else None
        info = {"A": "no parameters" if fixedA else "dense", "M": None if not useM else ("no parameters" if fixedM else "dense"), "E": useE}
        ctx.count(("parameterless-operator", useE, useM, fixedA, fixedM), nontrivial=True)
        leaves = [B] + ([E] if useE else []) + ([] if fixedA else [A])
        try:
            with warnings.catch_warnings():
                warnings.simplefilter("ignore")
                X = solve(Aop, B, E, Mop, method="bicgstab", rtol=1e-12, atol=1e-14, bck_options={"method": "bicgstab", "rtol": 1e-12, "atol": 1e-14})
                got = torch.autograd.grad((X * X).sum(), leaves)
        except Exception as e:
            ctx.fail("oracle", "solvegrad:parameterless-operator:exception", info, repr(e)[:300], "gradients w.r.t. B and E")
            continue
        cols = []
        for c_ in range(2):
            Sc = A - (E[c_] * (M0 if useM else torch.eye(n, dtype=DT)) if useE else 0.0)
            cols.append(torch.linalg.solve(Sc, B[:, c_]))
        Xr = torch.stack(cols, dim=-1)
        ref = torch.autograd.grad((Xr * Xr).sum(), leaves)
        err = max(float((u - w).abs().max()) for u, w in zip(got, ref))
        if not err <= 1e-7:
            ctx.fail("oracle", "solvegrad:parameterless-operator:value", info, err, "<= 1e-7 against the dense solution map")


def autodetected_hermitian_leaf_probe(ctx):
    """LinearOperator.m(A) with the default is_hermitian=None on an UNCONSTRAINED leaf A that happens to be symmetric at the evaluation
    point: gradients are those of the solution map of a general matrix, first and second order (finding F44: the flag is detected
    from the values, A.H then is A itself and the backward solve is recorded as a function of A instead of A^T - first order agrees,
    the second-order gradient in a non-symmetric direction does not)"""
    import xitorch as xt
    from xitorch.linalg import solve
    g = torch.Generator().manual_seed(ctx.seed + 79)
    n = 3
    S = torch.randn(n, n, dtype=DT, generator=g)
    S = (S + S.T) / 2 + 3.0 * torch.eye(n, dtype=DT)
    B0 = torch.randn(n, 1, dtype=DT, generator=g)
    w = torch.randn(n, n, dtype=DT, generator=g)

    def grads(make_x):
        A = S.clone().requires_grad_()
        B = B0.clone().requires_grad_()
        X = make_x(A, B)
        gA, = torch.autograd.grad((X * X).sum(), A, create_graph=True)
        g2, = torch.autograd.grad((gA * w).sum(), A)
        return gA.detach(), g2
    r1, r2 = grads(lambda A, B: torch.linalg.solve(A, B))
    for method in ("custom_exactsolve", "bicgstab"):
        for flag in (None, False):
            kw = {"rtol": 1e-13, "atol": 1e-15} if method == "bicgstab" else {}
            ctx.count(("autodetected-hermitian-leaf", method, flag), nontrivial=True)
            with warnings.catch_warnings():
                warnings.simplefilter("ignore")
                g1, g2 = grads(lambda A, B: solve(xt.LinearOperator.m(A, is_hermitian=flag), B, method=method,
                                                  bck_options=dict(kw, method=method), **kw))
            e1, e2 = float((g1 - r1).abs().max()), float((g2 - r2).abs().max())
            info = {"method": method, "is_hermitian": flag, "A": "unconstrained leaf, symmetric at the evaluation point", "n": n}
            if not e1 <= 1e-9:
                ctx.fail("oracle", "solvegrad:symmetric-valued-leaf:first-order", info, e1, "<= 1e-9")
            elif not e2 <= 1e-8:
                ctx.fail("oracle", "solvegrad:second-order:autodetected-hermitian-leaf" if flag is None else "solvegrad:symmetric-valued-leaf:second-order",
                         info, {"second_order_error": e2}, "<= 1e-8 against torch.linalg.solve")


def nested_backward_options_probe(ctx):
    """the backward options reach EVERY level: the adjoint solve recorded by a create_graph backward pass is itself differentiated with
    the caller's bck_options.  A matrix-free, skew-dominant 8x8 operator whose adjoint system the default Krylov method does not
    solve, bck_options = custom_exactsolve: second-order gradients equal those of the dense solution map (round-6 seed C02/15: the
    nested solve call lost bck_options and fell back to the default method)"""
    import xitorch as xt
    from xitorch.linalg import solve
    g = torch.Generator().manual_seed(ctx.seed + 101)

    class MatFree(xt.LinearOperator):
        def __init__(self, mat):
            super().__init__(shape=mat.shape, is_hermitian=False, dtype=mat.dtype, device=mat.device)
            self.mat = mat

        def _mv(self, x):
            return torch.matmul(self.mat, x.unsqueeze(-1)).squeeze(-1)

        def _getparamnames(self, prefix=""):
            return [prefix + "mat"]
    n = 8
    s0 = torch.randn(n, n, dtype=DT, generator=g)
    A0 = (s0 - s0.T) * 0.5 + 0.05 * torch.eye(n, dtype=DT)
    B0 = torch.randn(n, 2, dtype=DT, generator=g)
    w = torch.randn(n, 2, dtype=DT, generator=g)
    rnd = [torch.randn(n, n, dtype=DT, generator=g), torch.randn(n, 2, dtype=DT, generator=g)]

    def second(xf):
        A = A0.clone().requires_grad_()
        B = B0.clone().requires_grad_()
        X = xf(A, B)
        g1 = torch.autograd.grad((X * w).sum(), (A, B), create_graph=True)
        h = torch.autograd.grad(sum((t * r).sum() for t, r in zip(g1, rnd)), (A, B))
        return [t.detach() for t in g1] + list(h)
    ctx.count(("nested-backward-options",), nontrivial=True)
    try:
        with warnings.catch_warnings():
            warnings.simplefilter("ignore")
            ref = second(lambda A, B: torch.linalg.solve(A, B))
            got = second(lambda A, B: solve(MatFree(A), B, method="custom_exactsolve", bck_options={"method": "custom_exactsolve"}))
    except Exception as e:
        ctx.fail("oracle", "solvegrad:nested-backward-options:exception", {}, repr(e)[:300], "second-order gradients")
        return
    rel = [float((r - t).abs().max() / r.abs().max()) for r, t in zip(ref, got)]
    if not max(rel) <= 1e-6:
        ctx.fail("oracle", "solvegrad:nested-backward-options", {"operator": "matrix-free, skew-symmetric + 0.05 I, 8x8", "bck_options": {"method": "custom_exactsolve"}},
                 {"relative_deviation [dA, dB, d2A, d2B]": rel}, "<= 1e-6 against torch.linalg.solve")


def ignored_M_probe(ctx):
    """solve(A, B, M=M) WITHOUT E is documented ("If E is None, then this argument is ignored"): X = A^-1 B, the gradients w.r.t. A and B
    are those of that map and the tensors of M receive no (or a zero) gradient - for the direct and the implicit backward alike
    (finding F46: the implicit backward returned one gradient slot too few and autograd raised)"""
    import xitorch as xt
    from xitorch.linalg import solve
    g = torch.Generator().manual_seed(ctx.seed + 103)
    n = 4
    A0 = torch.randn(n, n, dtype=DT, generator=g) * 0.3 + 3.0 * torch.eye(n, dtype=DT)
    Mh = torch.randn(n, n, dtype=DT, generator=g)
    M0 = Mh @ Mh.T + n * torch.eye(n, dtype=DT)
    B0 = torch.randn(n, 2, dtype=DT, generator=g)
    for meth in ("exactsolve", "custom_exactsolve", "bicgstab", "cg"):
        A = A0.clone().requires_grad_()
        Mm = M0.clone().requires_grad_()
        B = B0.clone().requires_grad_()
        kw = {"rtol": 1e-12, "atol": 1e-14, "bck_options": {"rtol": 1e-12, "atol": 1e-14}} if meth in ("bicgstab", "cg") else {}
        ctx.count(("M-without-E", meth), nontrivial=True)
        try:
            with warnings.catch_warnings():
                warnings.simplefilter("ignore")
                X = solve(xt.LinearOperator.m(A, is_hermitian=False), B, M=xt.LinearOperator.m(Mm, is_hermitian=True), method=meth, **kw)
                gA, gB, gM = torch.autograd.grad((X * X).sum(), (A, B, Mm), allow_unused=True)
        except Exception as e:
            ctx.fail("oracle", "solvegrad:M-without-E:exception", {"method": meth}, repr(e)[:300], "gradients w.r.t. A and B, none for M")
            continue
        A1 = A0.clone().requires_grad_()
        B1 = B0.clone().requires_grad_()
        Xr = torch.linalg.solve(A1, B1)
        rA, rB = torch.autograd.grad((Xr * Xr).sum(), (A1, B1))
        err = max(float((gA - rA).abs().max()), float((gB - rB).abs().max()), 0.0 if gM is None else float(gM.abs().max()))
        if not err <= 1e-7:
            ctx.fail("oracle", "solvegrad:M-without-E:value", {"method": meth}, err, "<= 1e-7 (and no gradient for M)")


def search(ctx):
    oracle(ctx)

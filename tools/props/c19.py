"""C19 — calls do not keep tensors alive after their results are dropped.

Tie (model vs interpreter, exact): Model/RefGraph.v (reference-count reclamation on a finite reference graph).
  While a functional runs, the library's own long-lived helper objects are captured (quasi-Newton Jacobian models,
  adaptive Runge-Kutta solvers, Jacobian operators, pure-function wrappers, linear operators); after the call their
  Python-level reference graph (gc.get_referents over the objects created during the call) is extracted, the model
  computes which of them survive when the last outside reference is dropped, and that set is compared with the objects
  that are really still alive (weak references, cyclic collector disabled).  A graph with no survivors must also
  pass the rank certificate that the theorem needs.
Oracle (implementation only, the project's own criterion with the cyclic collector disabled): number of live
  torch.Tensor objects before and after k calls, for every functional x method x function kind x history
  {forward; forward+backward; forward+backward recorded for double backward}."""
from __future__ import annotations
import gc, sys, warnings, weakref, types
import torch
from vlib import cnat, clist, coq_nat_cases

RULE = ("tie: helper objects captured in {rootfinder broyden1/broyden2/linearmixing, equilibrium anderson, solve_ivp rk23/rk45, "
        "jac/hess operators, solve with composed operators, symeig davidson} x function kinds; distinct = (functional, method, kind, "
        "captured class); non-trivial = the graph has >= 3 nodes. Oracle: functionals x methods x kinds {pure, nn.Module, explicit + "
        "object parameter} x histories x k = 3 repetitions")
TRUSTED = ["harness tools/props/c19.py (capture hooks on class constructors / setup methods, gc.get_referents, weak references)",
           "references held on the C++ side (autograd nodes, saved tensors) are invisible to gc.get_referents: they are covered by the "
           "live-tensor count of the oracle, not by the graph model"]
ASSUMPTIONS = ["CPython frees an object when its reference count reaches zero (the model's sweep); the cyclic collector is disabled "
               "during every measurement"]
HEADER = ("From Coq Require Import List.\nImport ListNotations.\n"
          "From XV Require Import Model.RefGraph Model.RefGraphRun.\n")
DT = torch.float64
SKIP_TYPES = (type, types.ModuleType, types.BuiltinFunctionType, types.CodeType, types.FrameType, types.MethodDescriptorType,
              types.WrapperDescriptorType, types.GetSetDescriptorType, types.MemberDescriptorType)


def ntensors():
    return sum(1 for o in gc.get_objects() if isinstance(o, torch.Tensor))


# ---------------------------------------------------------------- capture of helper objects
class Capture:
    """records `self` of the library's helper classes while active"""
    def __init__(self):
        self.objs = []
        self.undo = []

    def hook(self, cls, meth):
        orig = cls.__dict__[meth]
        objs = self.objs

        def wrapper(self_, *a, **k):
            if not any(o is self_ for o in objs):
                objs.append(self_)
            return orig(self_, *a, **k)
        setattr(cls, meth, wrapper)
        self.undo.append((cls, meth, orig))

    def __enter__(self):
        from xitorch._impls.optimize.root import _jacobian as J
        from xitorch._impls.integrate.ivp import adaptive_rk as R
        from xitorch.grad import jachess as H
        from xitorch._core import pure_function as P
        from xitorch._core import linop as L
        for cls in (J.BroydenFirst, J.BroydenSecond, J.LinearMixing):
            if "setup" in cls.__dict__:
                self.hook(cls, "setup")
        self.hook(J.LowRankMatrix, "__init__")
        self.hook(R.RKAdaptiveStepSolver, "setup")
        self.hook(H._Jac, "__init__")
        self.hook(P.PureFunction, "__init__")
        self.hook(L.LinearOperator, "__init__")
        return self

    def __exit__(self, *exc):
        for cls, meth, orig in self.undo:
            setattr(cls, meth, orig)
        self.undo = []


def extract_graph(subjects, pre_ids, exclude_ids):
    """Python-level reference graph of the objects created after the snapshot, reachable from the subjects"""
    nodes, index, edges = [], {}, {}
    stack = list(subjects)
    for s in subjects:
        if id(s) not in index:
            index[id(s)] = len(nodes)
            nodes.append(s)
    while stack:
        o = stack.pop()
        i = index[id(o)]
        out = []
        for r in gc.get_referents(o):
            if isinstance(r, SKIP_TYPES) or id(r) in pre_ids or id(r) in exclude_ids or not gc.is_tracked(r) and not isinstance(r, torch.Tensor):
                continue
            if id(r) not in index:
                index[id(r)] = len(nodes)
                nodes.append(r)
                stack.append(r)
            out.append(index[id(r)])
        edges[i] = sorted(set(out))
    return nodes, edges


def topo_rank(n, edges):
    """rank increasing along edges, or None when the graph has a cycle"""
    indeg = [0] * n
    for u in range(n):
        for v in edges.get(u, []):
            indeg[v] += 1
    rank, cur, k, seen = [0] * n, [u for u in range(n) if indeg[u] == 0], 0, 0
    while cur:
        nxt = []
        for u in cur:
            rank[u] = k
            seen += 1
            for v in edges.get(u, []):
                indeg[v] -= 1
                if indeg[v] == 0:
                    nxt.append(v)
        cur, k = nxt, k + 1
    return rank if seen == n else None


def find_cycle(n, edges):
    color, path = [0] * n, []

    def dfs(u):
        color[u] = 1
        path.append(u)
        for v in edges.get(u, []):
            if color[v] == 1:
                return path[path.index(v):]
            if color[v] == 0:
                c = dfs(v)
                if c:
                    return c
        color[u] = 2
        path.pop()
        return None
    for s in range(n):
        if color[s] == 0:
            c = dfs(s)
            if c:
                return c
    return None


def scenarios():
    import xitorch as xt
    from xitorch.optimize import rootfinder, equilibrium, minimize
    from xitorch.integrate import solve_ivp, quad
    from xitorch.linalg import solve, symeig
    from xitorch.grad import jac, hess
    a = torch.tensor([0.7, 1.1, 0.4], dtype=DT, requires_grad=True)
    b = torch.tensor([0.2, -0.3, 0.5], dtype=DT, requires_grad=True)
    y0 = torch.zeros(3, dtype=DT)

    class EM(xt.EditableModule):
        def __init__(self):
            self.a, self.b = a, b

        def root(self, y):
            return y ** 3 + self.a * y - self.b

        def fix(self, y):
            return 0.3 * torch.cos(y) * self.a + 0.2 * self.b

        def rhs(self, t, y):
            return -self.a * y + self.b * t

        def getparamnames(self, methodname, prefix=""):
            return [prefix + "a", prefix + "b"]
    em = EM()
    mat = (torch.eye(3, dtype=DT) * 3 + 0.1 * torch.ones(3, 3, dtype=DT)).requires_grad_()
    out = []
    for meth in ("broyden1", "broyden2", "linearmixing"):
        out.append(("rootfinder", meth, "pure", lambda m=meth: rootfinder(lambda y, a, b: y ** 3 + a * y - b, y0, params=(a, b), method=m)))
        out.append(("rootfinder", meth, "EditableModule", lambda m=meth: rootfinder(em.root, y0, method=m)))
    out.append(("rootfinder", "broyden1 max_rank=2", "pure", lambda: rootfinder(lambda y, a, b: y ** 3 + a * y - b, y0, params=(a, b), method="broyden1", max_rank=2)))
    out.append(("equilibrium", "anderson_acc", "EditableModule", lambda: equilibrium(em.fix, y0, method="anderson_acc")))
    out.append(("minimize", "broyden1", "pure", lambda: minimize(lambda y, a, b: (0.5 * a * y ** 2 - b * y + 0.1 * y ** 4).sum(), y0, params=(a, b), method="broyden1")))
    for meth in ("rk45", "rk23"):
        out.append(("solve_ivp", meth, "pure", lambda m=meth: solve_ivp(lambda t, y, a, b: -a * y + b * t, torch.linspace(0, 1, 3, dtype=DT), torch.ones(3, dtype=DT), params=(a, b), method=m)))
        out.append(("solve_ivp", meth, "EditableModule", lambda m=meth: solve_ivp(em.rhs, torch.linspace(1, 0, 3, dtype=DT), torch.ones(3, dtype=DT), method=m)))
    out.append(("jac", "mv", "EditableModule", lambda: jac(em.root, (torch.ones(3, dtype=DT, requires_grad=True),), idxs=0).mv(torch.ones(3, dtype=DT))))
    out.append(("hess", "mv", "pure", lambda: hess(lambda x, a: (a * x ** 3).sum(), (torch.ones(3, dtype=DT, requires_grad=True), a), idxs=0).mv(torch.ones(3, dtype=DT))))
    out.append(("solve", "bicgstab composed", "dense", lambda: solve((xt.LinearOperator.m(mat) * 2 + xt.LinearOperator.m(mat).H), torch.ones(3, 1, dtype=DT), method="bicgstab")))
    out.append(("symeig", "davidson", "dense", lambda: symeig(xt.LinearOperator.m((mat + mat.T) / 2, is_hermitian=True), 1, method="davidson")[0]))
    out.append(("quad", "leggauss", "EditableModule", lambda: quad(lambda x: em.fix(x.reshape(-1, 1).expand(-1, 3)).sum(-1), 0.0, 1.0, n=8)))
    return out, [a, b, y0, mat, em]


def tie(ctx):
    cases, meta = [], []
    scen, keep = scenarios()
    for fn_name, meth, kind, call in scen:
        with warnings.catch_warnings():
            warnings.simplefilter("ignore")
            call()                                   # warm-up: lazily created module-level state
        gc.collect()
        gc.disable()
        try:
            pre_ids = {id(o) for o in gc.get_objects()}
            cap = Capture()
            with cap, warnings.catch_warnings():
                warnings.simplefilter("ignore")
                res = call()
            del res
            subjects = cap.objs
            if not subjects:
                ctx.stat("tie_no_helper_object:%s" % fn_name)
                continue
            nodes, edges = extract_graph(subjects, pre_ids, {id(subjects), id(cap), id(cap.__dict__)})
            n = len(nodes)
            refs = {}
            for i, o in enumerate(nodes):
                try:
                    refs[i] = weakref.ref(o)
                except TypeError:
                    pass
            kinds = [type(o).__name__ for o in nodes]
            tensor_nodes = [i for i, o in enumerate(nodes) if isinstance(o, torch.Tensor)]
            del nodes, o
            subjects.clear()
            del subjects
            cap.objs = []
            alive = sorted(i for i, r in refs.items() if r() is not None)
        finally:
            gc.enable()
        rank = topo_rank(n, edges)
        info = {"functional": fn_name, "method": meth, "function_kind": kind, "nodes": n, "tensor_nodes": len(tensor_nodes),
                "classes": sorted(set(kinds))[:12]}
        cases.append("graph_code %s %s %s %s" % (
            clist(["(%d, %s)" % (u, clist([str(v) for v in edges.get(u, [])])) for u in range(n)]),
            clist([str(r) for r in (rank if rank is not None else [0] * n)]), clist([str(i) for i in sorted(refs)]),
            clist([str(i) for i in alive])))
        cyc = None if rank is not None else find_cycle(n, edges)
        info["cycle"] = None if cyc is None else [kinds[i] for i in cyc]
        info["alive_classes"] = sorted(set(kinds[i] for i in alive))
        meta.append(info)
        ctx.count(("tie", fn_name, meth, kind), nontrivial=n >= 3)
        ctx.stat("tie_graphs")
        gc.collect()
    res, errors = coq_nat_cases("c19", HEADER, cases, chunk=6)
    for e_ in errors:
        ctx.broken("correspondence:refgraph", e_)
    for i, r in enumerate(res):
        if r == 1:
            ctx.coverage["traces_validated_against_impl"] += 1
        elif r == 2:
            ctx.coverage["traces_validated_against_impl"] += 1
            ctx.fail("oracle", "leak:helper-objects-in-a-reference-cycle:%s:%s" % (meta[i]["functional"], meta[i]["method"].split()[0]),
                     meta[i], {"alive_after_dropping_every_reference": meta[i]["alive_classes"], "cycle": meta[i]["cycle"]},
                     "reclaimed by reference counting")
        elif r is not None:
            ctx.broken("correspondence:refgraph", {"case": meta[i], "code": r,
                       "meaning": "0: the model's survivors differ from the objects really alive; 3: no rank certificate"})
    if len(ctx.coverage["samples"]) < 3:
        for m in meta[:3]:
            ctx.sample({k: m[k] for k in ("functional", "method", "function_kind", "nodes", "tensor_nodes")})
    del keep


# ---------------------------------------------------------------- oracle: live-tensor counts
def oracle(ctx):
    import workloads as WL
    import fkinds
    import xitorch as xt
    from xitorch.linalg import solve, symeig
    from xitorch.optimize import rootfinder, equilibrium, minimize
    from xitorch.integrate import solve_ivp

    def measure(once, reps=3, warmup=True):
        with warnings.catch_warnings():
            warnings.simplefilter("ignore")
            if warmup:
                once()
            gc.collect()
            gc.disable()
            try:
                n0 = ntensors()
                for _ in range(reps):
                    once()
                n1 = ntensors()
            finally:
                gc.enable()
            gc.collect()
            n2 = ntensors()
        return n1 - n0, n2 - n0

    def histories(make_out, leaves, name, info):
        # (the recorded backward whose gradient is simply dropped - no second backward that would free the recorded graph - is a
        # history of its own: round-4 seed C19/10 leaked only there)
        for hist in ("forward", "forward+backward", "forward+backward(create_graph)", "forward+backward(create_graph)+backward"):
            def once():
                out = make_out()
                if hist == "forward":
                    return
                lv = [l for l in leaves if l.requires_grad]
                g = torch.autograd.grad(out.sum(), lv, create_graph=(hist != "forward+backward"), allow_unused=True)
                if hist == "forward+backward(create_graph)+backward":
                    s = sum((x * x).sum() for x in g if x is not None)
                    if s.requires_grad:
                        torch.autograd.grad(s, lv, allow_unused=True)
            try:
                grow, perm = measure(once)
            except Exception as ex:
                ctx.fail("oracle", "leak:%s:exception" % name, dict(info, history=hist), repr(ex)[:200], "runs")
                continue
            ctx.count(("leak", name, hist, str(info)), nontrivial=True)
            if grow != 0 or perm != 0:
                ctx.fail("oracle", "leak:%s" % name, dict(info, history=hist, repetitions=3),
                         {"live_tensors_gained_without_gc": grow, "still_alive_after_gc_collect": perm}, "no tensor outlives the call")
                break
    # functionals x function kinds (shared workloads)
    for w in WL.WORKLOADS:
        if w.name in ("rootfinder_7_unknowns", "hess_solve_cg") and not ctx.thorough():
            continue
        for kind in ("pure", "nn", "explicit_plus_object"):
            t1, t2 = WL.leaves(0)
            vs = fkinds.variants(w.F, t1, t2, extra_first=w.extra_first, which=[kind])
            if not vs:
                continue
            v = vs[0]
            histories(lambda: w.forward(v), v.leaves, w.name, {"function_kind": kind})
    # methods
    g = torch.Generator().manual_seed(5)
    R0 = torch.randn(6, 6, dtype=DT, generator=g)
    spd = (R0 @ R0.T / 6 + 2 * torch.eye(6, dtype=DT)).requires_grad_()
    Bm = torch.randn(6, 2, dtype=DT, generator=g).requires_grad_()
    Ev = torch.tensor([0.1, -0.2], dtype=DT, requires_grad=True)
    for meth in ("exactsolve", "custom_exactsolve", "cg", "bicgstab", "gmres", "broyden1"):
        histories(lambda m=meth: solve(xt.LinearOperator.m(spd, is_hermitian=True), Bm, None if m == "gmres" else Ev, method=m),
                  [spd, Bm, Ev], "solve:" + meth, {"method": meth})
    for meth in ("exacteig", "custom_exacteig", "davidson"):
        histories(lambda m=meth: symeig(xt.LinearOperator.m((spd + spd.T) / 2, is_hermitian=True), 2, method=m)[0],
                  [spd], "symeig:" + meth, {"method": meth})
    # generalised problems: the overlap operator and its tensors are created by every call and must die with it (seeded defect
    # C19/5: a module-level memo of davidson's initial guess keyed by the operator M)
    Ml = (0.3 * torch.randn(6, 6, dtype=DT, generator=g)).requires_grad_()
    for meth in ("exacteig", "custom_exacteig", "davidson"):
        histories(lambda m=meth: symeig(xt.LinearOperator.m((spd + spd.T) / 2, is_hermitian=True), 2,
                                        M=xt.LinearOperator.m(Ml @ Ml.T + torch.eye(6, dtype=DT), is_hermitian=True), method=m)[0],
                  [spd, Ml], "symeig-with-M:" + meth, {"method": meth, "M": True})
    # exactly singular shifted systems: the exact solver's documented fallback (regularise the diagonal and try again) runs
    # inside an exception handler (round-3 seed C19/7: the caught exception was kept, and with it its frames and their tensors)
    Ad = torch.diag(torch.tensor([1.0, 2.0, 3.0], dtype=DT)).requires_grad_()
    Bd = torch.tensor([[1.0, 0.5], [0.3, -1.0], [2.0, 0.1]], dtype=DT).requires_grad_()
    Ed = torch.tensor([2.0, 5.0], dtype=DT, requires_grad=True)
    for meth in ("exactsolve", "custom_exactsolve"):
        histories(lambda m=meth: solve(xt.LinearOperator.m(Ad, is_hermitian=True), Bd, Ed, method=m), [Ad, Bd, Ed],
                  "solve-singular-shift:" + meth, {"method": meth, "A": "diag(1,2,3)", "E": [2.0, 5.0]})
    # a call that FAILS in the middle (the user's function raises at some evaluation of the forward or of the backward pass,
    # the caller catches it): nothing allocated by the failed call stays reachable, in particular not through the user's own
    # long-lived module (round-3 seed C19/8: the module kept the copy of its parameter installed for the backward pass)
    for w in WL.WORKLOADS:
        if w.name not in (("rootfinder", "equilibrium", "solve_ivp", "quad") if ctx.thorough() else ("rootfinder",)):
            continue
        for kind in (("nn", "em_derived", "explicit_plus_object") if ctx.thorough() else ("nn", "em_derived")):
            t1, t2 = WL.leaves(0)
            tick = fkinds.Ticker()
            vs = fkinds.variants(w.F, t1, t2, tick=tick, extra_first=w.extra_first, which=[kind])
            if not vs:
                continue
            v = vs[0]
            with warnings.catch_warnings():
                warnings.simplefilter("ignore")
                try:
                    tick.reset(None)
                    out = w.forward(v)
                    nf = tick.n
                    WL.grads(out, v.leaves, 1)
                    nb = tick.n - nf
                except Exception:
                    continue
                del out
            for phase, k in (("forward", max(0, nf - 1)), ("backward", 0), ("backward", max(0, nb - 1))):
                def once():
                    tick.reset(k if phase == "forward" else None)
                    try:
                        o_ = w.forward(v)
                        if phase == "backward":
                            tick.reset(k)
                            WL.grads(o_, v.leaves, 1)
                    except (fkinds.Ticker.Boom, Exception):
                        pass
                    finally:
                        tick.reset(None)
                try:
                    # (no warm-up by a failing call: what the FIRST failure leaves behind is what counts; the successful run
                    # above already filled every legitimate one-time cache)
                    grow, perm = measure(once, reps=2, warmup=False)
                except Exception as ex:
                    ctx.fail("oracle", "leak:%s:failed-call:exception" % w.name, {"function_kind": kind, "phase": phase}, repr(ex)[:200], "runs")
                    continue
                ctx.count(("leak-failed-call", w.name, kind, phase, k), nontrivial=True)
                if grow != 0 or perm != 0:
                    ctx.fail("oracle", "leak:%s:failed-call" % w.name,
                             {"function_kind": kind, "user_function_raises_in": phase, "at_evaluation": k, "repetitions": 2},
                             {"live_tensors_gained_without_gc": grow, "still_alive_after_gc_collect": perm}, "no tensor outlives the failed call")
                    break
    # parameters that MIX differentiable tensors with a python number and a tensor without grad (the helper that splits and
    # re-assembles them lives on the autograd context; round-4 seed C19/10: it kept the re-assembled gradients in a buffer)
    from xitorch.integrate import quad as quad_
    am = torch.tensor([0.7, 1.1, 0.4], dtype=DT, requires_grad=True)
    bm = torch.tensor([0.2, -0.3, 0.5], dtype=DT)                 # no grad
    histories(lambda: rootfinder(lambda y, a_, c_, b_: y ** 3 + a_ * y * c_ - b_, torch.zeros(3, dtype=DT), params=(am, 2.0, bm)), [am],
              "rootfinder:mixed-params", {"params": "(tensor with grad, python float, tensor without grad)"})
    histories(lambda: quad_(lambda x, a_, c_, b_: torch.exp(-a_ * x) * c_ + b_ * x, 0.0, 1.0, params=(am, 2.0, bm), n=8), [am],
              "quad:mixed-params", {"params": "(tensor with grad, python float, tensor without grad)"})
    histories(lambda: solve_ivp(lambda t, y, a_, c_, b_: -a_ * y * c_ + b_ * t, torch.linspace(0, 1, 4, dtype=DT), torch.ones(3, dtype=DT), params=(am, 0.5, bm), method="rk4"),
              [am], "solve_ivp:mixed-params", {"params": "(tensor with grad, python float, tensor without grad)"})
    # a LONG-LIVED user operator that holds one tensor under two attribute names (tied weights) over a training loop: the backward pass
    # swaps clones into the operator and must put the originals back under EVERY name (round-6 seed C19/15: restored with setparams
    # instead of setuniqueparams - the second name kept the clone of each iteration)
    class TiedOperator(xt.LinearOperator):
        def __init__(self, w):
            super().__init__(shape=(w.shape[0], w.shape[0]), is_hermitian=True, dtype=w.dtype, device=w.device)
            self.w_enc = w
            self.w_dec = w

        def _mv(self, x):
            return torch.matmul(torch.matmul(x, self.w_enc), self.w_dec.t()) + x

        def _getparamnames(self, prefix=""):
            return [prefix + "w_enc", prefix + "w_dec"]
    wt_ = (torch.randn(12, 3, dtype=DT, generator=torch.Generator().manual_seed(5)) * 0.3).requires_grad_()
    Atied = TiedOperator(wt_)
    Bt_ = torch.randn(12, 2, dtype=DT, generator=torch.Generator().manual_seed(6))
    histories(lambda: solve(Atied, Bt_, method="cg", posdef=True, rtol=1e-10, atol=1e-12), [wt_],
              "solve:long-lived-tied-operator", {"operator": "one tensor under two attribute names, re-used over the loop", "method": "cg"})
    # (a clone kept under the second name is replaced by the next iteration's clone: the COUNT is stationary after the first call; what
    # stays reachable is seen directly)
    ctx.count(("leak", "solve:long-lived-tied-operator", "identity"), nontrivial=True)
    if Atied.w_enc is not wt_ or Atied.w_dec is not wt_:
        ctx.fail("oracle", "leak:solve:long-lived-tied-operator:clone-kept", {"operator": "one tensor under two attribute names", "method": "cg"},
                 {"w_enc_is_callers": Atied.w_enc is wt_, "w_dec_is_callers": Atied.w_dec is wt_},
                 "after the calls the operator references the caller's tensor under both names (a tensor allocated during a call stays reachable otherwise)")
    a = torch.tensor([0.7, 1.1, 0.4], dtype=DT, requires_grad=True)
    b = torch.tensor([0.2, -0.3, 0.5], dtype=DT, requires_grad=True)
    z = torch.zeros(3, dtype=DT)
    for meth, kw in (("broyden1", {}), ("broyden2", {}), ("linearmixing", {}), ("newton", {}), ("broyden1", {"max_rank": 2}), ("broyden2", {"max_rank": 2})):
        histories(lambda m=meth, k=kw: rootfinder(lambda y, a, b: y ** 3 + a * y - b, z, params=(a, b), method=m, **k), [a, b],
                  "rootfinder:" + meth + ("" if not kw else ":max_rank"), {"method": meth, **kw})
    histories(lambda: equilibrium(lambda y, a, b: 0.3 * torch.cos(y) * a + 0.2 * b, z, params=(a, b), method="anderson_acc"), [a, b],
              "equilibrium:anderson_acc", {"method": "anderson_acc"})
    for meth, kw in (("gd", dict(step=0.3, maxiter=50)), ("adam", dict(step=0.05, maxiter=50))):
        histories(lambda m=meth, k=kw: minimize(lambda y, a, b: (0.5 * a * y ** 2 - b * y + 0.1 * y ** 4).sum(), z, params=(a, b), method=m, **k),
                  [a, b], "minimize:" + meth, {"method": meth})
    for meth in ("euler", "rk4", "rk38", "rk23", "rk45"):
        for direction in (1, -1):
            ts = torch.linspace(0, 1, 4, dtype=DT) if direction > 0 else torch.linspace(1, 0, 4, dtype=DT)
            histories(lambda m=meth, t=ts: solve_ivp(lambda t_, y, a, b: -a * y + b * t_, t, torch.ones(3, dtype=DT), params=(a, b), method=m),
                      [a, b], "solve_ivp:" + meth, {"method": meth, "direction": direction})


def check(ctx):
    tie(ctx)
    oracle(ctx)


def search(ctx):
    oracle(ctx)

"""C12 — quad applies an exact n-point Gauss-Legendre rule on the requested interval.

Tie (bit for bit): Model/Quad.v at IEEE binary64, fed with numpy's leggauss table, against the public
  quad: every abscissa at which the integrand is evaluated and the returned value; finite limits given as
  python numbers or tensors in any order, and infinite limits (tan transform; torch.tan/cos of the model's
  own nodes are oracle inputs).
Test of the oracle (not a theorem): numpy's table satisfies the moment hypothesis of the exactness theorem
  (exact rational arithmetic on the float nodes) up to degree 2n-1.
Oracle (implementation): polynomial exactness, linearity, swap, additivity, decaying integrands on
  infinite intervals, tuple outputs, dtypes."""
from __future__ import annotations
import math, warnings
from fractions import Fraction
import numpy as np
import warnings
import torch
from vlib import cnat, clist, cfloat, coq_bool_cases
from props.c07 import gen_exp, exp_coq, exp_eval, exp_str, fvec

RULE = ("n in {1..12, 16, 25, 40, 64} x intervals (any sign / orientation / size, python-number or tensor limits, half- and "
        "doubly-infinite) x random polynomial integrands with parameters; distinct = (n, interval, integrand); non-trivial = "
        "integrand depends on x")
TRUSTED = ["harness tools/props/c12.py", "oracle inputs of the model: numpy.polynomial.legendre.leggauss, torch.tan / torch.cos / torch.atan",
           "PrimFloat primitives as evaluated by vm_compute"]
ASSUMPTIONS = ["the change of variables x = tan t for infinite limits is cited calculus (not formalised); the structure of the "
               "transformed integrand f(tan t)/cos^2 t on [atan xl, atan xu] is what the model and the tie fix"]
HEADER = ("From XV Require Import Base.Ops Model.ExplicitRK Model.Quad Model.QuadRun.\n"
          "From Coq Require Import QArith List PrimFloat.\nImport ListNotations.\n")
DT = torch.float64
NS = list(range(1, 13)) + [16, 25, 40, 64]


def table(n):
    x, w = np.polynomial.legendre.leggauss(n)
    return [float(v) for v in x], [float(v) for v in w]


def moment_test(ctx):
    """numpy's table: |sum w_i x_i^k - m_k| tiny for k <= 2n-1, in exact rational arithmetic on the floats"""
    worst = 0.0
    for n in (1, 2, 3, 5, 8, 12, 20):
        x, w = table(n)
        xq, wq = [Fraction(v) for v in x], [Fraction(v) for v in w]
        for k in range(2 * n):
            s = sum(wi * xi ** k for wi, xi in zip(wq, xq))
            m = Fraction(1 + (-1) ** k, k + 1)
            worst = max(worst, abs(float(s - m)))
    ctx.notes["oracle_test_leggauss_moment_defect_max"] = worst
    if not worst <= 1e-13:
        ctx.fail("oracle", "quad:numpy-table-moments", {"worst": worst}, worst, "<= 1e-13")


def gen_interval(rng):
    k = rng.random()
    a = rng.randrange(-40, 41) / 8
    b = a + rng.choice([1, 2, 3, 8, 40, 400]) / 16 * rng.choice([1, -1])
    if k < 0.08:
        b = a
    return a, b


def check(ctx):
    from xitorch.integrate import quad
    rng = ctx.rng
    cases, meta = [], []
    moment_test(ctx)
    for _ in range(ctx.n(160, 1200)):
        n = rng.choice(NS)
        xlg, wlg = table(n)
        nth = rng.randrange(0, 3)
        th = [rng.randrange(-12, 13) / 8 for _ in range(nth)]
        fx = gen_exp(rng, max(nth, 1), rng.randrange(0, 4))
        if nth == 0:
            fx = strip_y(fx)
        inf = rng.random() < 0.2
        pts = []

        def fcn(x, *ps):
            pts.append(float(x))
            return exp_eval(fx, x, list(ps)) + 0 * x
        params = tuple(torch.tensor(v, dtype=DT) for v in th)
        if not inf:
            a, b = gen_interval(rng)
            form = rng.choice(["num", "tensor", "mixed"])
            xl = a if form in ("num", "mixed") else torch.tensor(a, dtype=DT)
            xu = b if form == "num" else torch.tensor(b, dtype=DT)
            # a python-number lower limit makes the probe a default-dtype tensor; keep everything float64
            with torch.no_grad():
                old = torch.get_default_dtype()
                torch.set_default_dtype(DT)
                try:
                    val = quad(fcn, xl, xu, params=params, n=n)
                finally:
                    torch.set_default_dtype(old)
            info = {"n": n, "xl": a, "xu": b, "limits": form, "f": exp_str(fx), "theta": th}
            if len(pts) != n + 1:
                ctx.fail("oracle", "quad:evaluations", info, len(pts) - 1, n)
                continue
            cases.append("quad_ok %s %s %s %s %s %s %s %s" % (exp_coq(fx), fvec(th), fvec(xlg), fvec(wlg), cfloat(a), cfloat(b),
                                                              fvec(pts[1:]), cfloat(float(val))))
        else:
            kind = rng.choice(["+inf", "-inf", "both"])
            a = -math.inf if kind in ("-inf", "both") else rng.randrange(-16, 17) / 8
            b = math.inf if kind in ("+inf", "both") else rng.randrange(-16, 17) / 8
            if rng.random() < 0.3:
                a, b = b, a
            with torch.no_grad():
                old = torch.get_default_dtype()
                torch.set_default_dtype(DT)
                try:
                    val = quad(fcn, a, b, params=params, n=n)
                finally:
                    torch.set_default_dtype(old)
            tl, tu = float(torch.atan(torch.tensor(a, dtype=DT))), float(torch.atan(torch.tensor(b, dtype=DT)))
            tnodes = torch.tensor(xlg, dtype=DT) * (0.5 * (torch.tensor(tu, dtype=DT) - torch.tensor(tl, dtype=DT))) + \
                (0.5 * (torch.tensor(tu, dtype=DT) + torch.tensor(tl, dtype=DT)))
            tans, coss = torch.tan(tnodes).tolist(), torch.cos(tnodes).tolist()
            info = {"n": n, "xl": a, "xu": b, "limits": "infinite", "f": exp_str(fx), "theta": th}
            if len(pts) != n + 1 or not math.isfinite(float(val)):
                ctx.stat("skipped_nonfinite_infinite_limit")
                continue
            if [float(v) for v in pts[1:]] != [float(v) for v in tans]:
                ctx.fail("oracle", "quad:inf:abscissae", info, pts[1:4], tans[:3])
                continue
            cases.append("quad_inf_ok %s %s %s %s %s %s %s %s %s %s" % (
                exp_coq(fx), fvec(th), fvec(xlg), fvec(wlg), cfloat(tl), cfloat(tu), fvec(tans), fvec(coss),
                fvec(tnodes.tolist()), cfloat(float(val))))
        meta.append(info)
        ctx.count((n, info["xl"], info["xu"], info["f"], tuple(th)), nontrivial="t" in info["f"])
        ctx.stat("limits:" + info["limits"])
        ctx.sample(info, limit=5)
    failed, errors = coq_bool_cases("c12", HEADER, cases, chunk=60)
    ctx.coverage["traces_validated_against_impl"] += len(cases) - len(failed)
    for e in errors:
        ctx.broken("correspondence:leggauss", e)
    for i in failed[:3]:
        ctx.broken("correspondence:leggauss", {"case": meta[i], "coq": cases[i][:1200]})
    oracle(ctx)
    round5_probes(ctx)


def strip_y(e):
    if e[0] == "Y":
        return ("T",)
    if e[0] in ("Add", "Sub", "Mul"):
        return (e[0], strip_y(e[1]), strip_y(e[2]))
    return e


def oracle(ctx):
    from xitorch.integrate import quad
    rng = ctx.rng
    for _ in range(ctx.n(40, 300)):
        n = rng.choice([1, 2, 3, 4, 5, 7, 10, 20, 50, 100, 200, 300])
        deg = rng.randrange(0, min(2 * n, 12))
        coef = [rng.randrange(-5, 6) for _ in range(deg + 1)]
        a, b = gen_interval(rng)
        c = a + (b - a) * rng.choice([0.25, 0.5, 2.0, -1.0])
        poly = lambda x: sum(ci * x ** i for i, ci in enumerate(coef)) + 0 * x
        exact = lambda lo, hi: sum(ci * (hi ** (i + 1) - lo ** (i + 1)) / (i + 1) for i, ci in enumerate(coef))
        info = {"n": n, "degree": deg, "coef": coef, "a": a, "b": b, "c": c}
        ctx.count(("poly", n, deg, a, b))
        scale = sum(abs(ci) * max(abs(a), abs(b), abs(c), 1.0) ** (i + 1) for i, ci in enumerate(coef)) + 1e-300
        tol = 2e-13 * scale * (1 + n / 20)
        for form in ("num", "tensor"):
            A, B = (a, b) if form == "num" else (torch.tensor(a, dtype=DT), torch.tensor([b], dtype=DT))
            old = torch.get_default_dtype()
            torch.set_default_dtype(DT)
            try:
                v = quad(poly, A, B, n=n)
                vs = quad(poly, B, A, n=n)
                vab = quad(poly, a, c, n=n) + quad(poly, c, b, n=n)
            except Exception as e:
                ctx.fail("oracle", "quad:exception:" + form, info, repr(e)[:200], "accepted limits")
                continue
            finally:
                torch.set_default_dtype(old)
            if not abs(float(v) - exact(a, b)) <= tol:
                ctx.fail("oracle", "quad:polynomial-exactness", dict(info, form=form), float(v), exact(a, b))
            if not abs(float(v) + float(vs)) <= tol:
                ctx.fail("oracle", "quad:swap", dict(info, form=form), [float(v), float(vs)], "opposite signs")
            if not abs(float(vab) - float(v)) <= tol:
                ctx.fail("oracle", "quad:additive", info, [float(vab), float(v)], "equal")
        g = lambda x: torch.cos(x) * x
        al, be = rng.randrange(-4, 5) / 2, rng.randrange(-4, 5) / 2
        lhs = quad(lambda x: al * poly(x) + be * g(x), torch.tensor(a, dtype=DT), torch.tensor(b, dtype=DT), n=n)
        rhs = al * quad(poly, torch.tensor(a, dtype=DT), torch.tensor(b, dtype=DT), n=n) + \
            be * quad(g, torch.tensor(a, dtype=DT), torch.tensor(b, dtype=DT), n=n)
        if not abs(float(lhs - rhs)) <= tol + 1e-12 * abs(float(rhs)):
            ctx.fail("oracle", "quad:linearity", info, float(lhs), float(rhs))
    # infinite limits and tuple outputs, float32
    zero, inf = torch.tensor(0.0, dtype=DT), torch.tensor(math.inf, dtype=DT)
    checks = [("gauss-doubly", lambda: quad(lambda x: torch.exp(-x * x), -inf, inf, n=200), math.sqrt(math.pi), 1e-8),
              ("exp-half", lambda: quad(lambda x: torch.exp(-2 * x), zero, inf, n=200), 0.5, 1e-8),
              ("lorentz", lambda: quad(lambda x: 1 / (1 + x * x), -inf, zero, n=100), math.pi / 2, 1e-10),
              ("exp-half-swapped", lambda: quad(lambda x: torch.exp(-2 * x), inf, zero, n=200), -0.5, 1e-8)]
    for name, f, ref, tol in checks:
        try:
            v = float(f())
        except Exception as e:
            ctx.fail("oracle", "quad:inf:" + name, {}, repr(e)[:200], ref)
            continue
        ctx.count(("inf", name))
        if not abs(v - ref) <= tol:
            ctx.fail("oracle", "quad:inf:" + name, {}, v, ref)
    t = quad(lambda x: (x * x, torch.stack([x, 2 * x]).reshape(2, 1)), torch.tensor(0.0, dtype=DT), torch.tensor(2.0, dtype=DT), n=5)
    if not (isinstance(t, (tuple, list)) and len(t) == 2 and t[0].shape == () and abs(float(t[0]) - 8 / 3) < 1e-13
            and t[1].shape == (2, 1) and torch.allclose(t[1].reshape(-1), torch.tensor([2.0, 4.0], dtype=DT))):
        ctx.fail("oracle", "quad:tuple", {"integrand": "(x^2, [[x],[2x]]) on [0, 2]"},
                 [list(x.shape) for x in t] if isinstance(t, (tuple, list)) else str(type(t)), "shapes (), (2,1); values 8/3, [[2],[4]]")
    # more half-infinite forms (every one of -inf / +inf at either end, either order; seeded defect C12/5)
    minf = torch.tensor(-math.inf, dtype=DT)
    one = torch.tensor(1.0, dtype=DT)
    for name, f, ref, tol in [("exp-left", lambda: quad(lambda x: torch.exp(x), minf, zero, n=200), 1.0, 1e-8),
                              ("exp-left-swapped", lambda: quad(lambda x: torch.exp(x), one, minf, n=200), -math.e, 1e-7),
                              # python-number limits: the integrand runs in the default dtype (float32), hence the tolerance
                              ("exp-left-number", lambda: quad(lambda x: torch.exp(x), -math.inf, 0.0, n=200), 1.0, 1e-5)]:
        try:
            v = float(f())
        except Exception as e:
            ctx.fail("oracle", "quad:inf:" + name, {}, repr(e)[:200], ref)
            continue
        ctx.count(("inf", name))
        if not abs(v - ref) <= tol:
            ctx.fail("oracle", "quad:inf:" + name, {}, v, ref)
    # an integrand that hands back one of its own arguments (no fresh tensor): the value is right and the argument is left
    # untouched (seeded defect C12/4: the first term of the sum was accumulated in place)
    cpar = torch.tensor([2.0, -3.0], dtype=DT)
    ckeep = cpar.clone()
    vconst = quad(lambda x, c: c, torch.tensor(0.0, dtype=DT), torch.tensor(1.0, dtype=DT), params=(cpar,), n=3)
    ctx.count(("aliasing-integrand",))
    if not torch.allclose(vconst, ckeep, rtol=0, atol=1e-14) or not torch.equal(cpar, ckeep):
        ctx.fail("oracle", "quad:integrand-returns-its-argument", {"integrand": "f(x, c) = c on [0, 1], n = 3"},
                 {"value": vconst.tolist(), "c_after": cpar.tolist()}, {"value": ckeep.tolist(), "c_after": ckeep.tolist()})
    # limits given as tensors of another dtype are converted to the integrand's dtype (seeded defect C12/6)
    for ldt in (torch.float32, torch.int64):
        try:
            vl = quad(lambda x, c: c * x ** 3, torch.tensor(1, dtype=ldt), torch.tensor(3, dtype=ldt), params=(torch.tensor(0.7, dtype=DT),), n=4)
        except Exception as e:
            ctx.fail("oracle", "quad:limit-dtype:%s" % str(ldt), {"limits": str(ldt), "integrand": "float64"}, repr(e)[:200], 0.7 * 20.0)
            continue
        ctx.count(("limit-dtype", str(ldt)))
        if vl.dtype != DT or not abs(float(vl) - 14.0) <= 1e-13:
            ctx.fail("oracle", "quad:limit-dtype:%s" % str(ldt), {"limits": str(ldt), "integrand": "float64"}, [str(vl.dtype), float(vl)], 14.0)
    # the forward rule is the caller's n whatever the backward options say (round-3 seed C12/7: forward ran on the options merged
    # with bck_options): number of integrand evaluations and exactness degree with bck_options={"n": ...}
    for nf, nb in ((3, 40), (5, 2), (4, 4)):
        npts = [0]

        def fcount(x):
            npts[0] += 1
            return x ** (2 * nf - 1) + x ** (2 * nf - 2)
        vq = quad(fcount, torch.tensor(0.0, dtype=DT), torch.tensor(1.0, dtype=DT), n=nf, bck_options={"n": nb})
        ctx.count(("fwd-n-vs-bck-n", nf, nb))
        exact_q = 1.0 / (2 * nf) + 1.0 / (2 * nf - 1)
        if npts[0] - 1 != nf or not abs(float(vq) - exact_q) <= 1e-13:
            ctx.fail("oracle", "quad:forward-rule-uses-backward-options", {"n": nf, "bck_options": {"n": nb}},
                     {"integrand_evaluations": npts[0] - 1, "value": float(vq)}, {"integrand_evaluations": nf, "value": exact_q})
    # infinite limits with many nodes and an algebraically decaying integrand: the change of variables is exact up to the last
    # node (round-3 seed C12/8: sec(t) clamped near pi/2, visible only for n of a few hundred)
    for nn in (300, 600):
        for name, f, ref in (("lorentz-doubly", lambda: quad(lambda x: 1 / (1 + x * x), -inf, inf, n=nn), math.pi),
                             ("lorentz-half", lambda: quad(lambda x: 1 / (1 + x * x), zero, inf, n=nn), math.pi / 2),
                             ("x2-over-1+x4", lambda: quad(lambda x: x * x / (1 + x ** 4), -inf, inf, n=nn), math.pi / math.sqrt(2))):
            try:
                v = float(f())
            except Exception as e:
                ctx.fail("oracle", "quad:inf:many-nodes:" + name, {"n": nn}, repr(e)[:200], ref)
                continue
            ctx.count(("inf-many-nodes", name, nn))
            if not abs(v - ref) <= 1e-9:
                ctx.fail("oracle", "quad:inf:many-nodes:" + name, {"n": nn}, v, ref)
    # an integrand that itself integrates over an infinite interval (iterated integrals): every call has its own change of
    # variables (round-4 seed C12/11: one shared transform object remembered the abscissa of the last call)
    inner = lambda yv: quad(lambda x: torch.exp(-(x * x + yv * yv)), -inf, inf, n=60)
    for name, f, ref in (("gaussian-plane", lambda: quad(lambda yv: inner(yv), -inf, inf, n=60), math.pi),
                         ("gaussian-half-plane", lambda: quad(lambda yv: inner(yv), zero, inf, n=60), math.pi / 2),
                         ("finite-outer", lambda: quad(lambda yv: inner(yv), zero, torch.tensor(1.0, dtype=DT), n=20), math.sqrt(math.pi) * 0.7468241328124271)):
        try:
            v = float(f())
        except Exception as e:
            ctx.fail("oracle", "quad:inf:nested:" + name, {}, repr(e)[:200], ref)
            continue
        ctx.count(("inf-nested", name))
        if not abs(v - ref) <= 1e-7:
            ctx.fail("oracle", "quad:inf:nested:" + name, {"inner": "integral of exp(-(x^2+y^2)) dx over the real line, n = 60"}, v, ref)
    # limits given as tensors are left untouched, also infinite ones, and a second call with the same tensors gives the same value
    lim_lo, lim_hi = torch.tensor(-math.inf, dtype=DT), torch.tensor(0.7, dtype=DT)
    v1 = float(quad(lambda x: torch.exp(x), lim_lo, lim_hi, n=150))
    v2 = float(quad(lambda x: torch.exp(x), lim_lo, lim_hi, n=150))
    ctx.count(("inf-limits-untouched",))
    if not (math.isinf(float(lim_lo)) and float(lim_hi) == 0.7 and abs(v1 - math.exp(0.7)) <= 1e-7 and v1 == v2):
        ctx.fail("oracle", "quad:inf:limit-tensors-modified", {"limits": "(-inf, 0.7) as float64 tensors, two calls"},
                 {"limits_after": [float(lim_lo), float(lim_hi)], "values": [v1, v2]}, {"limits_after": ["-inf", 0.7], "values": [math.exp(0.7)] * 2})
    v32 = quad(lambda x: x * x, torch.tensor(0.0), torch.tensor(3.0), n=4)
    if v32.dtype != torch.float32 or not abs(float(v32) - 9.0) <= 1e-5:
        ctx.fail("oracle", "quad:float32", {}, v32, 9.0)


def round5_probes(ctx):
    """(a) Python-number limits are used at the precision of the INTEGRAND's dtype, whatever torch's default dtype is: a float64
    integrand on [0.1, 0.7] with the default dtype left at float32 (round-5 seed C12/13: the lower limit was converted with
    torch.as_tensor before the rule ran and reached it rounded to float32).  (b) the integrand may be any callable OBJECT: it is
    called through obj(x), so that a torch.nn.Module's hooks run (round-5 seed C12/14: a Module was resolved to module.forward)"""
    from xitorch.integrate import quad
    a = torch.tensor(1.5, dtype=DT, requires_grad=True)
    old = torch.get_default_dtype()
    try:
        for dflt in (torch.float32, torch.float64):
            torch.set_default_dtype(dflt)
            for lo, hi in ((0.1, 0.7), (0.3, 1.1), (-0.7, 0.1)):
                for k in (0, 2, 3):
                    ctx.count(("number-limits-precision", str(dflt), lo, hi, k), nontrivial=True)
                    exact = 1.5 * (hi ** (k + 1) - lo ** (k + 1)) / (k + 1)
                    f = lambda x, c: c * x.to(DT) ** k
                    v = float(quad(f, lo, hi, params=(a,), n=8).detach())
                    vt = float(quad(f, torch.tensor(lo, dtype=DT), torch.tensor(hi, dtype=DT), params=(a,), n=8).detach())
                    vs = float(quad(f, hi, lo, params=(a,), n=8).detach())
                    if not (abs(v - exact) <= 1e-14 and abs(v - vt) <= 1e-15 and abs(v + vs) <= 1e-15):
                        ctx.fail("oracle", "quad:number-limits-precision", {"default_dtype": str(dflt), "xl": lo, "xu": hi, "integrand": "1.5 x^%d (float64)" % k},
                                 {"quad": v, "with_float64_tensor_limits": vt, "limits_swapped": vs}, {"exact": exact})
    finally:
        torch.set_default_dtype(old)

    class Poly(torch.nn.Module):
        def __init__(self):
            super().__init__()
            self.c = torch.nn.Parameter(torch.tensor([1.0, -2.0, 0.5], dtype=DT))

        def forward(self, x):
            return self.c[0] + self.c[1] * x + self.c[2] * x * x

    m = Poly()
    h = m.register_forward_hook(lambda mod, inp, out: out * 2.0)
    xl, xu = torch.tensor(0.0, dtype=DT), torch.tensor(2.0, dtype=DT)
    exact_plain = 1.0 * 2 - 2.0 * 2 + 0.5 * 8 / 3
    for name, fcn, want in (("nn.Module with a forward hook", m, 2.0 * exact_plain), ("lambda around the module", lambda x: m(x), 2.0 * exact_plain)):
        ctx.count(("integrand-callable-kind", name), nontrivial=True)
        try:
            with warnings.catch_warnings():
                warnings.simplefilter("ignore")
                v = float(quad(fcn, xl, xu, n=6).detach())
        except Exception as e:
            ctx.fail("oracle", "quad:integrand-callable-kind:exception", {"integrand": name}, repr(e)[:200], "the integral of what obj(x) returns")
            continue
        if not abs(v - want) <= 1e-12:
            ctx.fail("oracle", "quad:integrand-callable-kind", {"integrand": name, "interval": [0.0, 2.0]}, v, want)
    h.remove()


def search(ctx):
    oracle(ctx)

"""C16 — mcquad returns the weighted sample mean it documents, with its gradient.

Tie (exact, bit for bit): Model/Samplers.v at IEEE binary64 against the public mcquad with
  (a) mhcustom and caller-supplied deterministic steps, (b) mh with the random streams injected by the
  harness (torch.rand / torch.randn_like replaced during the call): the sequence of points at which the
  integrand is evaluated (= the samples, in order) and the returned value.
Oracle (implementation): constant integrand, linearity, tuple outputs, gradients w.r.t. tensors entering
  f (mean of df) and log p (score-function / exact quadrature derivative for the deterministic 1-D sampler)
  against explicit autograd of the same weighted sums, first and second order; unused tensors."""
from __future__ import annotations
import math, warnings
from fractions import Fraction
import torch
from vlib import cnat, clist, cfloat, coq_bool_cases
from props.c07 import gen_exp, exp_coq, exp_eval, exp_str, fvec

RULE = ("random (nsamples in 1..12, nburnout in 1..6, step size, start point) x random polynomial integrands and "
        "log-densities (depth<=2 over x and dyadic constants) x samplers {mhcustom with affine deterministic step, mh with "
        "injected uniform/normal streams}; distinct = (sampler, counts, integrand, stream seed); non-trivial = nsamples >= 2. "
        "Gradient oracle: mhcustom / _dummy1d, parameters of f and of log p held explicitly or by objects, 1st and 2nd order")
TRUSTED = ["harness tools/props/c16.py (replaces torch.rand / torch.randn_like by recorded streams during the call)",
           "not modelled: statistical quality of Metropolis sampling; torch.log/exp/tan (dummy1d)"]
ASSUMPTIONS = ["scalar (one-element) sample space in the model; vector samples only in the oracle"]
HEADER = ("From XV Require Import Base.Ops Model.ExplicitRK Model.Samplers Model.RKRun.\n"
          "From Coq Require Import QArith List PrimFloat.\nImport ListNotations.\n"
          "Definition fe (e : fexp) (x : float) : float := feval Fops e x [x].\n"
          "Definition mhc_ok (fx : fexp) (c1 c2 x0 : float) (nb ns : nat) (pts : list float) (val : float) : bool :=\n"
          "  let st := fun x => PrimFloat.add (PrimFloat.mul x c1) c2 in\n"
          "  let '(xs, ws) := mhcustom Fops st x0 nb ns in\n"
          "  vbits_eq xs pts && PrimFloat.eqb (integrate Fops (fe fx) xs ws) val.\n"
          "Definition mh_ok (fx lp : fexp) (x0 step : float) (nb ns : nat) (noise logu pts : list float) (val : float) : bool :=\n"
          "  let '(xs, ws) := mh Fops (fe lp) x0 step nb ns noise logu in\n"
          "  vbits_eq xs pts && PrimFloat.eqb (integrate Fops (fe fx) xs ws) val.\n")
DT = torch.float64


def gen_fx(rng, depth):
    e = gen_exp(rng, 1, depth)
    return e


def evalx(e, x):
    return exp_eval(e, x, [x])


def check(ctx):
    from xitorch.integrate import mcquad
    import xitorch._impls.integrate.mcsamples.mcmc as mcmc
    rng = ctx.rng
    cases, meta = [], []
    # ---------- (a) mhcustom ----------
    for _ in range(ctx.n(120, 800)):
        ns, nb = rng.randrange(1, 13), rng.randrange(1, 7)
        c1, c2 = rng.randrange(-8, 9) / 8, rng.randrange(-8, 9) / 8
        x0 = rng.randrange(-16, 17) / 8
        fx = gen_fx(rng, rng.randrange(0, 3))
        pts = []

        def ffcn(x):
            pts.append(float(x))
            return evalx(fx, x.reshape(())).reshape(()) + 0 * x.sum()
        nsteps = [0]

        def step(x, *p):
            nsteps[0] += 1
            return x * c1 + c2
        try:
            val = mcquad(ffcn, lambda x: -(x * x).sum(), torch.tensor([x0], dtype=DT), method="mhcustom",
                         custom_step=step, nsamples=ns, nburnout=nb)
        except Exception as e:
            ctx.fail("oracle", "mcquad:mhcustom:exception", {"nsamples": ns, "nburnout": nb}, repr(e)[:200], "no exception")
            continue
        info = {"sampler": "mhcustom", "nsamples": ns, "nburnout": nb, "step": [c1, c2], "x0": x0, "f": exp_str(fx)}
        # the first evaluation is the probe at x0 (output kind detection), then one per sample
        if len(pts) != ns + 1:
            ctx.fail("oracle", "mcquad:mhcustom:sample-count", info, len(pts) - 1, ns)
        cases.append("mhc_ok %s %s %s %s %d %d %s %s" % (exp_coq(fx), cfloat(c1), cfloat(c2), cfloat(x0), nb, ns,
                                                       fvec(pts[1:]), cfloat(float(val))))
        meta.append(info)
        ctx.count(("mhcustom", ns, nb, c1, c2, x0, exp_str(fx)), nontrivial=ns >= 2)
        ctx.stat("mhcustom")
        ctx.sample(info, limit=3)
    # ---------- (b) mh with injected streams ----------
    orig_rand, orig_randn_like = torch.rand, torch.randn_like
    for _ in range(ctx.n(100, 700)):
        ns, nb = rng.randrange(1, 11), rng.randrange(0, 6)
        step = rng.choice([0.25, 0.5, 1.0, 1.5])
        x0 = rng.randrange(-16, 17) / 8
        fx = gen_fx(rng, rng.randrange(0, 3))
        lp = ("Sub", ("C", Fraction(0)), ("Mul", ("Sub", ("Y", 0), ("C", Fraction(rng.randrange(-8, 9), 8))),
                                          ("Sub", ("Y", 0), ("C", Fraction(rng.randrange(-8, 9), 8)))))
        gen = torch.Generator().manual_seed(rng.randrange(10 ** 6))
        uni = torch.rand(nb + ns, dtype=DT, generator=gen).clamp_min(1e-12)
        nrm = torch.randn(nb + ns, dtype=DT, generator=gen)
        upos, npos = [0], [0]

        def fake_rand(shape, dtype=None, device=None, **kw):
            k = shape[0]
            out = uni[upos[0]:upos[0] + k].clone()
            upos[0] += k
            return out

        def fake_randn_like(x):
            out = nrm[npos[0]].reshape(x.shape).clone()
            npos[0] += 1
            return out
        pts = []

        def ffcn(x):
            pts.append(float(x))
            return evalx(fx, x.reshape(())).reshape(())
        torch.rand, torch.randn_like = fake_rand, fake_randn_like
        try:
            val = mcquad(ffcn, lambda x: evalx(lp, x.reshape(())).reshape(()), torch.tensor([x0], dtype=DT), method="mh",
                         nsamples=ns, nburnout=nb, step_size=step)
        except Exception as e:
            ctx.fail("oracle", "mcquad:mh:exception", {"nsamples": ns, "nburnout": nb}, repr(e)[:200], "no exception")
            continue
        finally:
            torch.rand, torch.randn_like = orig_rand, orig_randn_like
        info = {"sampler": "mh", "nsamples": ns, "nburnout": nb, "step_size": step, "x0": x0, "f": exp_str(fx), "logp": exp_str(lp)}
        if npos[0] != nb + ns or upos[0] != nb + ns:
            ctx.fail("oracle", "mcquad:mh:steps", info, {"proposals": npos[0], "uniforms": upos[0]}, nb + ns)
        if len(pts) != ns + 1:
            ctx.fail("oracle", "mcquad:mh:sample-count", info, len(pts) - 1, ns)
        logu = torch.log(uni)
        cases.append("mh_ok %s %s %s %s %d %d %s %s %s %s" % (exp_coq(fx), exp_coq(lp), cfloat(x0), cfloat(step), nb, ns,
                                                            fvec(nrm.tolist()), fvec(logu.tolist()), fvec(pts[1:]), cfloat(float(val))))
        meta.append(info)
        ctx.count(("mh", ns, nb, step, x0, exp_str(fx), exp_str(lp)), nontrivial=ns >= 2)
        ctx.stat("mh")
        ctx.sample(info, limit=6)
    failed, errors = coq_bool_cases("c16", HEADER, cases, chunk=150)
    ctx.coverage["traces_validated_against_impl"] += len(cases) - len(failed)
    for e in errors:
        ctx.broken("correspondence:samplers", e)
    for i in failed[:3]:
        ctx.broken("correspondence:samplers", {"case": meta[i], "coq": cases[i][:1500]})
    oracle(ctx)


def inplace_step_probe(ctx):
    """a custom step that updates its argument IN PLACE, or always hands back one re-used buffer: the value is still the mean
    over the states visited (round-3 seed C16/8: the states were collected by reference and stacked at the end)"""
    from xitorch.integrate import mcquad
    for style in ("in-place", "reused-buffer", "fresh"):
        for ns, nb in ((5, 2), (3, 1), (8, 4)):
            buf = torch.zeros(1, dtype=DT)
            seen = []

            def step(x, *p):
                new = x * -0.9 + 0.3
                if style == "in-place":
                    x.copy_(new)
                    out = x
                elif style == "reused-buffer":
                    buf.copy_(new)
                    out = buf
                else:
                    out = new
                seen.append(out.detach().clone())
                return out
            x0 = torch.tensor([0.4], dtype=DT)
            fq = lambda x: x * x + torch.sin(x)
            try:
                v = mcquad(fq, lambda x: -(x * x).sum(), x0.clone(), method="mhcustom", custom_step=step, nsamples=ns, nburnout=nb)
            except Exception as e:
                ctx.fail("oracle", "mcquad:mhcustom:%s-step:exception" % style, {"nsamples": ns, "nburnout": nb}, repr(e)[:200], "the sample mean")
                continue
            ctx.count(("inplace-step", style, ns, nb))
            # the reference chain, computed independently
            x = x0.clone()
            for _ in range(nb - 1):
                x = x * -0.9 + 0.3
            xs = [x]
            for _ in range(ns - 1):
                xs.append(xs[-1] * -0.9 + 0.3)
            want = torch.stack([fq(t) for t in xs]).mean(dim=0)
            if not torch.allclose(v, want, rtol=1e-12, atol=1e-14):
                ctx.fail("oracle", "mcquad:mhcustom:%s-step" % style, {"nsamples": ns, "nburnout": nb, "step": "x <- -0.9 x + 0.3, " + style}, v, want)


def aliased_params_probe(ctx):
    """one tensor passed in two slots of fparams: the gradient is the mean of the TOTAL derivative of f on the samples (finding F38:
    the backward differentiates by tensor identity and returns twice the gradient)"""
    from xitorch.integrate import mcquad
    a = torch.tensor(0.7, dtype=DT, requires_grad=True)
    step = lambda x, *p: x * -0.9 + 0.3
    v = mcquad(lambda x, p, q: (p * x * x + q * x).sum(), lambda x: -(x * x).sum(), torch.tensor([0.4], dtype=DT), fparams=(a, a),
               method="mhcustom", custom_step=step, nsamples=5, nburnout=1)
    g, = torch.autograd.grad(v, a)
    xs = [torch.tensor([0.4], dtype=DT)]
    for _ in range(4):
        xs.append(step(xs[-1]))
    want = float(sum((t * t + t).sum() for t in xs)) / 5
    ctx.count(("mcquad-aliased-params",), nontrivial=True)
    if not abs(float(g) - want) <= 1e-10:
        ctx.fail("oracle", "mcquad:aliased-explicit-params", {"call": "mcquad(lambda x, p, q: p*x*x + q*x, logp, x0, fparams=(a, a), deterministic sampler)"},
                 float(g), want)


def round4_probes(ctx):
    """(a) backward options never change the forward value, even when they name sampler options (round-4 seed C16/10: the sampler ran
    with the merged backward configuration);  (b) mh proposes an independent step for every coordinate of x (C16/11: one scalar
    step shared by all coordinates);  (c) a parameter without grad in front of a differentiable one: each gradient lands in its
    own slot (C16/12: gradients returned without being re-interleaved)"""
    from xitorch.integrate import mcquad
    step = lambda x, *p: x * -0.9 + 0.3
    fq = lambda x, a: (a * x * x + torch.sin(x)).sum()
    a = torch.tensor(0.7, dtype=DT, requires_grad=True)
    for method, kw in (("mhcustom", dict(custom_step=step, nsamples=30, nburnout=2)), ("_dummy1d", dict(nsamples=30))):
        x0 = torch.tensor([0.4], dtype=DT)
        logp = (lambda x: -(x * x).sum())
        try:
            v0 = mcquad(fq, logp, x0.clone(), fparams=(a,), method=method, **kw)
            v1 = mcquad(fq, logp, x0.clone(), fparams=(a,), method=method, bck_options={"nsamples": 4, "nburnout": 0}, **kw)
        except Exception as e:
            ctx.fail("oracle", "mcquad:%s:bck-options:exception" % method, {}, repr(e)[:200], "the forward value")
            continue
        ctx.count(("bck-options-vs-forward", method), nontrivial=True)
        if not torch.allclose(v0, v1, rtol=1e-13, atol=0):
            ctx.fail("oracle", "mcquad:%s:forward-uses-backward-options" % method, {"nsamples": 30, "bck_options": {"nsamples": 4, "nburnout": 0}},
                     [float(v0), float(v1)], "the same value with and without bck_options")
    # (b)
    torch.manual_seed(ctx.seed + 5)
    for dim in (2, 3):
        v = mcquad(lambda x: ((x[0] - x[-1]) ** 2).reshape(1), lambda x: -(x * x).sum(), torch.zeros(dim, dtype=DT), method="mh", step_size=1.0,
                   nsamples=200, nburnout=10)
        ctx.count(("mh-independent-coordinates", dim), nontrivial=True)
        if not float(v) > 0.05:
            ctx.fail("oracle", "mcquad:mh:coordinates-move-together", {"x0": "zeros(%d)" % dim, "f": "(x[0] - x[-1])^2", "target": "standard normal"},
                     float(v), "about 2 (the coordinates are independent); exactly 0 means one shared step")
    # (c)
    c_ng = torch.tensor(2.0, dtype=DT)
    outs = {}
    for order, f_, prm in (("nograd-first", lambda x, c, a_: (a_ * x * x * c + torch.sin(x)).sum(), lambda a_: (c_ng, a_)),
                           ("grad-first", lambda x, a_, c: (a_ * x * x * c + torch.sin(x)).sum(), lambda a_: (a_, c_ng))):
        a_ = torch.tensor(0.7, dtype=DT, requires_grad=True)
        try:
            v = mcquad(f_, lambda x: -(x * x).sum(), torch.tensor([0.4], dtype=DT), fparams=prm(a_), method="mhcustom", custom_step=step, nsamples=8, nburnout=1)
            g1, = torch.autograd.grad(v, a_, create_graph=True, allow_unused=True)
            g2 = torch.autograd.grad(g1, a_, allow_unused=True)[0] if g1 is not None and g1.requires_grad else None
            outs[order] = (float(v), None if g1 is None else float(g1), None if g2 is None else float(g2))
        except Exception as e:
            ctx.fail("oracle", "mcquad:param-order:%s:exception" % order, {}, repr(e)[:200], "gradients")
    ctx.count(("param-order",), nontrivial=True)
    if len(outs) == 2 and (outs["nograd-first"][1] is None or abs(outs["nograd-first"][0] - outs["grad-first"][0]) > 1e-12
                           or abs(outs["nograd-first"][1] - outs["grad-first"][1]) > 1e-12):
        ctx.fail("oracle", "mcquad:gradient-in-the-wrong-slot", {"fparams": "(c without grad, a)"}, outs["nograd-first"], outs["grad-first"])


def failed_backward_then_reuse_probe(ctx):
    """a module integrand over a sequence: call; a graph-recording backward in which the integrand raises at one evaluation (caught by
    the caller); in-place update of the module's parameter; call again - the module still holds the caller's tensor and the second
    call returns the sample mean with the CURRENT parameter, with its gradient (round-5 seed C16/14: the substitution of the object's
    parameters inside the backward lost its try/finally, the module kept a stale clone)"""
    import xitorch as xt
    from xitorch.integrate import mcquad
    DTt = torch.float64

    class Integrand(xt.EditableModule):
        def __init__(self, a):
            self.a = a
            self.ncalls = 0
            self.fail_at = None

        def forward(self, x):
            self.ncalls += 1
            if self.fail_at is not None and self.ncalls == self.fail_at:
                raise RuntimeError("transient failure in the user's integrand")
            return self.a * x * x

        def getparamnames(self, methodname, prefix=""):
            return [prefix + "a"]
    logp = lambda x, w: -x * x / (2 * w * w)
    step = lambda x, w: x + 1.0
    mean_x2 = (0.0 + 1.0 + 4.0 + 9.0) / 4
    for k in (1, 2, 3, 5):
        a = torch.tensor(2.0, dtype=DTt, requires_grad=True)
        w = torch.tensor(1.0, dtype=DTt, requires_grad=True)
        obj = Integrand(a)
        run = lambda: mcquad(obj.forward, logp, torch.tensor(0.0, dtype=DTt), fparams=[], pparams=[w], method="mhcustom",
                             custom_step=step, nsamples=4, nburnout=1)
        ctx.count(("failed-recorded-backward-then-reuse", k), nontrivial=True)
        info = {"integrand": "EditableModule a x^2", "sampler": "mhcustom x -> x + 1 (samples 0, 1, 2, 3)",
                "integrand_raises_at_evaluation_of_backward": k}
        try:
            with warnings.catch_warnings():
                warnings.simplefilter("ignore")
                res1 = run()
                obj.fail_at = obj.ncalls + k
                raised = False
                try:
                    torch.autograd.grad(res1, (a, w), create_graph=True, allow_unused=True)
                except RuntimeError:
                    raised = True
                obj.fail_at = None
                held = obj.a is a
                with torch.no_grad():
                    a.mul_(2.0)
                res2 = run()
                ga, = torch.autograd.grad(res2, a, allow_unused=True)
        except Exception as e:
            ctx.fail("oracle", "mcquad:failed-backward-then-reuse:exception", info, repr(e)[:300], "values")
            continue
        ok = held and abs(float(res1.detach()) - 2.0 * mean_x2) < 1e-10 and abs(float(res2.detach()) - 4.0 * mean_x2) < 1e-10 \
            and ga is not None and abs(float(ga) - mean_x2) < 1e-10
        if not ok:
            ctx.fail("oracle", "mcquad:failed-backward-then-reuse", dict(info, backward_raised=raised),
                     {"module_holds_callers_tensor": held, "first": float(res1.detach()), "second": float(res2.detach()), "dsecond_da": None if ga is None else float(ga)},
                     {"first": 2.0 * mean_x2, "second": 4.0 * mean_x2, "dsecond_da": mean_x2})


def caller_x0_probe(ctx):
    """the built-in samplers leave the caller's x0 alone: it has the same values after the call, and a second call with the SAME x0 object
    and the same seed returns the same result (round-6 seed C16/15: an accepted move of mh was copied into x, which starts as an alias
    of x0)"""
    from xitorch.integrate import mcquad
    DTt = torch.float64
    for meth, kw in (("mh", {"step_size": 0.8}), ("mhcustom", {"custom_step": lambda x, *p: x + 0.3})):
        x0 = torch.tensor([0.5, -0.25], dtype=DTt)
        x0c = x0.clone()
        mu = torch.tensor([0.2, 0.1], dtype=DTt)
        outs = []
        ctx.count(("caller-x0", meth), nontrivial=True)
        try:
            for rep in range(2):
                torch.manual_seed(1234)
                outs.append(mcquad(lambda x: (x * x).sum(), lambda x, m: -((x - m) ** 2).sum(), x0, fparams=[], pparams=[mu], method=meth,
                                   nsamples=60, nburnout=10, **kw))
        except Exception as e:
            ctx.fail("oracle", "mcquad:%s:caller-x0:exception" % meth, {}, repr(e)[:200], "a value")
            continue
        if not torch.equal(x0, x0c) or not torch.equal(outs[0], outs[1]):
            ctx.fail("oracle", "mcquad:%s:caller-x0-modified" % meth, {"x0": x0c.tolist(), "nsamples": 60},
                     {"x0_after": x0.tolist(), "first": float(outs[0]), "second_same_seed": float(outs[1])}, "x0 unchanged and the two calls equal")


def oracle(ctx):
    import xitorch as xt
    from xitorch.integrate import mcquad
    rng = ctx.rng
    inplace_step_probe(ctx)
    round4_probes(ctx)
    aliased_params_probe(ctx)
    failed_backward_then_reuse_probe(ctx)
    caller_x0_probe(ctx)
    step = lambda x, *p: x * -0.9 + 0.3
    for rep in range(ctx.n(4, 20)):
        ns, nb = rng.randrange(2, 9), rng.randrange(1, 5)
        x0 = torch.tensor([rng.randrange(-8, 9) / 8], dtype=DT)
        a = (torch.rand(2, dtype=DT) + 0.5).requires_grad_()
        b = (torch.rand(2, dtype=DT) - 0.5).requires_grad_()
        c = torch.tensor(0.7, dtype=DT, requires_grad=True)      # enters log p only
        u = torch.tensor(1.1, dtype=DT, requires_grad=True)      # enters nothing
        kw = dict(method="mhcustom", custom_step=step, nsamples=ns, nburnout=nb)
        # explicit samples
        x = x0
        for _ in range(nb - 1):
            x = step(x)
        xs = [x]
        for _ in range(ns - 1):
            xs.append(step(xs[-1]))
        f = lambda x, a, b: a * a * x * x + b * torch.sin(x) * a
        logp = lambda x, c: -(c * x * x).sum()
        info = {"nsamples": ns, "nburnout": nb, "x0": float(x0)}
        ctx.count(("oracle", ns, nb, float(x0)))
        # constant, linearity, tuple
        k = mcquad(lambda x: torch.tensor([2.5, -1.0], dtype=DT), lambda x: -(x * x).sum(), x0, **kw)
        if not torch.allclose(k, torch.tensor([2.5, -1.0], dtype=DT), rtol=1e-13, atol=0):
            ctx.fail("oracle", "mcquad:constant", info, k, [2.5, -1.0])
        g1 = lambda x: torch.cos(x) * x
        g2 = lambda x: x * x + 1
        lhs = mcquad(lambda x: 2.0 * g1(x) - 3.0 * g2(x), lambda x: -(x * x).sum(), x0, **kw)
        rhs = 2.0 * mcquad(g1, lambda x: -(x * x).sum(), x0, **kw) - 3.0 * mcquad(g2, lambda x: -(x * x).sum(), x0, **kw)
        if not torch.allclose(lhs, rhs, rtol=1e-12, atol=1e-14):
            ctx.fail("oracle", "mcquad:linearity", info, lhs, rhs)
        tup = mcquad(lambda x: (g1(x), g2(x).reshape(1, 1)), lambda x: -(x * x).sum(), x0, **kw)
        if not (isinstance(tup, (tuple, list)) and torch.allclose(tup[0], mcquad(g1, lambda x: -(x * x).sum(), x0, **kw)) and
                tup[1].shape == (1, 1) and torch.allclose(tup[1].reshape(-1), mcquad(g2, lambda x: -(x * x).sum(), x0, **kw))):
            ctx.fail("oracle", "mcquad:tuple", info, tup, "component-wise means")
        # value and gradients: explicit weighted sums on the same samples
        for holder in ("explicit", "object"):
            if holder == "explicit":
                out = mcquad(f, logp, x0, fparams=(a, b), pparams=(c,), **kw)
            else:
                class FM(xt.EditableModule):
                    def __init__(self):
                        self.a, self.b, self.unused = a, b, u

                    def f(self, x):
                        return f(x, self.a, self.b)

                    def getparamnames(self, methodname, prefix=""):
                        return [prefix + "a", prefix + "b", prefix + "unused"]

                class PM(torch.nn.Module):
                    def __init__(self):
                        super().__init__()
                        self.c = torch.nn.Parameter(c.detach().clone())

                    def forward(self, x):
                        return logp(x, self.c)
                pm = PM()
                out = mcquad(FM().f, pm.forward, x0, **kw)
            fs = torch.stack([f(xi, a, b) for xi in xs])              # (ns, 2)
            E = fs.mean(dim=0)
            if not torch.allclose(out, E, rtol=1e-12, atol=1e-14):
                ctx.fail("oracle", "mcquad:value:" + holder, info, out, E)
                continue
            wgt = torch.tensor([0.3, -1.2], dtype=DT)
            cc = c if holder == "explicit" else pm.c
            lv = [a, b, cc] + ([u] if holder == "object" else [])
            try:
                got = torch.autograd.grad((out * wgt).sum(), lv, create_graph=True, allow_unused=True)
            except Exception as e:
                ctx.fail("oracle", "mcquad:grad-exception:" + holder, info, repr(e)[:200], "zero or absent gradient for unused tensors")
                continue
            # expected: mean of df for a, b; score-function estimator for c
            ref_ab = torch.autograd.grad((E * wgt).sum(), [a, b], create_graph=True)
            lps = torch.stack([logp(xi, cc) for xi in xs])
            score = (((fs.detach() - E.detach()) * wgt).sum(dim=-1) * lps).mean()
            ref_c = torch.autograd.grad(score, [cc], create_graph=True)[0]
            exp = [ref_ab[0], ref_ab[1], ref_c]
            for nm, x_, y_ in zip(["a", "b", "c"], got, exp):
                if x_ is None or not torch.allclose(x_, y_, rtol=1e-10, atol=1e-13):
                    ctx.fail("oracle", "mcquad:grad:%s:%s" % (holder, nm), info, x_, y_)
            if holder == "object" and got[3] is not None and got[3].abs().max() != 0:
                ctx.fail("oracle", "mcquad:grad:unused-nonzero", info, got[3], "zero or None")
            # second order w.r.t. a of the a-gradient: mean of d2f
            try:
                g2nd = torch.autograd.grad(got[0].sum(), [a, b], allow_unused=True)
                r2nd = torch.autograd.grad(ref_ab[0].sum(), [a, b], allow_unused=True)
                for nm, x_, y_ in zip(["aa", "ab"], g2nd, r2nd):
                    x_ = torch.zeros_like(a) if x_ is None else x_
                    y_ = torch.zeros_like(a) if y_ is None else y_
                    if not torch.allclose(x_, y_, rtol=1e-9, atol=1e-12):
                        ctx.fail("oracle", "mcquad:grad2:%s:%s" % (holder, nm), info, x_, y_)
            except Exception as e:
                ctx.fail("oracle", "mcquad:grad2-exception:" + holder, info, repr(e)[:200], "second-order gradient")
        # deterministic 1-D quadrature sampler: the backward is the derivative of the forward value itself
        cq = torch.tensor(0.8, dtype=DT, requires_grad=True)
        aq = torch.tensor(1.3, dtype=DT, requires_grad=True)
        fq = lambda x, aq: (aq * x * x + torch.cos(aq * x)).reshape(())
        lq = lambda x, cq: (-(cq * x * x)).reshape(())
        with warnings.catch_warnings():
            warnings.simplefilter("ignore")
            outq = mcquad(fq, lq, torch.zeros(1, dtype=DT), fparams=(aq,), pparams=(cq,), method="_dummy1d", nsamples=40,
                          lb=-2.0, ub=3.0)
        import numpy as np
        tl, tu = math.atan(-2.0), math.atan(3.0)
        tlg, wlg = np.polynomial.legendre.leggauss(40)
        ts = torch.tensor(tlg, dtype=DT) * (0.5 * (tu - tl)) + 0.5 * (tu + tl)
        xq = torch.tan(ts)
        wq = torch.cos(ts) ** (-2.0) * torch.tensor(wlg, dtype=DT) * (0.5 * (tu - tl)) * torch.exp(-cq * xq * xq)
        Wq = wq / wq.sum()
        Eq = (Wq * (aq * xq * xq + torch.cos(aq * xq))).sum()
        if not torch.allclose(outq, Eq, rtol=1e-11, atol=1e-13):
            ctx.fail("oracle", "mcquad:dummy1d:value", info, outq, Eq)
        gq = torch.autograd.grad(outq, [aq, cq], create_graph=True)
        rq = torch.autograd.grad(Eq, [aq, cq], create_graph=True)
        for nm, x_, y_ in zip(["a", "c"], gq, rq):
            if not torch.allclose(x_, y_, rtol=1e-8, atol=1e-11):
                ctx.fail("oracle", "mcquad:dummy1d:grad:" + nm, info, x_, y_)
        g2q = torch.autograd.grad(gq[0], [aq, cq], allow_unused=True)
        r2q = torch.autograd.grad(rq[0], [aq, cq], allow_unused=True)
        for nm, x_, y_ in zip(["aa", "ac"], g2q, r2q):
            if x_ is None or not torch.allclose(x_, y_, rtol=1e-7, atol=1e-10):
                ctx.fail("oracle", "mcquad:dummy1d:grad2:" + nm, info, x_, y_)
    # an integrand that holds its parameter in an object next to a log-density with an EXPLICIT parameter: each function gets
    # its own tensors (seeded defect C16/4: the offset of the object parameters dropped from the split of the packed list);
    # deterministic sampler, so the three forms must agree to rounding
    import xitorch as xt

    class FHold(xt.EditableModule):
        def __init__(self, a_):
            self.a = a_

        def f(self, x):
            return torch.exp(-self.a * x * x).sum()

        def getparamnames(self, methodname, prefix=""):
            return [prefix + "a"]
    detstep = lambda x, *p: x * -0.8 + 0.15
    pstep = lambda x, s: x * -0.8 + 0.15 * s.detach()          # the custom step receives the log-density's parameters
    vals = {}
    for kind in ("pure", "EditableModule"):
        a_ = torch.tensor(0.3, dtype=DT, requires_grad=True)
        s_ = torch.tensor(1.2, dtype=DT, requires_grad=True)
        logp_ = lambda x, s: -(x * x).sum() * s
        if kind == "pure":
            v = mcquad(lambda x, a: torch.exp(-a * x * x).sum(), logp_, torch.zeros(1, dtype=DT), fparams=(a_,), pparams=(s_,),
                       method="mhcustom", custom_step=pstep, nsamples=15, nburnout=2)
        else:
            v = mcquad(FHold(a_).f, logp_, torch.zeros(1, dtype=DT), fparams=(), pparams=(s_,),
                       method="mhcustom", custom_step=pstep, nsamples=15, nburnout=2)
        ga, gs = torch.autograd.grad(v, (a_, s_), allow_unused=True)
        vals[kind] = [v.detach(), torch.zeros(()) if ga is None else ga, torch.zeros(()) if gs is None else gs]
        ctx.count(("pparams-with-object-params", kind), nontrivial=True)
    if any(not torch.allclose(x_.to(DT), y_.to(DT), rtol=1e-10, atol=1e-12) for x_, y_ in zip(vals["EditableModule"], vals["pure"])):
        ctx.fail("oracle", "mcquad:pparams-next-to-object-params", {"integrand": "EditableModule method", "log_p": "explicit parameter"},
                 [float(t) for t in vals["EditableModule"]], [float(t) for t in vals["pure"]])
    # tuple-valued integrand whose parameter is held by an object, gradients taken with create_graph=True and once more (round-3
    # seed C16/9: the tuple branch made the wrapper a sibling of the log-density instead of the integrand, so the copies installed
    # for a graph-recording backward never reached the object of f)
    class FHoldT(xt.EditableModule):
        def __init__(self, a_):
            self.a = a_

        def f(self, x):
            return torch.exp(-self.a * x * x).sum(), (self.a * self.a * x).sum()

        def getparamnames(self, methodname, prefix=""):
            return [prefix + "a"]

    class NetT(torch.nn.Module):
        def __init__(self, a_):
            super().__init__()
            self.a = torch.nn.Parameter(a_.detach().clone())

        def forward(self, x):
            return torch.exp(-self.a * x * x).sum(), (self.a * self.a * x).sum()
    valt = {}
    for kind in ("pure", "EditableModule", "nn.Module"):
        a_ = torch.tensor(0.3, dtype=DT, requires_grad=True)
        s_ = torch.tensor(1.2, dtype=DT, requires_grad=True)
        logp_ = lambda x, s: -(x * x).sum() * s
        kwt = dict(pparams=(s_,), method="mhcustom", custom_step=pstep, nsamples=12, nburnout=2)
        if kind == "pure":
            vt = mcquad(lambda x, a: (torch.exp(-a * x * x).sum(), (a * a * x).sum()), logp_, torch.zeros(1, dtype=DT), fparams=(a_,), **kwt)
            leaf = a_
        elif kind == "EditableModule":
            vt = mcquad(FHoldT(a_).f, logp_, torch.zeros(1, dtype=DT), fparams=(), **kwt)
            leaf = a_
        else:
            net_ = NetT(a_)
            vt = mcquad(net_.forward, logp_, torch.zeros(1, dtype=DT), fparams=(), **kwt)
            leaf = net_.a
        tot = vt[0] + 0.5 * vt[1]
        g1a, g1s = torch.autograd.grad(tot, (leaf, s_), create_graph=True, allow_unused=True)
        z = lambda t: torch.zeros((), dtype=DT) if t is None else t
        g2a = torch.autograd.grad(z(g1a) + z(g1s), leaf, allow_unused=True)[0] if (z(g1a) + z(g1s)).requires_grad else None
        valt[kind] = [tot.detach(), z(g1a).detach(), z(g1s).detach(), z(g2a).detach()]
        ctx.count(("tuple-integrand-object-params", kind), nontrivial=True)
    for kind in ("EditableModule", "nn.Module"):
        for nm, x_, y_ in zip(("value", "d/da", "d/ds", "d2/da"), valt[kind], valt["pure"]):
            if not torch.allclose(x_, y_, rtol=1e-9, atol=1e-12):
                ctx.fail("oracle", "mcquad:tuple-integrand:%s:%s" % (kind, nm), {"integrand": "tuple-valued method of " + kind, "gradient": "create_graph=True, then once more"},
                         float(x_), float(y_))
                break
    # tensors that require grad but do not enter f get a zero (or absent) gradient, not an exception (seeded defect C16/6)
    for case in ("unused-fparam", "module-with-unused-parameter"):
        c_ = torch.tensor(0.5, dtype=DT, requires_grad=True)
        t_ = torch.tensor(2.0, dtype=DT, requires_grad=True)
        s_ = torch.tensor(1.1, dtype=DT, requires_grad=True)
        ctx.count(("mcquad-unused", case), nontrivial=True)
        try:
            if case == "unused-fparam":
                v = mcquad(lambda x, c, t: (c * x * x).sum(), lambda x, s: -(x * x).sum() * s, torch.zeros(1, dtype=DT), fparams=(c_, t_),
                           pparams=(s_,), method="mhcustom", custom_step=detstep, nsamples=10, nburnout=1)
                gt = torch.autograd.grad(v, (c_, t_, s_), allow_unused=True)[1]
            else:
                class NetU(torch.nn.Module):
                    def __init__(self):
                        super().__init__()
                        self.w = torch.nn.Parameter(torch.tensor(2.0, dtype=DT))

                    def forward(self, x):
                        return (x * x).sum()              # uses none of its parameters
                net = NetU()
                v = mcquad(net.forward, lambda x, s: -(x * x).sum() * s, torch.zeros(1, dtype=DT), pparams=(s_,), method="mhcustom",
                           custom_step=detstep, nsamples=10, nburnout=1)
                gt = torch.autograd.grad(v, (net.w, s_), allow_unused=True)[0]
        except Exception as e:
            ctx.fail("oracle", "mcquad:unused-tensor:exception", {"case": case}, repr(e)[:200], "a zero or absent gradient")
            continue
        if gt is not None and float(gt.abs().max()) != 0.0:
            ctx.fail("oracle", "mcquad:unused-tensor:nonzero", {"case": case}, float(gt), "zero or None")
    # the collection phase continues from the burned-in state (seeded defect C16/3): target N(30, 1), chain started at 0 with
    # unit steps; after 1500 burn-in steps every collected sample lies in 30 +- 8 (> 6 sigma), whatever the seed
    for seed in range(3):
        torch.manual_seed(100 + seed)
        fcalls = []

        def fcol(x):
            fcalls.append(float(x))
            return x
        r = float(mcquad(fcol, lambda x: -(x - 30.0) ** 2 / 2, torch.tensor(0.0, dtype=DT), method="mh", nsamples=30, nburnout=1500,
                         step_size=1.0))
        ctx.count(("mh-burn-in-carried-over", seed))
        smp = fcalls[1:]
        if len(smp) != 30 or min(smp) < 22.0 or max(smp) > 38.0 or abs(r - 30.0) > 5.0:
            ctx.fail("oracle", "mcquad:mh:burn-in-state-discarded", {"target": "N(30,1)", "x0": 0.0, "nburnout": 1500, "nsamples": 30, "seed": 100 + seed},
                     {"mean": r, "min": min(smp) if smp else None, "max": max(smp) if smp else None, "n": len(smp)},
                     "30 samples within 30 +- 8")
            break
    # mh over seeds, statistical tolerance (search only in quick tier)
    if ctx.thorough():
        for seed in range(6):
            torch.manual_seed(seed)
            m = mcquad(lambda x: torch.stack([x.sum(), (x * x).sum()]), lambda x: -0.5 * (x * x).sum(), torch.zeros(1, dtype=DT),
                       method="mh", nsamples=20000, nburnout=2000, step_size=1.0)
            if not (abs(float(m[0])) <= 0.15 and abs(float(m[1]) - 1.0) <= 0.2):
                ctx.fail("oracle", "mcquad:mh:moments", {"seed": seed}, m, "mean 0, variance 1 within 5 sigma")
            ctx.count(("mh-moments", seed))


def search(ctx):
    oracle(ctx)

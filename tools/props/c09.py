"""C09 — a function gives the same results however its parameters are supplied.

Tie (exact): Model/PureFn.v (Uniquifier + substitution) against xitorch._utils.unique.Uniquifier,
  EditableModule.getuniqueparams/setuniqueparams and PureFunction.useobjparams on random aliasing
  patterns: unique index lists, inverse maps, what user code sees under a substitution.
Oracle (implementation): every functional x every function kind of tools/fkinds.py returns the same
  value and the same first/second-order gradients w.r.t. the underlying leaves as the pure form."""
from __future__ import annotations
import warnings
import torch
from vlib import cnat, clist, cbool, coq_bool_cases
import fkinds, workloads

RULE = ("(a) random lists of 1-8 parameter slots over 1-5 distinct tensors (all aliasing patterns up to 5 slots in "
        "the thorough tier) x substitutions; (b) 12 functional workloads x 9 function kinds (pure, nn.Module, nested "
        "nn.Module, EditableModule with derived / aliased / list- and dict-held tensors, nn.Module inside "
        "EditableModule, single and multiple siblings, explicit+object+non-tensor parameters) x gradient order 0/1/2; "
        "distinct = (workload, kind, order) or (aliasing pattern, substitution); non-trivial = kind other than pure")
TRUSTED = ["harness tools/props/c09.py, tools/fkinds.py, tools/workloads.py"]
ASSUMPTIONS = ["scripted (torch.jit) functions are covered only as FunctionPureFunction pass-through"]
HEADER = "From XV Require Import Model.Packer Model.PureFn.\n"


def nl(xs):
    return clist([cnat(int(x)) for x in xs])


def uniq_cases(ctx, cases, meta):
    import xitorch as xt
    from xitorch._utils.unique import Uniquifier
    from xitorch._core.pure_function import get_pure_function
    import itertools
    rng = ctx.rng
    patterns = []
    for _ in range(ctx.n(150, 600)):
        n = rng.randrange(1, 9)
        k = rng.randrange(1, 6)
        patterns.append([rng.randrange(k) for _ in range(n)])
    if ctx.thorough():
        for n in range(1, 6):
            patterns.extend([list(p) for p in itertools.product(range(n), repeat=n)])
    for pat in patterns:
        pool = {i: torch.tensor(float(i)) for i in set(pat)}
        allobjs = [pool[i] for i in pat]
        idmap = {id(t): i for i, t in pool.items()}
        u = Uniquifier(allobjs)
        cases.append("nats_eqb (fst (uniq_ids %s)) %s && nats_eqb (snd (uniq_ids %s)) %s && nats_eqb (unique_objs %s) %s" % (
            nl(pat), nl(u.unique_idxs), nl(pat), nl(u.nonunique_map_idxs), nl(pat), nl([idmap[id(t)] for t in u.get_unique_objs()])))
        meta.append({"kind": "uniquifier", "pattern": pat})
        # substitution through an EditableModule + PureFunction
        class EM(xt.EditableModule):
            def __init__(self, ts):
                self.ts = list(ts)

            def run(self):
                return [id(t) for t in self.ts]

            def getparamnames(self, methodname, prefix=""):
                return [prefix + "ts[%d]" % i for i in range(len(self.ts))]
        em = EM(allobjs)
        pf = get_pure_function(em.run)
        nu = len(u.unique_idxs)
        new = [torch.tensor(100.0 + j) for j in range(nu)]
        for j, t in enumerate(new):
            idmap[id(t)] = 100 + j
        with pf.useobjparams(new):
            seen = [idmap[i] for i in em.run()]
        after = [idmap[i] for i in em.run()]
        cases.append("nats_eqb (map_unique (snd (uniq_ids %s)) %s) %s" % (nl(pat), nl(range(100, 100 + nu)), nl(seen)))
        meta.append({"kind": "substitution", "pattern": pat, "seen": seen})
        if after != pat:
            ctx.fail("oracle", "purefn:not-restored", {"pattern": pat}, after, pat)
        # EditableModule's own unique maps
        ups = em.getuniqueparams("run")
        if [idmap[id(t)] for t in ups] != [idmap[id(t)] for t in u.get_unique_objs()]:
            ctx.fail("oracle", "editable:getuniqueparams", {"pattern": pat}, [idmap[id(t)] for t in ups], "first occurrences")
        em.setuniqueparams("run", *new)
        seen2 = [idmap[i] for i in em.run()]
        em.setuniqueparams("run", *ups)
        if seen2 != seen or [idmap[i] for i in em.run()] != pat:
            ctx.fail("oracle", "editable:setuniqueparams", {"pattern": pat}, seen2, seen)
        ctx.count(("uniq", tuple(pat)), nontrivial=len(set(pat)) < len(pat))
    ctx.sample({"kind": "uniquifier", "pattern": patterns[0]})


def api_oracle(ctx):
    nseeds = ctx.n(1, 3)
    for seed in range(nseeds):
        for w in workloads.WORKLOADS:
            ref = None
            for order in (2,):
                t1, t2 = workloads.leaves(seed)
                vs = fkinds.variants(w.F, t1, t2, extra_first=w.extra_first)
                for v in vs:
                    try:
                        out = w.forward(v)
                        res = workloads.grads(out, v.leaves, order)
                    except Exception as e:
                        ctx.fail("oracle", "kinds:%s:%s:exception" % (w.name, v.name), {"workload": w.name, "kind": v.name},
                                 repr(e)[:300], "every function kind is accepted")
                        continue
                    ctx.count(("api", w.name, v.name, order, seed), nontrivial=v.name != "pure")
                    ctx.stat("kind:" + v.name)
                    if v.name == "pure":
                        ref = res
                        continue
                    if ref is None:
                        continue
                    names = ["value", "d/dth1", "d/dth2", "d2/dth1", "d2/dth2"]
                    for nm, x, y in zip(names, ref, res):
                        tol_r, tol_a = (w.rtol, w.atol) if not nm.startswith("d2") else (w.rtol * 100, w.atol * 100)
                        if x.shape != y.shape or not torch.allclose(x, y, rtol=tol_r, atol=tol_a):
                            ctx.fail("oracle", "kinds:%s:%s:%s" % (w.name, v.name, nm),
                                     {"workload": w.name, "kind": v.name, "seed": seed, "which": nm},
                                     {"pure": x, "this": y}, "same value and gradients as the pure form")
                            break
    ctx.sample({"kind": "api", "workloads": [w.name for w in workloads.WORKLOADS]})


def reuse_after_failure_oracle(ctx):
    """a call whose user function raised in the middle of the backward pass, caught by the caller; the SAME object is then used
    again: value and gradients w.r.t. the caller's leaves still equal those of the pure form
    (round-3 seed C09/9: the temporary substitution was not undone on an exception, the object kept a stale copy)"""
    for w in workloads.WORKLOADS:
        if w.name not in ("rootfinder", "equilibrium", "solve_ivp", "quad"):
            continue
        t1, t2 = workloads.leaves(0)
        tick = fkinds.Ticker()
        vs = fkinds.variants(w.F, t1, t2, tick=tick, extra_first=w.extra_first)
        done = []
        for v in vs:
            if v.name != "pure" and not v.objects:
                continue
            try:
                tick.reset(None)
                out = w.forward(v)
                nfwd = tick.n
                tick.reset(None)
                workloads.grads(w.forward(v), v.leaves, 1)
                nbwd = tick.n - nfwd
            except Exception as e:
                continue                      # reported by api_oracle
            for k in sorted({0, max(0, nbwd - 1)}) if nbwd > 0 else []:
                out = w.forward(v)
                tick.reset(k)
                try:
                    workloads.grads(out, v.leaves, 1)
                except (fkinds.Ticker.Boom, Exception):
                    pass
                tick.reset(None)
            done.append(v)
        ref = None
        for v in done:
            try:
                res = workloads.grads(w.forward(v), v.leaves, 1)
            except Exception as e:
                ctx.fail("oracle", "kinds:%s:%s:reuse-after-failed-backward:exception" % (w.name, v.name), {"workload": w.name, "kind": v.name},
                         repr(e)[:300], "the object is usable after a failed call")
                continue
            ctx.count(("reuse-after-failure", w.name, v.name), nontrivial=v.name != "pure")
            if v.name == "pure":
                ref = res
                continue
            if ref is None:
                continue
            for nm, x, y in zip(["value", "d/dth1", "d/dth2"], ref, res):
                if x.shape != y.shape or not torch.allclose(x, y, rtol=w.rtol, atol=w.atol):
                    ctx.fail("oracle", "kinds:%s:%s:reuse-after-failed-backward:%s" % (w.name, v.name, nm),
                             {"workload": w.name, "kind": v.name, "history": "backward raised in user code, same object used again"},
                             {"pure": x, "this": y}, "same value and gradients as the pure form")
                    break


def jac_partial_substitution_probe(ctx):
    """the Jacobian operator of jac(): replacing ONLY the function's own parameter through the operator's public parameter interface
    (getlinopparams / uselinopparams), with the differentiated input left the same tensor, gives the products and the gradient of
    the new parameter - for an explicit parameter, a torch.nn.Module parameter and an EditableModule attribute alike (round-5 seed
    C09/13: the staleness test of the cached graph looked at the explicit tensors only)"""
    import xitorch as xt
    from xitorch.grad import jac
    DT = torch.float64
    g = torch.Generator().manual_seed(ctx.seed + 41)

    def f_explicit(x, a):
        return a * x ** 2 + torch.sin(a) * x

    class NNMod(torch.nn.Module):
        def __init__(self, a):
            super().__init__()
            self.a = a

        def forward(self, x):
            return self.a * x ** 2 + torch.sin(self.a) * x

    class EdMod(xt.EditableModule):
        def __init__(self, a):
            self.a = a

        def forward(self, x):
            return self.a * x ** 2 + torch.sin(self.a) * x

        def getparamnames(self, methodname, prefix=""):
            return [prefix + "a"]
    n = 4
    x = torch.rand(n, dtype=DT, generator=g).requires_grad_()
    a = torch.nn.Parameter(torch.rand(n, dtype=DT, generator=g) + 0.5)
    a2 = (a.detach() * 3.0 + 0.25).requires_grad_()
    v = torch.rand(n, dtype=DT, generator=g)
    diag = lambda a_: 2 * a_ * x + torch.sin(a_)
    ops = {"explicit": lambda: jac(f_explicit, (x, a), idxs=0), "nn.Module": lambda: jac(NNMod(a).forward, (x,), idxs=0),
           "EditableModule": lambda: jac(EdMod(a).forward, (x,), idxs=0)}
    for name, mk in ops.items():
        ctx.count(("jac-partial-substitution", name), nontrivial=True)
        try:
            with warnings.catch_warnings():
                warnings.simplefilter("ignore")
                J = mk()
                y0 = J.mv(v)
                params = list(J.getlinopparams())
                newparams = [a2 if p is a else p for p in params]
                with J.uselinopparams(*newparams):
                    y1 = J.mv(v)
                    z1 = J.rmv(v)
                    ga2, = torch.autograd.grad(y1.sum(), a2, allow_unused=True)
                y2 = J.mv(v)
        except Exception as e:
            ctx.fail("oracle", "jac:partial-substitution:exception", {"parameter_kind": name}, repr(e)[:300], "products of the operator")
            continue
        y1_true = diag(a2) * v
        ga2_true, = torch.autograd.grad(y1_true.sum(), a2)
        obs = {"original": bool(torch.allclose(y0, diag(a) * v)), "has_parameter": any(p is a for p in params),
               "mv_substituted": bool(torch.allclose(y1, y1_true)), "rmv_substituted": bool(torch.allclose(z1, y1_true)),
               "grad_new_parameter": ga2 is not None and bool(torch.allclose(ga2, ga2_true)), "restored": bool(torch.allclose(y2, diag(a) * v))}
        if not all(obs.values()):
            ctx.fail("oracle", "jac:partial-substitution:%s" % name, {"parameter_kind": name, "sequence": "jac(); uselinopparams(only a replaced); mv, rmv, grad; mv after exit"},
                     obs, "all true")


def explicit_and_held_probe(ctx):
    """the SAME leaf given as an explicit parameter and held by the function's object (the method uses both routes): rootfinder,
    equilibrium and minimize give the values and the first / second-order gradients of the pure function (round-6 seed C09/16: the
    backward made one differentiable copy per distinct tensor instead of one per position; the gradient was doubled).  quad, solve_ivp
    and mcquad are not probed here: findings F35b, F37, F38"""
    import xitorch as xt
    from xitorch.optimize import rootfinder, equilibrium, minimize
    DT = torch.float64
    a0 = torch.tensor([1.3, 0.8, 2.1], dtype=DT)
    b0 = torch.tensor([0.4, -0.7, 1.1], dtype=DT)
    y0 = torch.zeros(3, dtype=DT)
    w = torch.tensor([1.0, -2.0, 0.5], dtype=DT)
    fpure = {"rootfinder": lambda y, a, b: a * y + torch.tanh(a) * y ** 3 - b,
             "equilibrium": lambda y, a, b: (b - torch.tanh(a) * y ** 3) / a,
             "minimize": lambda y, a, b: (0.5 * a * y ** 2 + 0.25 * torch.tanh(a) * y ** 4 - b * y).sum()}
    fnl = {"rootfinder": rootfinder, "equilibrium": equilibrium, "minimize": minimize}

    class Mod(xt.EditableModule):
        def __init__(self, a, b, f):
            self.a = a
            self.b = b
            self.fp = f

        def f(self, y, a):
            # the object-held route for the linear term, the explicit route for the cubic one
            return self.fp_split(y, self.a, a, self.b)

        def getparamnames(self, methodname, prefix=""):
            return [prefix + "a", prefix + "b"]
    split = {"rootfinder": lambda y, ah, ae, b: ah * y + torch.tanh(ae) * y ** 3 - b,
             "equilibrium": lambda y, ah, ae, b: (b - torch.tanh(ae) * y ** 3) / ah,
             "minimize": lambda y, ah, ae, b: (0.5 * ah * y ** 2 + 0.25 * torch.tanh(ae) * y ** 4 - b * y).sum()}
    for name in ("rootfinder", "equilibrium", "minimize"):
        def run(kind):
            a = a0.clone().requires_grad_()
            b = b0.clone().requires_grad_()
            opts = dict(method="broyden1", f_tol=1e-13, x_tol=1e-13, maxiter=300)
            with warnings.catch_warnings():
                warnings.simplefilter("ignore")
                if kind == "pure":
                    y = fnl[name](fpure[name], y0, params=(a, b), **opts)
                else:
                    mod = Mod(a, b, None)
                    mod.fp_split = split[name]
                    y = fnl[name](mod.f, y0, params=(a,), **opts)
                ga, gb = torch.autograd.grad((y * w).sum(), (a, b), create_graph=True)
                gga, = torch.autograd.grad(ga.sum(), a)
            return y.detach(), ga.detach(), gb.detach(), gga
        ctx.count(("explicit-and-held", name), nontrivial=True)
        try:
            r1, r2 = run("pure"), run("module")
        except Exception as e:
            ctx.fail("oracle", "fkinds:%s:explicit-and-held:exception" % name, {}, repr(e)[:300], "values and gradients")
            continue
        errs = [float((u - v).abs().max()) for u, v in zip(r1, r2)]
        if not (errs[0] <= 1e-8 and errs[1] <= 1e-6 and errs[2] <= 1e-6 and errs[3] <= 1e-5):
            ctx.fail("oracle", "fkinds:%s:explicit-and-held" % name, {"kind": "EditableModule method using self.a AND the explicit argument a (the same leaf)"},
                     {"value": errs[0], "dL_da": errs[1], "dL_db": errs[2], "d2L_da2": errs[3], "ratio_dL_da": (r2[1] / r1[1]).tolist()}, "equal to the pure function")


def check(ctx):
    cases, meta = [], []
    uniq_cases(ctx, cases, meta)
    failed, errors = coq_bool_cases("c09", HEADER, cases, chunk=300)
    ctx.coverage["traces_validated_against_impl"] += len(cases) - len(failed)
    for e in errors:
        ctx.broken("correspondence:purefn", e)
    for i in failed[:3]:
        ctx.broken("correspondence:purefn", {"case": meta[i], "coq": cases[i][:800]})
    api_oracle(ctx)
    reuse_after_failure_oracle(ctx)
    jac_partial_substitution_probe(ctx)
    explicit_and_held_probe(ctx)


def search(ctx):
    api_oracle(ctx)
    reuse_after_failure_oracle(ctx)
    jac_partial_substitution_probe(ctx)
    explicit_and_held_probe(ctx)

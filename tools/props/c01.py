"""C01 — solve returns the solution of AX - MXE = B, or warns that it did not.

Tie (model vs implementation, decisions + 2^-20): Model/Krylov.v at IEEE binary64 against cg / bicgstab
  (called with explicit posdef so that the random power iteration is outside the compared path) on dense
  systems with a counting operator: warned or not, number of operator applications, returned block; runs
  whose decisions change when the thresholds move by 2^-14 are skipped and counted.
  Exact tie of the default-method rule and the broadcast batch shape through the public solve.
Oracle (implementation): operator kinds x methods x {-, E, E+M} x batch patterns x dtypes x spectra:
  shape/dtype; silent => residual within tolerance; direct/cg/bicgstab/broyden1 silent on well-conditioned
  systems and agreeing with the dense reference and with column-by-column / batch-by-batch solves."""
from __future__ import annotations
import math, os, warnings
import torch
from vlib import cnat, clist, cbool, cfloat, coq_nat_cases, coq_bool_cases, load_findings
from props.c07 import fvec

RULE = ("dense systems n in 1..7 x ncols 1..3 x {no E, E, E+M} x posdef {True, False(normal equations)} x max_niter 1..3n x "
        "resid_calc_every {0,1,3,10} x (rtol, atol); distinct = (method, A, B, E, M, options); non-trivial = n >= 2. Oracle: "
        "operator kinds {dense, matrix-free mv-only, mv+rmv, Hermitian-flagged, sum/product/scaled/adjoint, Jacobian} x methods "
        "{exactsolve, custom_exactsolve, cg, bicgstab, gmres, broyden1} x batch patterns x {float32, float64, complex128}")
TRUSTED = ["harness tools/props/c01.py (counting operator)", "torch.linalg.solve / cholesky / lstsq (oracles of the direct and gmres paths)",
           "convergence of Krylov methods in floating point is exercised by the oracle, not proved"]
ASSUMPTIONS = ["with posdef=False the stopping test is on the normal equations (tolerance relative to |A^H B|): the oracle scales the "
               "allowed residual by the condition number"]
HEADER = ("From XV Require Import Base.Ops Base.LinAlg Model.Krylov Model.KrylovRun Base.Shapes Model.Dispatch.\n"
          "From Coq Require Import List PrimFloat String.\nImport ListNotations.\n")
DT = torch.float64


def rand_spd(rng, n, cond=4.0):
    g = torch.Generator().manual_seed(rng.randrange(10 ** 6))
    q, _ = torch.linalg.qr(torch.randn(n, n, dtype=DT, generator=g))
    d = torch.linspace(1.0, cond, n, dtype=DT)
    a = (q * d) @ q.T
    return (a + a.T) / 2


def fmat(m):
    return clist([fvec(r) for r in m.tolist()])


class Counter:
    def __init__(self):
        self.n = 0


def counting_op(xt, mat, herm, cnt):
    class Op(xt.LinearOperator):
        def __init__(self):
            super().__init__(shape=mat.shape, is_hermitian=herm, dtype=mat.dtype, device=mat.device)
            self.mat = mat

        def _mv(self, x):
            return torch.matmul(self.mat, x.unsqueeze(-1)).squeeze(-1)

        def _mm(self, x):
            cnt.n += 1
            return torch.matmul(self.mat, x)

        def _rmm(self, x):
            cnt.n += 1
            return torch.matmul(self.mat.transpose(-2, -1).conj(), x)

        def _rmv(self, x):
            return torch.matmul(self.mat.transpose(-2, -1).conj(), x.unsqueeze(-1)).squeeze(-1)

        def _getparamnames(self, prefix=""):
            return [prefix + "mat"]
    return Op()


def check(ctx):
    import xitorch as xt
    from xitorch.linalg import solve
    from xitorch._impls.linalg.solve import cg, bicgstab
    from xitorch._utils.exceptions import ConvergenceWarning
    rng = ctx.rng
    cases, meta = [], []
    for _ in range(ctx.n(110, 700)):
        n = rng.randrange(1, 8)
        nc = rng.randrange(1, 4)
        bicg = rng.random() < 0.5
        posdef = rng.random() < 0.7
        useE = rng.random() < 0.5
        useM = useE and rng.random() < 0.5
        if posdef:
            A = rand_spd(rng, n, rng.choice([2.0, 5.0, 30.0]))
        else:
            g = torch.Generator().manual_seed(rng.randrange(10 ** 6))
            A = torch.randn(n, n, dtype=DT, generator=g) + (1.5 if bicg else 2.5) * torch.eye(n, dtype=DT)
            if bicg:
                posdef = True        # bicgstab needs no symmetry: run it directly on the non-symmetric system
        M = rand_spd(rng, n, 2.0) if useM else torch.eye(n, dtype=DT)
        E = torch.tensor([rng.randrange(-4, 3) / 8 for _ in range(nc)], dtype=DT)
        g = torch.Generator().manual_seed(rng.randrange(10 ** 6))
        B = torch.randn(n, nc, dtype=DT, generator=g) * torch.tensor([10.0 ** rng.randrange(-3, 4) for _ in range(nc)], dtype=DT)
        max_niter = rng.randrange(1, 3 * n + 2)
        every = rng.choice([0, 1, 3, 10])
        rtol, atol = rng.choice([(1e-6, 1e-8), (1e-3, 1e-8), (1e-10, 1e-12), (1e-2, 1e-1)])
        cnt = Counter()
        herm_flag = bool(torch.allclose(A, A.T))
        Aop = counting_op(xt, A, herm_flag, cnt)
        Mop = xt.LinearOperator.m(M, is_hermitian=True) if useM else None
        fn = bicgstab if bicg else cg
        if not bicg and not herm_flag:
            posdef_arg = False
        else:
            posdef_arg = posdef
        try:
            with warnings.catch_warnings(record=True) as w:
                warnings.simplefilter("always")
                with torch.no_grad():
                    X = fn(Aop, B, E if useE else None, Mop, posdef=posdef_arg, max_niter=max_niter, rtol=rtol, atol=atol,
                           resid_calc_every=every)
            warned = any(issubclass(x.category, ConvergenceWarning) for x in w)
        except Exception as e:
            ctx.fail("oracle", "solve:%s:exception" % fn.__name__, {"n": n, "ncols": nc, "E": useE, "M": useM}, repr(e)[:200], "a value")
            continue
        # the composed column operator applies A once (posdef) or A and A^H (normal equations: 2 per application,
        # plus one A^H for the right-hand side)
        apps = cnt.n if posdef_arg else max(0, (cnt.n - 1) // 2)
        if not posdef_arg and (cnt.n - 1) % 2 != 0:
            ctx.stat("odd_application_count")
        info = {"method": fn.__name__, "n": n, "ncols": nc, "E": useE, "M": useM, "posdef": posdef_arg, "max_niter": max_niter,
                "resid_calc_every": every, "rtol": rtol, "atol": atol, "warned": warned}
        cases.append("krylov_code %s %s %s %s %s %s %s %s %d %d %s %s %s %s %d %s" % (
            cbool(bicg), fmat(A), fmat(M), cbool(useM), cbool(useE), cbool(posdef_arg), fvec(E.tolist()),
            clist([fvec(c) for c in B.T.tolist()]), max_niter, every, cfloat(rtol), cfloat(atol), cfloat(1e-12),
            cbool(warned), apps, clist([fvec(c) for c in X.T.tolist()])))
        meta.append(info)
        ctx.count((fn.__name__, n, nc, useE, useM, posdef_arg, max_niter, every, rtol, tuple(B.reshape(-1).tolist())), nontrivial=n >= 2)
        ctx.stat("%s:%s" % (fn.__name__, "warned" if warned else "silent"))
        ctx.sample(info, limit=5)
        # property on the implementation: silent => every column's residual below its threshold
        if not warned:
            R = A @ X - (M @ X if useM else X) * (E if useE else 0) - B
            if posdef_arg:
                thr = torch.clamp(rtol * B.norm(dim=0), min=atol) * 20
                bad = bool((R.norm(dim=0) > thr).any())
            else:
                cond = float(torch.linalg.cond(A - 0 * A))
                thr = torch.clamp(rtol * B.norm(dim=0), min=atol) * 50 * (cond ** 2 + 1)
                bad = bool((R.norm(dim=0) > thr).any())
            if bad:
                ctx.fail("oracle", "solve:%s:silent-but-not-converged" % fn.__name__, info, {"resid": R.norm(dim=0), "thr": thr}, "per-column residual below tolerance")
    codes, errors = coq_nat_cases("c01", HEADER, cases, chunk=20)
    for e in errors:
        ctx.broken("correspondence:krylov", e)
    for i, cd in enumerate(codes):
        if cd == 1:
            ctx.coverage["traces_validated_against_impl"] += 1
        elif cd == 2:
            ctx.stat("thin_margin_skipped")
        elif cd == 0:
            dump = os.path.join(os.path.dirname(os.path.dirname(os.path.dirname(os.path.abspath(__file__)))), "replay",
                                "C01-krylov-case-seed%d-%d.txt" % (ctx.seed, i))
            open(dump, "w").write(cases[i])
            ctx.broken("correspondence:krylov", {"case": meta[i], "coq_term_file": dump, "coq": cases[i][:1200]})
    # exact ties: default method and batch shapes
    bcases, bmeta = [], []
    import xitorch.linalg.solve as S
    for _ in range(ctx.n(30, 150)):
        ba = rng.choice([(), (2,), (1, 2), (3, 1)])
        bb = rng.choice([(), (2,), (3, 2), (1,)])
        try:
            want = list(torch.broadcast_shapes(ba, bb))
        except RuntimeError:
            continue
        n = rng.randrange(1, 4)
        A = torch.eye(n, dtype=DT).expand(*ba, n, n) * 2.0
        B = torch.ones(*bb, n, 2, dtype=DT)
        X = solve(xt.LinearOperator.m(A.contiguous()), B)
        bcases.append("Nat.eqb (List.length (get_bcasted_dims [%s; %s])) %d" % (clist([str(v) for v in ba]), clist([str(v) for v in bb]), len(want)))
        bmeta.append({"batch": [list(ba), list(bb)]})
        if list(X.shape) != want + [n, 2] or X.dtype != DT:
            ctx.fail("oracle", "solve:shape", {"A": list(A.shape), "B": list(B.shape)}, list(X.shape), want + [n, 2])
        ctx.count(("shape", ba, bb, n))
        # the all-zero right-hand-side shortcut returns zeros of the BROADCAST shape, for every method (seeded defect C01/3)
        zm = rng.choice(["custom_exactsolve", "cg", "bicgstab", "broyden1"])
        with warnings.catch_warnings():
            warnings.simplefilter("ignore")
            X0 = solve(xt.LinearOperator.m(A.contiguous()), torch.zeros_like(B), method=zm)
        if list(X0.shape) != want + [n, 2] or X0.dtype != DT or float(X0.abs().max()) != 0.0:
            ctx.fail("oracle", "solve:zero-rhs:shape", {"A": list(A.shape), "B": list(B.shape), "method": zm}, list(X0.shape), want + [n, 2])
        ctx.count(("shape-zero-rhs", ba, bb, n, zm))
    for (sa, sb) in (((1, 2, 2, 2), (1, 2, 2)), ((3, 3, 3), (3, 3)), ((2, 2, 2, 2), (2, 2, 2)), ((4, 2, 2), (2, 2))):
        A = (torch.eye(sa[-1], dtype=DT) * 2.0).expand(*sa).contiguous()
        B = torch.arange(1.0, 1 + math.prod(sb), dtype=DT).reshape(sb)
        want = list(torch.broadcast_shapes(sa[:-2], sb[:-2])) + list(sb[-2:])
        for meth in ("exactsolve", "bicgstab"):
            with warnings.catch_warnings():
                warnings.simplefilter("ignore")
                X = solve(xt.LinearOperator.m(A), B, method=meth)
            ctx.count(("shape-ambiguous", sa, sb, meth))
            if list(X.shape) != want or not torch.allclose(X, (B / 2.0).expand(*want), rtol=1e-6, atol=1e-8):
                ctx.fail("oracle", "solve:shape:%s" % meth, {"A": list(sa), "B": list(sb)}, list(X.shape), want)
    failed, errors = coq_bool_cases("c01s", HEADER, bcases, chunk=200)
    for e in errors:
        ctx.broken("correspondence:shapes", e)
    for i in failed[:2]:
        ctx.broken("correspondence:shapes", {"case": bmeta[i], "coq": bcases[i]})
    corpus_cases(ctx)
    oracle(ctx)
    scaled_columns_probe(ctx, ctx.n(400, 4000))
    # known finding F12: gmres
    known_gmres(ctx)
    round6_probes(ctx)


def known_gmres(ctx):
    """F12: gmres fails with E / >= 2 batch dims and never uses the full Krylov space.  Reproduce the recorded witnesses."""
    import xitorch as xt
    from xitorch.linalg import solve
    A = xt.LinearOperator.m(torch.eye(4, dtype=DT) * 2 + torch.diag(torch.ones(3, dtype=DT), 1))
    B = torch.ones(4, 2, dtype=DT)
    try:
        with warnings.catch_warnings():
            warnings.simplefilter("ignore")
            solve(A, B, E=torch.tensor([0.1, 0.2], dtype=DT), method="gmres")
    except Exception as e:
        ctx.fail("known", "gmres:with-E:raises", {"A": "4x4 dense", "E": [0.1, 0.2]}, repr(e)[:160], "a solution or a ConvergenceWarning")
    try:
        with warnings.catch_warnings():
            warnings.simplefilter("ignore")
            solve(xt.LinearOperator.m((torch.eye(4, dtype=DT) * 2).expand(2, 1, 4, 4).contiguous()), torch.ones(3, 4, 2, dtype=DT), method="gmres")
    except Exception as e:
        ctx.fail("known", "gmres:two-batch-dims:raises", {"A": [2, 1, 4, 4], "B": [3, 4, 2]}, repr(e)[:160], "a solution or a ConvergenceWarning")


def oracle(ctx):
    import xitorch as xt
    from xitorch.linalg import solve
    from xitorch.grad import jac
    from xitorch._utils.exceptions import ConvergenceWarning
    rng = ctx.rng

    def run(fn):
        with warnings.catch_warnings(record=True) as w:
            warnings.simplefilter("always")
            x = fn()
        return x, any(issubclass(i.category, ConvergenceWarning) for i in w)

    class MV(xt.LinearOperator):
        def __init__(self, m, herm=False, with_rmv=False):
            super().__init__(shape=m.shape, is_hermitian=herm, dtype=m.dtype, device=m.device)
            self.m_ = m
            self.with_rmv = with_rmv

        def _mv(self, x):
            return torch.matmul(self.m_, x.unsqueeze(-1)).squeeze(-1)

        def _getparamnames(self, prefix=""):
            return [prefix + "m_"]

    class MVR(MV):
        def _rmv(self, x):
            return torch.matmul(self.m_.transpose(-2, -1).conj(), x.unsqueeze(-1)).squeeze(-1)
    for rep in range(ctx.n(10, 60)):
        dtype = rng.choice([torch.float64, torch.float64, torch.complex128, torch.float32])
        n = rng.choice([2, 3, 4, 6, 7])
        nc = rng.randrange(1, 4)
        ba = rng.choice([(), (), (2,), (1, 2)])
        bb = rng.choice([(), (), (2,), (3, 1, 2)]) if ba != () else rng.choice([(), (2,)])
        try:
            bshape = list(torch.broadcast_shapes(ba, bb))
        except RuntimeError:
            continue
        torch.manual_seed(ctx.seed * 1000 + rep)
        spectrum = rng.choice(["spd", "spd", "indefinite", "nonherm"])
        R0 = torch.randn(*ba, n, n, dtype=dtype)
        if spectrum == "spd":
            Amat = R0 @ R0.transpose(-2, -1).conj() / n + 2.0 * torch.eye(n, dtype=dtype)
        elif spectrum == "indefinite":
            q, _ = torch.linalg.qr(R0)
            d = torch.tensor([(-1.0) ** i * (1 + i / n) for i in range(n)], dtype=torch.float64).to(dtype)
            Amat = (q * d) @ q.transpose(-2, -1).conj()
            Amat = (Amat + Amat.transpose(-2, -1).conj()) / 2
        else:
            Amat = 0.4 * R0 + 2.0 * torch.eye(n, dtype=dtype)
        herm = spectrum != "nonherm"
        Bm = torch.randn(*bb, n, nc, dtype=dtype)
        mode = rng.choice(["none", "E", "EM"])
        be = rng.choice([(), tuple(bshape)]) if mode != "none" else ()
        E = (0.3 * torch.randn(*be, nc, dtype=dtype) - (0.0 if spectrum == "spd" else 0.0)) if mode != "none" else None
        if E is not None and spectrum == "spd":
            E = -E.abs() if not dtype.is_complex else -E.abs().to(dtype)     # keep A - E M positive definite
        Mmat = None
        if mode == "EM":
            Q = torch.randn(n, n, dtype=dtype)
            Mmat = Q @ Q.transpose(-2, -1).conj() / n + torch.eye(n, dtype=dtype)
        kinds = {
            "dense": lambda: xt.LinearOperator.m(Amat, is_hermitian=herm),
            "mv-only": lambda: MV(Amat, herm),
            "mv+rmv": lambda: MVR(Amat, herm),
            "scaled-sum": lambda: (MV(Amat * 0.25, herm) * 2 + xt.LinearOperator.m(Amat * 0.5, is_hermitian=herm)),
            "adjoint-of-adjoint": lambda: MVR(Amat.transpose(-2, -1).conj().contiguous(), herm).H,
            # differences and their adjoints (the adjoint of a - b is a^H - b^H; seeded defect C01/4)
            "difference": lambda: (MVR(Amat * 1.5, herm) - xt.LinearOperator.m(Amat * 0.5, is_hermitian=herm)),
            "adjoint-of-difference": lambda: (MVR(Amat.transpose(-2, -1).conj().contiguous() * 1.5, False)
                                              - xt.LinearOperator.m(Amat.transpose(-2, -1).conj().contiguous() * 0.5, is_hermitian=False)).H,
        }
        # products of two non-commuting operators (one of them matrix-free) and their adjoints: (a b)^H = b^H a^H
        # (round-3 seed C01/8: the factors of the adjoint applied in the un-reversed order)
        Qf = torch.eye(n, dtype=dtype) + 0.3 * torch.randn(n, n, dtype=dtype) / max(1, n) ** 0.5
        Pf = Amat @ torch.linalg.inv(Qf)
        kinds["product"] = lambda: MV(Pf, False).matmul(xt.LinearOperator.m(Qf, is_hermitian=False), is_hermitian=herm)
        kinds["product-mvr"] = lambda: xt.LinearOperator.m(Pf, is_hermitian=False).matmul(MVR(Qf.expand(*ba, n, n).contiguous(), False), is_hermitian=herm)
        kinds["adjoint-of-product"] = lambda: MVR(Qf.transpose(-2, -1).conj().contiguous(), False).matmul(
            xt.LinearOperator.m(Pf.transpose(-2, -1).conj().contiguous(), is_hermitian=False), is_hermitian=False).H
        kind = rng.choice(list(kinds))
        # dense reference, column by column and batch by batch
        full_shape = bshape if mode == "none" else list(torch.broadcast_shapes(tuple(bshape), be))
        Ab = Amat.expand(*full_shape, n, n)
        Bb = Bm.expand(*full_shape, n, nc)
        ref = torch.empty(*full_shape, n, nc, dtype=dtype)
        for j in range(nc):
            sh = 0 if E is None else E.expand(*full_shape, nc)[..., j][..., None, None]
            Mj = torch.eye(n, dtype=dtype) if Mmat is None else Mmat
            ref[..., j] = torch.linalg.solve(Ab - sh * Mj, Bb[..., j:j + 1])[..., 0]
        eps = 1e-4 if dtype == torch.float32 else 1e-9
        for meth in ("exactsolve", "custom_exactsolve", "cg", "bicgstab", "broyden1", "gmres"):
            if meth == "gmres" and (mode != "none" or len(full_shape) >= 2):
                continue            # known finding F12 (replayed separately)
            if meth == "cg" and E is not None and dtype.is_complex and herm:
                continue            # a complex shift makes a Hermitian-flagged shifted operator non-Hermitian: outside CG's domain
            info = {"method": meth, "kind": kind, "n": n, "ncols": nc, "dtype": str(dtype), "mode": mode, "spectrum": spectrum,
                    "A_batch": list(ba), "B_batch": list(bb), "E_batch": list(be)}
            opts = {}
            if meth in ("cg", "bicgstab", "gmres"):
                opts = dict(rtol=1e-9 if dtype != torch.float32 else 1e-5, atol=1e-12 if dtype != torch.float32 else 1e-6, max_niter=40 * n)
            if meth == "broyden1":
                # Broyden treats all columns and batch elements as one system: its iteration count grows with the total
                # number of unknowns (about 2N in exact arithmetic), so the budget does too (a fixed 400 was a false alarm
                # of this oracle on a 2 x 7 x 3 complex system that converges in ~600 iterations)
                nunk = n * nc * max(1, math.prod(full_shape))
                opts = dict(f_tol=1e-9 if dtype != torch.float32 else 1e-4, x_tol=1e-9 if dtype != torch.float32 else 1e-4,
                            maxiter=max(400, 60 * nunk))
            try:
                Mop = None if Mmat is None else xt.LinearOperator.m(Mmat, is_hermitian=True)
                X, warned = run(lambda: solve(kinds[kind](), Bm, E, Mop, method=meth, **opts))
            except Exception as e:
                ctx.fail("oracle", "solve:%s:%s:exception" % (meth, kind), info, repr(e)[:300], "a solution, possibly with a ConvergenceWarning")
                continue
            ctx.count(("api", meth, kind, n, nc, str(dtype), mode, spectrum, tuple(ba), tuple(bb)))
            ctx.stat("api:" + meth)
            if list(X.shape) != full_shape + [n, nc] or X.dtype != dtype:
                ctx.fail("oracle", "solve:%s:shape-dtype" % meth, info, [list(X.shape), str(X.dtype)], [full_shape + [n, nc], str(dtype)])
                continue
            err = float((X - ref).abs().max() / (ref.abs().max() + 1e-30))
            tol = {"exactsolve": 1e-9, "custom_exactsolve": 1e-9, "cg": 1e-5, "bicgstab": 1e-5, "broyden1": 1e-5, "gmres": 1e-4}[meth]
            if dtype == torch.float32:
                tol = 2e-3
            # "well-conditioned": the largest condition number of the shifted column systems A - e_j M is modest
            # (an indefinite A with a shift and M can put a generalised eigenvalue next to e_j)
            conds = []
            for j in range(nc):
                sh = 0 if E is None else E.expand(*full_shape, nc)[..., j][..., None, None]
                Mj = torch.eye(n, dtype=dtype) if Mmat is None else Mmat
                conds.append(float(torch.linalg.cond(Ab - sh * Mj).max()))
            wellcond = max(conds) <= 30.0
            info["max_condition_number"] = max(conds)
            if not warned and not err <= tol:
                ctx.fail("oracle", "solve:%s:%s:silent-but-wrong" % (meth, mode), info, err, "agrees with the dense reference (<= %g)" % tol)
            if warned and meth in ("exactsolve", "custom_exactsolve", "cg", "bicgstab", "broyden1") and wellcond \
                    and dtype != torch.float32 \
                    and not (meth == "cg" and spectrum == "indefinite" and False):
                # on these well-conditioned systems (cond <= ~10) the method must converge silently
                ctx.fail("oracle", "solve:%s:%s:warns-on-wellconditioned" % (meth, mode), info, {"error": err}, "silent convergence")
    # right-hand sides that are small but not negligible: with the default options (rtol 1e-6, atol 1e-8) a block with entries
    # around 3e-7 is far above atol, so the all-zero shortcut must not fire (seeded defect C01/6: atol replaced by rtol there)
    gs = torch.Generator().manual_seed(ctx.seed + 23)
    As = torch.randn(5, 5, dtype=torch.float64, generator=gs)
    As = As @ As.T / 5 + 2.0 * torch.eye(5, dtype=torch.float64)
    for scale in (3e-7, 2e-5):
        Bs = scale * torch.randn(5, 2, dtype=torch.float64, generator=gs)
        refs = torch.linalg.solve(As, Bs)
        for meth in ("cg", "bicgstab", "gmres"):
            X, warned = run(lambda: solve(xt.LinearOperator.m(As, is_hermitian=True), Bs, method=meth))
            ctx.count(("small-rhs", meth, scale))
            # silence means: every column's residual is within the stopping tolerance max(rtol |b_j|, atol) of the defaults
            resid = (As @ X - Bs).norm(dim=-2)
            stop = torch.clamp(1e-6 * Bs.norm(dim=-2), min=1e-8)
            if not warned and not bool((resid <= 10 * stop).all()):
                ctx.fail("oracle", "solve:%s:small-rhs:silent-but-not-converged" % meth, {"method": meth, "rhs_scale": scale, "options": "defaults"},
                         {"residual_norms": resid.tolist(), "stopping_tolerance": stop.tolist(), "max_abs_X": float(X.abs().max())},
                         "residual within the stopping tolerance, or a ConvergenceWarning")
    # a right-hand side with an exactly zero column (or batch element) among non-zero ones: that column's solution is zero and
    # the others converge as usual (round-3 seed C01/7: 0/0 in cg's beta turned the zero column into NaN and stopped the block)
    gz = torch.Generator().manual_seed(ctx.seed + 29)
    Az = torch.randn(6, 6, dtype=torch.float64, generator=gz)
    Az = Az @ Az.T / 6 + 2.0 * torch.eye(6, dtype=torch.float64)
    An = Az + 0.3 * torch.randn(6, 6, dtype=torch.float64, generator=gz)
    for zname, Bz in (("zero-column", torch.randn(6, 3, dtype=torch.float64, generator=gz) * torch.tensor([1.0, 0.0, 1.0], dtype=torch.float64)),
                      ("zero-batch-element", torch.randn(2, 6, 2, dtype=torch.float64, generator=gz) * torch.tensor([1.0, 0.0], dtype=torch.float64)[:, None, None])):
        # (gmres is outside the convergence clause of the property and fails in LAPACK's lstsq on a zero column: not probed here)
        for meth, Amz, hz in (("cg", Az, True), ("bicgstab", Az, True), ("bicgstab", An, False), ("cg", An, False),
                              ("broyden1", Az, True), ("custom_exactsolve", An, False)):
            try:
                X, warned = run(lambda: solve(xt.LinearOperator.m(Amz, is_hermitian=hz), Bz, method=meth))
            except Exception as e:
                ctx.fail("oracle", "solve:%s:%s:exception" % (meth, zname), {"method": meth}, repr(e)[:300], "a solution")
                continue
            ctx.count(("zero-part-of-rhs", zname, meth, hz))
            refz = torch.linalg.solve(Amz, Bz)
            errz = float((X - refz).abs().max())
            if not torch.isfinite(X).all() or warned or not errz <= 1e-4:
                ctx.fail("oracle", "solve:%s:%s" % (meth, zname), {"method": meth, "hermitian": hz, "options": "defaults", "condition_number": float(torch.linalg.cond(Amz))},
                         {"warned": warned, "max_error": errz, "finite": bool(torch.isfinite(X).all())}, "silent convergence; zero where the right-hand side is zero")
    # 1 x 1 systems with the default options, every method, with batches and several columns (round-3 seed C01/9: bicgstab's
    # default budget int(1.5 n) = 1 and a loop that then never ran)
    for meth in ("exactsolve", "custom_exactsolve", "cg", "bicgstab", "gmres", "broyden1"):
        for ba1, nc1, withE in (((), 1, False), ((3,), 2, False), ((), 2, True)):
            if meth == "gmres" and (withE or ba1):
                continue
            A1 = 2.0 + torch.rand(*ba1, 1, 1, dtype=torch.float64, generator=gz)
            B1 = torch.randn(*ba1, 1, nc1, dtype=torch.float64, generator=gz)
            E1 = -torch.rand(nc1, dtype=torch.float64, generator=gz) if withE else None
            try:
                X, warned = run(lambda: solve(xt.LinearOperator.m(A1, is_hermitian=True), B1, E1, method=meth))
            except Exception as e:
                ctx.fail("oracle", "solve:%s:1x1:exception" % meth, {"A_batch": list(ba1), "ncols": nc1, "E": withE}, repr(e)[:300], "a solution")
                continue
            ctx.count(("1x1", meth, ba1, nc1, withE))
            ref1 = B1 / (A1 - (E1 if withE else 0.0))
            if meth == "gmres" and warned:
                continue                       # the property asks gmres only for a warning when it did not converge
            if warned or not float((X - ref1).abs().max()) <= 1e-5 * float(ref1.abs().max()):
                ctx.fail("oracle", "solve:%s:1x1" % meth, {"A_batch": list(ba1), "ncols": nc1, "E": withE, "options": "defaults"},
                         {"warned": warned, "max_error": float((X - ref1).abs().max())}, "silent convergence of a 1 x 1 system")
    # documented options of the Krylov methods that the defaults never exercise: preconditioners (cg: precond; bicgstab: precond_l,
    # precond_r), resid_calc_every, posdef; larger systems with a spread spectrum so that the periodic exact recomputation of the
    # residual runs several times (round-4 seeds C01/11, C04/11, C04/12: the right-preconditioned update, the iterate used for the
    # recomputation).  Silence still means: the returned block solves the system
    gk = torch.Generator().manual_seed(ctx.seed + 31)
    for nk in (6, 24):
        Qk, _ = torch.linalg.qr(torch.randn(nk, nk, dtype=torch.float64, generator=gk))
        ev = torch.logspace(0, 2.3, nk, dtype=torch.float64)
        Ak = (Qk * ev) @ Qk.T
        Ak = (Ak + Ak.T) / 2
        An_ = Ak + 0.2 * torch.randn(nk, nk, dtype=torch.float64, generator=gk)
        Bk = torch.randn(nk, 2, dtype=torch.float64, generator=gk)
        jac_pre = xt.LinearOperator.m(torch.diag(1.0 / torch.diag(Ak)), is_hermitian=True)
        gen_pre = xt.LinearOperator.m(torch.linalg.inv(Ak + 0.3 * torch.diag(torch.diag(Ak))), is_hermitian=False)
        opt_sets = [("cg", Ak, True, dict(precond=jac_pre)), ("cg", Ak, True, dict(resid_calc_every=3)), ("cg", Ak, True, dict(posdef=True)),
                    ("bicgstab", An_, False, dict(precond_l=jac_pre)), ("bicgstab", An_, False, dict(precond_r=jac_pre)),
                    ("bicgstab", An_, False, dict(precond_r=gen_pre)), ("bicgstab", An_, False, dict(precond_l=gen_pre, precond_r=jac_pre)),
                    ("bicgstab", An_, False, dict(resid_calc_every=3)), ("bicgstab", An_, False, dict(resid_calc_every=1000)),
                    ("bicgstab", An_, False, dict())]
        for meth, Am_, hz, extra in opt_sets:
            desc = {k: (v if not isinstance(v, xt.LinearOperator) else "<operator>") for k, v in extra.items()}
            try:
                X, warned = run(lambda: solve(xt.LinearOperator.m(Am_, is_hermitian=hz), Bk, method=meth, rtol=1e-11, atol=1e-13, max_niter=40 * nk, **extra))
            except Exception as e:
                ctx.fail("oracle", "solve:%s:options:exception" % meth, {"n": nk, "options": desc}, repr(e)[:300], "a solution")
                continue
            ctx.count(("krylov-options", meth, nk, tuple(sorted(desc))))
            refk = torch.linalg.solve(Am_, Bk)
            errk = float((X - refk).abs().max() / refk.abs().max())
            if not warned and not errk <= 1e-7:
                ctx.fail("oracle", "solve:%s:options:silent-but-wrong" % meth, {"n": nk, "options": desc, "rtol": 1e-11, "condition_number": float(torch.linalg.cond(Am_))},
                         {"relative_error": errk}, "silent return => the system is solved (<= 1e-7 with rtol 1e-11)")
            if warned and float(torch.linalg.cond(Am_)) <= 300.0:
                ctx.fail("oracle", "solve:%s:options:warns-on-wellconditioned" % meth, {"n": nk, "options": desc}, {"relative_error": errk}, "silent convergence")
    # one operator object through a history: solve, backward, in-place update of its matrix, solve again (round-4 seed C01/12:
    # the temporary substitution of the operator's parameters was never undone, so the second solve used the old matrix)
    for meth in ("cg", "bicgstab", "custom_exactsolve"):
        Mh = (Az.clone() + 0.0).requires_grad_()
        oph = xt.LinearOperator.m(Mh, is_hermitian=True)
        Bh = torch.randn(6, 1, dtype=torch.float64, generator=gz)
        kwh = {} if meth == "custom_exactsolve" else dict(rtol=1e-11, atol=1e-13)
        X1, _ = run(lambda: solve(oph, Bh, method=meth, **kwh))
        X1.sum().backward()
        with torch.no_grad():
            Mh.add_(torch.eye(6, dtype=torch.float64))
        X2, warned2 = run(lambda: solve(oph, Bh, method=meth, **kwh))
        ctx.count(("operator-history", meth))
        ref2 = torch.linalg.solve(Mh.detach(), Bh)
        if warned2 or not float((X2.detach() - ref2).abs().max()) <= 1e-7:
            ctx.fail("oracle", "solve:%s:operator-reused-after-backward-and-update" % meth, {"sequence": ["solve", "backward", "A += I in place", "solve"]},
                     {"warned": warned2, "error_vs_current_matrix": float((X2.detach() - ref2).abs().max())}, "the solution of the CURRENT system")
    # normal-equation fallback with a complex shift (the adjoint needs conj(E))
    g = torch.Generator().manual_seed(11)
    Ac = 0.3 * torch.randn(4, 4, dtype=torch.complex128, generator=g) + 2.0 * torch.eye(4, dtype=torch.complex128)
    Bc = torch.randn(4, 2, dtype=torch.complex128, generator=g)
    Ec = torch.tensor([0.3 + 0.4j, -0.2 + 0.5j], dtype=torch.complex128)
    refc = torch.stack([torch.linalg.solve(Ac - Ec[j] * torch.eye(4, dtype=torch.complex128), Bc[:, j]) for j in range(2)], dim=-1)
    for meth in ("cg", "bicgstab"):
        X, warned = run(lambda: solve(xt.LinearOperator.m(Ac, is_hermitian=False), Bc, Ec, method=meth, rtol=1e-10, atol=1e-12, max_niter=200))
        ctx.count(("complex-shift-normal-equations", meth))
        if warned or not torch.allclose(X, refc, rtol=1e-5, atol=1e-7):
            ctx.fail("oracle", "solve:%s:complex-shift" % meth, {"A": "4x4 complex non-Hermitian", "E": "complex"},
                     {"warned": warned, "error": float((X - refc).abs().max())}, "silent convergence to the dense reference")
    # Jacobian operator as A
    y = torch.tensor([0.3, -0.2, 0.5], dtype=DT, requires_grad=True)
    f = lambda y: y ** 3 + 2 * y + torch.roll(y, 1) * 0.3
    J = jac(f, (y,), idxs=0)
    Bj = torch.tensor([[1.0], [2.0], [-1.0]], dtype=DT)
    Jd = torch.autograd.functional.jacobian(f, y.detach())
    for meth in ("exactsolve", "bicgstab"):
        X, warned = run(lambda: solve(J, Bj, method=meth, **({} if meth == "exactsolve" else dict(rtol=1e-10, atol=1e-12))))
        ctx.count(("jacobian-operator", meth))
        if warned or not torch.allclose(X, torch.linalg.solve(Jd, Bj), rtol=1e-6, atol=1e-9):
            ctx.fail("oracle", "solve:%s:jacobian-operator" % meth, {}, X, torch.linalg.solve(Jd, Bj))
    # all-zero right-hand side shortcut
    Z = solve(xt.LinearOperator.m(torch.eye(3, dtype=DT)), torch.zeros(2, 3, 1, dtype=DT), method="cg")
    if list(Z.shape) != [2, 3, 1] or Z.abs().max() != 0:
        ctx.fail("oracle", "solve:zero-rhs", {}, Z, "zeros of the broadcast shape")


def corpus_cases(ctx):
    """minimised / recorded disagreements kept as regression inputs (run first)"""
    import json, os
    import xitorch as xt
    from xitorch._impls.linalg import solve as S
    from xitorch._utils.exceptions import ConvergenceWarning
    path = os.path.join(os.path.dirname(os.path.dirname(os.path.dirname(os.path.abspath(__file__)))), "corpus", "c01_scaled_columns.json")
    for i, c in enumerate(json.load(open(path))):
        A = torch.tensor([[float.fromhex(v) for v in r] for r in c["A"]], dtype=DT)
        B = torch.tensor([[float.fromhex(v) for v in r] for r in c["B"]], dtype=DT)
        with warnings.catch_warnings(record=True) as w:
            warnings.simplefilter("always")
            X = getattr(S, c["method"])(xt.LinearOperator.m(A), B, **c["options"])
        warned = any(issubclass(k.category, ConvergenceWarning) for k in w)
        ctx.count(("corpus", i))
        if not warned:
            res = (A @ X - B).norm(dim=0)
            thr = torch.clamp(c["options"]["rtol"] * B.norm(dim=0), min=c["options"]["atol"])
            if not bool((res <= 1.2 * thr).all()):
                ctx.fail("oracle", "solve:%s:silent-but-column-not-converged" % c["method"], {"corpus": i, "what": c["what"][:120]},
                         {"resid": res, "threshold": thr}, "every column's residual below max(rtol |b_j|, atol)")


def scaled_columns_probe(ctx, ntrials):
    """silent => every column below ITS OWN threshold, also when the columns have very different scales"""
    import xitorch as xt
    from xitorch._impls.linalg.solve import cg, bicgstab
    from xitorch._utils.exceptions import ConvergenceWarning
    rng = ctx.rng
    for t in range(ntrials):
        n = rng.choice([6, 7, 8])
        g = torch.Generator().manual_seed(rng.randrange(10 ** 6))
        R = torch.randn(n, n, dtype=DT, generator=g)
        A = R @ R.T / n + 0.5 * torch.eye(n, dtype=DT)
        scales = torch.tensor([10.0 ** rng.uniform(-6, 6) for _ in range(2)], dtype=DT)
        B = torch.randn(n, 2, dtype=DT, generator=g) * scales
        for fn in (bicgstab, cg):
            with warnings.catch_warnings(record=True) as w:
                warnings.simplefilter("always")
                X = fn(xt.LinearOperator.m(A, is_hermitian=True), B, posdef=True, rtol=1e-6, atol=1e-8)
            warned = any(issubclass(i.category, ConvergenceWarning) for i in w)
            ctx.count(("scaled-columns", fn.__name__, t))
            if not warned:
                res = (A @ X - B).norm(dim=0)
                thr = torch.clamp(1e-6 * B.norm(dim=0), min=1e-8)
                if not bool((res <= 3 * thr).all()):
                    ctx.fail("oracle", "solve:%s:silent-but-column-not-converged" % fn.__name__,
                             {"n": n, "column_scales": scales.tolist(), "trial": t}, {"resid": res, "threshold": thr},
                             "every column's residual below max(rtol |b_j|, atol)")
                    return


def round6_probes(ctx):
    """(a) right-hand sides of very large / very small norm: a silent return meets the stopping test relative to |B|, for the three Krylov
    methods (round-6 seed C01/15: gmres compared an absolute residual with a bound that had become relative, and returned its all-zero
    initial guess without a warning when rtol |B| > 1).  (b) cg on a well-conditioned NON-Hermitian positive-definite operator with
    every value of the documented option posdef: the normal-equations fallback is taken whatever the caller says about definiteness
    (C01/16: an explicit posdef=True suppressed it; cg then warned and returned a wrong result on a system of condition number 2)"""
    import xitorch as xt
    from xitorch.linalg import solve
    from xitorch._utils.exceptions import ConvergenceWarning
    g = torch.Generator().manual_seed(ctx.seed + 83)
    n = 8
    R = torch.randn(n, n, dtype=DT, generator=g)
    A = R @ R.T / n + 1.0 * torch.eye(n, dtype=DT)
    An = torch.eye(n, dtype=DT) + 0.05 * torch.randn(n, n, dtype=DT, generator=g)
    for meth, herm in (("cg", True), ("bicgstab", True), ("gmres", True), ("bicgstab", False), ("gmres", False)):
        for scale in (1e9, 1e-9, 1.0):
            A = A if herm else An
            B = torch.randn(n, 2, dtype=DT, generator=g) * scale
            with warnings.catch_warnings(record=True) as w:
                warnings.simplefilter("always")
                X = solve(xt.LinearOperator.m(A, is_hermitian=herm), B, method=meth, rtol=1e-7, atol=0.0)
            warned = any(issubclass(i.category, ConvergenceWarning) for i in w)
            ctx.count(("rhs-scale", meth, herm, scale), nontrivial=True)
            rel = float(((A @ X - B).norm(dim=0) / B.norm(dim=0)).max())
            # (gmres is held to a loose bound: its accuracy is the subject of finding F12; the seeded symptom is a residual of 1)
            if not warned and not rel <= (1e-2 if meth == "gmres" else 1e-4):
                ctx.fail("oracle", "solve:%s:rhs-scale:silent-but-not-converged" % meth, {"n": n, "A_hermitian": herm, "norm_of_B": scale, "rtol": 1e-7, "atol": 0.0},
                         {"relative_residual": rel, "X_is_zero": bool((X == 0).all())}, "relative residual <= 1e-4 or a ConvergenceWarning")
    K = torch.randn(12, 12, dtype=DT, generator=g)
    K = (K - K.T) / 2
    Ap = torch.eye(12, dtype=DT) + 1.5 * K / torch.linalg.matrix_norm(K, 2)
    Bp = torch.randn(12, 2, dtype=DT, generator=g)
    ref = torch.linalg.solve(Ap, Bp)
    for posdef in (None, False, True):
        with warnings.catch_warnings(record=True) as w:
            warnings.simplefilter("always")
            X = solve(xt.LinearOperator.m(Ap, is_hermitian=False), Bp, method="cg", posdef=posdef, rtol=1e-8)
        warned = any(issubclass(i.category, ConvergenceWarning) for i in w)
        ctx.count(("cg-nonhermitian-posdef-option", posdef), nontrivial=True)
        err = float((X - ref).norm() / ref.norm())
        if warned or not err <= 1e-5:
            ctx.fail("oracle", "solve:cg:non-hermitian:posdef-option", {"posdef": posdef, "A": "I + skew part, condition number about 2, n = 12"},
                     {"warned": warned, "relative_error": err}, "silent and within 1e-5 of the dense solve")


def search(ctx):
    oracle(ctx)
    scaled_columns_probe(ctx, 3000)

"""C20 — Packer round-trips any nested structure, preserving aliasing and its input.

Tie: exact correspondence of xitorch.Packer against coq/Model/Packer.v (run by vm_compute)
on random structures x aliasing patterns x operation sequences (valid and malformed).
Oracle (implementation alone): the property clauses themselves."""
from __future__ import annotations
import itertools, copy, collections
import torch
from vlib import cnat, cZ, clist, cbool, coq_bool_cases, coq_show

RULE = ("random nested structures (list/dict/object/tuple/leaf, <=14 nodes) over a pool of 1-4 tensors "
        "with random aliasing, random op sequences (1-6 ops of get_param_tensor_list/get_param_tensor/"
        "construct_from_tensor_list/construct_from_tensor, unique in {T,F}, ~30% malformed arguments); "
        "distinct = distinct (structure skeleton, aliasing pattern, op-kind sequence); non-trivial = at "
        "least one tensor slot and at least one construct_* operation; thorough adds the exhaustive "
        "enumeration of all set partitions of <=4 slots x all op sequences of length <=3 over a fixed "
        "set of container shapes")
TRUSTED = ["correspondence harness tools/props/c20.py (generator, canonicalisation of tensor identity "
           "to pool index / first-occurrence rank of fresh tensors, error-class tags)",
           "modelled, not verified: copy.deepcopy (containers copied, memoised tensors shared), "
           "torch.cat / slicing / reshape (row-major payload concatenation and split)"]
ASSUMPTIONS = ["tensors inside tuples are opaque to Packer (as in the source); `a` passed to "
               "construct_from_tensor is one-dimensional unless the structure has a single slot"]
HEADER = "From XV Require Import Model.Packer Model.PackerEq.\nFrom Coq Require Import ZArith.\n"


class DictSub(dict):
    """a dict subclass: its instances have a __dict__ as well"""


class Obj:
    """attribute-bearing object (has __dict__)"""
    def __init__(self, **kw):
        self.__dict__.update(kw)


# ---------------------------------------------------------------------------------------
# generation
# ---------------------------------------------------------------------------------------
SHAPES = [(), (1,), (2,), (3,), (1, 2), (2, 2), (2, 1, 2), (0,)]


def gen_struct(rng, pool_n, budget, depth=0, top=False):
    """returns a spec tree: ("T", i) | ("L", [..]) | ("D", [(k, ..)]) | ("O", [(k, ..)]) |
    ("Tup", [..]) | ("Leaf", z)"""
    r = rng.random()
    if depth >= 3 or budget[0] <= 0 or (not top and r < 0.45):
        budget[0] -= 1
        if rng.random() < 0.7 and pool_n > 0:
            return ("T", rng.randrange(pool_n))
        return ("Leaf", rng.randrange(-5, 6))
    kind = rng.choice(["L", "D", "O", "Tup", "L", "D"])
    n = rng.randrange(0, 4)
    budget[0] -= 1
    if kind == "Tup":
        # tuples are opaque: they hold only leaves (tensors inside are deep-copied, i.e. new
        # objects on every construct -- outside the modelled identity tracking)
        return ("Tup", [("Leaf", rng.randrange(-5, 6)) for _ in range(n)])
    kids = [gen_struct(rng, pool_n, budget, depth + 1) for _ in range(n)]
    if kind == "L":
        return ("L", kids)
    keys = rng.sample(range(8), n)
    return (kind, list(zip(keys, kids)))


def build(spec, pool):
    k = spec[0]
    if k == "T":
        return pool[spec[1]]
    if k == "Leaf":
        return spec[1]
    if k == "L":
        return [build(s, pool) for s in spec[1]]
    if k == "Tup":
        return tuple(build(s, pool) for s in spec[1])
    if k == "D":
        # plain dicts and dict subclasses whose instances also carry a __dict__ (OrderedDict, user subclasses): all of them are
        # dicts for Packer (round-3 seed C20/8: the attribute branch of _put_tensors tested before the dict branch)
        cls = (dict, collections.OrderedDict, DictSub)[(sum(kk for kk, _ in spec[1]) + len(spec[1])) % 3]
        return cls(("k%d" % kk, build(s, pool)) for kk, s in spec[1])
    if k == "O":
        return Obj(**{"k%d" % kk: build(s, pool) for kk, s in spec[1]})
    raise AssertionError(k)


def slots(spec):
    k = spec[0]
    if k == "T":
        return [spec[1]]
    if k in ("L",):
        return [i for s in spec[1] for i in slots(s)]
    if k in ("D", "O"):
        return [i for _, s in spec[1] for i in slots(s)]
    return []


def skeleton(spec):
    k = spec[0]
    if k == "T":
        return "T"
    if k == "Leaf":
        return "z"
    if k in ("L", "Tup"):
        return k + "(" + ",".join(skeleton(s) for s in spec[1]) + ")"
    return k + "(" + ",".join("%d:%s" % (kk, skeleton(s)) for kk, s in spec[1]) + ")"


# ---------------------------------------------------------------------------------------
# encoding to Coq
# ---------------------------------------------------------------------------------------
def enc_tens(tid, t):
    return "(mkT %s %s %s)" % (cnat(tid), clist([cnat(int(s)) for s in t.shape]),
                               clist([cZ(int(v)) for v in t.reshape(-1).tolist()]))


class IdMap:
    def __init__(self, known):
        self.known = dict(known)      # id(obj) -> model id
        self.fresh = {}

    def get(self, t):
        i = id(t)
        if i in self.known:
            return self.known[i]
        if i not in self.fresh:
            self.fresh[i] = 1000 + len(self.fresh)
        return self.fresh[i]


def enc_obj(o, idm):
    if isinstance(o, torch.Tensor):
        return "(NTens %s)" % enc_tens(idm.get(o), o)
    if isinstance(o, list):
        return "(NList %s)" % clist([enc_obj(x, idm) for x in o])
    if isinstance(o, tuple):
        return "(NTup %s)" % clist([enc_obj(x, idm) for x in o])
    if isinstance(o, dict):
        return "(NDict %s)" % clist(["(%s, %s)" % (cnat(int(k[1:])), enc_obj(v, idm)) for k, v in o.items()])
    if isinstance(o, Obj):
        return "(NObj %s)" % clist(["(%s, %s)" % (cnat(int(k[1:])), enc_obj(v, idm)) for k, v in o.__dict__.items()])
    if isinstance(o, int):
        return "(NLeaf %s)" % cZ(o)
    raise AssertionError(type(o))


def enc_result(r, known):
    idm = IdMap(known)
    if isinstance(r, tuple) and r and r[0] == "ERR":
        return "(RErr %s)" % r[1]
    if r is None:
        return "RNone"
    if isinstance(r, torch.Tensor):
        return "(RTensor %s)" % enc_tens(idm.get(r), r)
    if isinstance(r, list) and all(isinstance(x, torch.Tensor) for x in r) and getattr(r, "_is_tl", False):
        return "(RTensors %s)" % clist([enc_tens(idm.get(x), x) for x in r])
    return "(RObj %s)" % enc_obj(r, idm)


class TL(list):
    _is_tl = True


def snapshot(o):
    """identity + value snapshot used by the no-mutation oracle"""
    if isinstance(o, torch.Tensor):
        return ("T", id(o), tuple(o.shape), tuple(o.reshape(-1).tolist()))
    if isinstance(o, list):
        return ("L", id(o), tuple(snapshot(x) for x in o))
    if isinstance(o, tuple):
        return ("Tup", tuple(snapshot(x) for x in o))
    if isinstance(o, dict):
        return ("D", id(o), tuple((k, snapshot(v)) for k, v in o.items()))
    if isinstance(o, Obj):
        return ("O", id(o), tuple((k, snapshot(v)) for k, v in o.__dict__.items()))
    return ("z", o)


def err_tag(e):
    if isinstance(e, AssertionError):
        return "ErrAssert"
    if isinstance(e, RuntimeError):
        return "ErrRuntime"
    return "Other:" + type(e).__name__


# ---------------------------------------------------------------------------------------
# one case
# ---------------------------------------------------------------------------------------
def make_tensor(rng, shape, lo=-9, hi=9):
    n = 1
    for s in shape:
        n *= s
    return torch.tensor([float(rng.randrange(lo, hi + 1)) for _ in range(n)], dtype=torch.float64).reshape(shape)


def gen_ops(rng, pool, slot_ids, nops=None):
    """op specs, resolved lazily against the Packer's own answers"""
    nops = nops or rng.randrange(1, 7)
    ops = []
    for _ in range(nops):
        k = rng.choice(["GL", "GT", "FL", "FT", "FL", "FT"])
        u = rng.random() < 0.5
        mode = "ok"
        r = rng.random()
        if k in ("FL", "FT") and r < 0.3:
            mode = rng.choice(["len", "shape", "numel", "alias"])
        ops.append((k, u, mode))
    return ops


def run_case(xt, spec, pool, ops, rng, oracle_fail):
    """runs the op list on a fresh Packer; returns (coq ops, coq expected results, op kinds)"""
    obj = build(spec, pool)
    snap0 = snapshot(obj)
    known = {id(t): i for i, t in enumerate(pool)}
    pk = xt.Packer(obj)
    slot_ids = slots(spec)
    uniq_ids = list(dict.fromkeys(slot_ids))
    cops, cres, kinds = [], [], []
    nsup = [100]
    alive = []      # keep every supplied tensor and result alive: id() must stay unambiguous

    def fresh_like(t, bad_shape=False):
        shape = tuple(t.shape)
        if bad_shape:
            shape = shape + (1,) if len(shape) < 3 else shape[:-1]
        x = make_tensor(rng, shape, 10, 40)
        alive.append(x)
        known[id(x)] = nsup[0]
        nsup[0] += 1
        return x

    for (k, u, mode) in ops:
        targets = [pool[i] for i in (uniq_ids if u else slot_ids)]
        try:
            if k == "GL":
                cops.append("OGetList %s" % cbool(u))
                res = TL(pk.get_param_tensor_list(unique=u))
            elif k == "GT":
                cops.append("OGetTensor %s" % cbool(u))
                res = pk.get_param_tensor(unique=u)
            elif k == "FL":
                if mode == "len":
                    sup = [fresh_like(t) for t in targets] + [fresh_like(pool[0])] if rng.random() < 0.5 or not targets \
                        else [fresh_like(t) for t in targets[:-1]]
                elif mode == "shape" and targets:
                    j = rng.randrange(len(targets))
                    sup = [fresh_like(t, bad_shape=(i == j)) for i, t in enumerate(targets)]
                elif mode == "alias" and len(targets) >= 2 and targets[0].shape == targets[1].shape:
                    sup = [fresh_like(t) for t in targets]
                    sup[1] = sup[0]
                else:
                    sup = [fresh_like(t) for t in targets]
                sup_copy = list(sup)
                cops.append("OFromList %s %s" % (clist([enc_tens(known[id(x)], x) for x in sup]), cbool(u)))
                res = pk.construct_from_tensor_list(sup, unique=u)
                if len(sup) != len(sup_copy) or any(a is not b for a, b in zip(sup, sup_copy)):
                    oracle_fail("input-list-consumed", "construct_from_tensor_list mutated the caller's list")
            else:  # FT
                tot = sum(t.numel() for t in targets)
                if mode == "numel":
                    a = make_tensor(rng, (tot + 1 + rng.randrange(2),), 10, 40)
                elif len(targets) == 1 and rng.random() < 0.7:
                    a = make_tensor(rng, tuple(targets[0].shape), 10, 40)
                else:
                    a = make_tensor(rng, (tot,), 10, 40)
                alive.append(a)
                known[id(a)] = nsup[0]
                nsup[0] += 1
                cops.append("OFromTensor %s %s" % (enc_tens(known[id(a)], a), cbool(u)))
                res = pk.construct_from_tensor(a, unique=u)
        except (RuntimeError, AssertionError) as e:
            res = ("ERR", err_tag(e))
        alive.append(res)
        kinds.append(k + ("u" if u else "n") + ("" if mode == "ok" else "!" + mode))
        cres.append(enc_result(res, known))
        if snapshot(obj) != snap0:
            oracle_fail("original-mutated", "the object passed to Packer was modified by %s" % k)
    idm = IdMap(known)
    return enc_obj(obj, idm), cops, cres, kinds


def oracle_case(xt, spec, pool, fail):
    """the property clauses, on the implementation alone (no model)"""
    obj = build(spec, pool)
    slot_ids = slots(spec)
    pk = xt.Packer(obj)
    ts = pk.get_param_tensor_list(unique=False)
    if [id(t) for t in ts] != [id(pool[i]) for i in slot_ids]:
        fail("order", "get_param_tensor_list(unique=False) is not the traversal order")
        return
    us = pk.get_param_tensor_list(unique=True)
    uniq_ids = list(dict.fromkeys(slot_ids))
    if [id(t) for t in us] != [id(pool[i]) for i in uniq_ids]:
        fail("unique", "unique list is not each distinct tensor once in first-occurrence order")
        return
    if not slot_ids:
        return
    # position i holds the i-th supplied tensor
    sup = [torch.zeros_like(t) + 7 + i for i, t in enumerate(ts)]
    new = pk.construct_from_tensor_list(list(sup), unique=False)
    got = xt.Packer(new).get_param_tensor_list(unique=False)
    if [id(x) for x in got] != [id(x) for x in sup]:
        fail("positions", "construct_from_tensor_list(unique=False): position i does not hold tensors[i]")
    # every construction is a fresh object: a later call does not hand back (and refill) the containers of an earlier
    # result, and the earlier result keeps its tensors (seeded defect C20/1: the packer's own memo was polluted)
    sup2 = [torch.zeros_like(t) + 700 + i for i, t in enumerate(ts)]
    new2 = pk.construct_from_tensor_list(list(sup2), unique=False)
    got_again = xt.Packer(new).get_param_tensor_list(unique=False) if isinstance(new, (list, dict)) or hasattr(new, "__dict__") else got
    if (new2 is new and not isinstance(new, torch.Tensor)) or [id(x) for x in got_again] != [id(x) for x in sup]:
        fail("fresh-result", "a second construct_from_tensor_list returned / overwrote the first result")
    # aliasing preserved
    supu = [torch.zeros_like(t) + 70 + i for i, t in enumerate(us)]
    newu = pk.construct_from_tensor_list(list(supu), unique=True)
    gotu = xt.Packer(newu).get_param_tensor_list(unique=False)
    want = [id(supu[uniq_ids.index(i)]) for i in slot_ids]
    if [id(x) for x in gotu] != want:
        fail("aliasing", "construct_from_tensor_list(unique=True) does not preserve aliasing")
    # flat round trip
    for u in (True, False):
        flat = pk.get_param_tensor(unique=u)
        back = pk.construct_from_tensor(flat, unique=u)
        b = xt.Packer(back).get_param_tensor_list(unique=False)
        if len(b) != len(ts) or any(x.shape != y.shape or not torch.equal(x, y) for x, y in zip(b, ts)):
            fail("flat-roundtrip", "construct_from_tensor(get_param_tensor(unique=%s)) != original" % u)
    # rejections
    for name, f in (("len", lambda: pk.construct_from_tensor_list(list(sup) + [sup[0]], unique=False)),
                    ("numel", lambda: pk.construct_from_tensor(torch.zeros(sum(t.numel() for t in ts) + 1,
                                                                           dtype=torch.float64), unique=False))):
        try:
            f()
            fail("reject-" + name, "malformed input (%s) accepted" % name)
        except (RuntimeError, AssertionError, ValueError, IndexError):
            pass


def tuple_opacity_probe(ctx, xt):
    """tuples are opaque for extraction AND for refilling: tensors inside a tuple are neither listed nor replaced, and the slots
    after the tuple receive the tensors supplied for them (seeded defect C20/4: extraction started to look into tuples)"""
    t = [torch.tensor([float(i), float(i) + 0.5]) for i in range(4)]
    obj = {"a": [t[0], (t[1], t[2]), t[3]], "b": 3}
    pk = xt.Packer(obj)
    lst = pk.get_param_tensor_list(unique=False)
    ctx.count(("tuple-opacity",), nontrivial=True)
    if [id(x) for x in lst] != [id(t[0]), id(t[3])]:
        ctx.fail("oracle", "packer:tuple-opacity:extract", {"structure": "{a: [T0, (T1, T2), T3], b: 3}"}, len(lst), "exactly [T0, T3]")
        return
    n0, n3 = torch.zeros(2) + 10, torch.zeros(2) + 30
    new = pk.construct_from_tensor_list([n0, n3], unique=False)
    ok = new["a"][0] is n0 and new["a"][2] is n3 and isinstance(new["a"][1], tuple) and len(new["a"][1]) == 2 \
        and torch.equal(new["a"][1][0], t[1]) and torch.equal(new["a"][1][1], t[2]) and new["b"] == 3
    flat = pk.get_param_tensor(unique=False)
    back = pk.construct_from_tensor(flat * 2, unique=False)
    ok2 = flat.numel() == 4 and torch.equal(back["a"][0], t[0] * 2) and torch.equal(back["a"][2], t[3] * 2) and torch.equal(back["a"][1][0], t[1])
    if not ok or not ok2:
        ctx.fail("oracle", "packer:tuple-opacity:construct", {"structure": "{a: [T0, (T1, T2), T3], b: 3}"},
                 {"list_interface_ok": bool(ok), "flat_interface_ok": bool(ok2)}, "slots 0 and 2 of the list hold the supplied tensors, the tuple is preserved")


def dtype_and_shape_history_probe(ctx, xt):
    """(a) tensors of different dtypes in one structure: the flat interface keeps the VALUES (torch.cat promotes to the widest
    dtype; round-4 seed C20/11: everything cast to the dtype of the first tensor);  (b) unique=True with aliased slots of
    different shapes: the shape check is per DISTINCT tensor (round-4 seed C20/10);  (c) a held tensor reshaped in place between two
    uses of one Packer: lists and reconstructions follow the current shapes (round-4 seed C20/12: shapes cached at first use)"""
    ti = torch.tensor([3, -2, 5], dtype=torch.int64)
    tf = torch.tensor([[0.25, 1.5], [-0.75, 2.0]], dtype=torch.float64)
    th = torch.tensor([0.5, -1.25], dtype=torch.float32)
    for name, obj, parts in (("int64-first", [ti, {"w": tf}], [ti, tf]), ("float32-first", {"a": th, "b": [tf, ti]}, [th, tf, ti])):
        pk = xt.Packer(obj)
        ctx.count(("mixed-dtypes", name), nontrivial=True)
        try:
            flat = pk.get_param_tensor(unique=False)
            back = xt.Packer(pk.construct_from_tensor(flat, unique=False)).get_param_tensor_list(unique=False)
        except Exception as e:
            ctx.fail("oracle", "packer:mixed-dtypes:exception", {"structure": name}, repr(e)[:200], "a flat tensor and its round trip")
            continue
        if len(back) != len(parts) or any(b_.shape != p_.shape or not torch.equal(b_.to(torch.float64), p_.to(torch.float64)) for b_, p_ in zip(back, parts)):
            ctx.fail("oracle", "packer:mixed-dtypes:values-lost", {"structure": name, "dtypes": [str(p_.dtype) for p_ in parts]},
                     [b_.tolist() for b_ in back], [p_.tolist() for p_ in parts])
    a2, b2 = torch.zeros(2, 3, dtype=torch.float64), torch.ones(4, dtype=torch.float64)
    pk = xt.Packer([a2, {"x": a2}, b2])
    pk.get_param_tensor_list(unique=True)            # the documented order of use: list first, then construct
    ctx.count(("unique-shapes",), nontrivial=True)
    try:
        na, nb = torch.zeros(2, 3, dtype=torch.float64) + 5, torch.zeros(4, dtype=torch.float64) + 6
        r = pk.construct_from_tensor_list([na, nb], unique=True)
        if not (r[0] is na and r[1]["x"] is na and r[2] is nb):
            ctx.fail("oracle", "packer:unique-shapes:positions", {"slots": "[a, {x: a}, b], a (2,3), b (4,)"}, "wrong positions", "a', a', b'")
    except Exception as e:
        ctx.fail("oracle", "packer:unique-shapes:rejected", {"slots": "[a, {x: a}, b], a (2,3), b (4,)"}, repr(e)[:200], "a correct unique list is accepted")
    try:
        pk.construct_from_tensor_list([torch.zeros(2, 3, dtype=torch.float64), torch.zeros(2, 3, dtype=torch.float64)], unique=True)
        ctx.fail("oracle", "packer:unique-shapes:wrong-shape-accepted", {"slots": "[a, {x: a}, b]", "supplied": "(2,3), (2,3)"}, "no error", "rejected")
    except (RuntimeError, AssertionError, ValueError, IndexError):
        pass
    w_ = torch.arange(6, dtype=torch.float64).reshape(2, 3)
    pk = xt.Packer({"w": w_, "k": 1})
    pk.get_param_tensor_list(unique=False)
    pk.get_param_tensor(unique=False)
    w_.t_()                                            # now (3, 2), in place
    ctx.count(("shape-history",), nontrivial=True)
    try:
        lst = pk.get_param_tensor_list(unique=False)
        ok_new = pk.construct_from_tensor_list([torch.zeros(3, 2, dtype=torch.float64)], unique=False)["w"].shape == (3, 2)
        flat = pk.get_param_tensor(unique=False)
        back = pk.construct_from_tensor(flat, unique=False)["w"]
        if not ok_new or back.shape != (3, 2) or not torch.equal(back, w_):
            ctx.fail("oracle", "packer:shape-history", {"sequence": ["get_*", "w.t_() in place", "get_*", "construct_*"]},
                     {"shape": list(back.shape), "values": back.tolist()}, {"shape": [3, 2], "values": w_.tolist()})
    except Exception as e:
        ctx.fail("oracle", "packer:shape-history:exception", {"sequence": ["get_*", "w.t_() in place", "get_*", "construct_*"]}, repr(e)[:200],
                 "the current shape is the one that counts")


def tensor_subclass_probe(ctx, xt):
    """instances of torch.Tensor SUBCLASSES (torch.nn.Parameter) are tensors for listing AND for refilling, in every container
    kind and next to plain tensors (round-5 seed C20/13: _put_tensors tested `type(b) is torch.Tensor` while _extract_tensors
    kept isinstance - the Parameter slot was listed but never refilled and the later slots received its tensor)"""
    rng = ctx.rng
    for rep in range(ctx.n(12, 60)):
        pool_n = rng.randrange(2, 5)
        pool = []
        for i in range(pool_n):
            t = make_tensor(rng, rng.choice(SHAPES))
            pool.append(torch.nn.Parameter(t, requires_grad=rng.random() < 0.7) if (i == 0 or rng.random() < 0.5) else t)
        while True:
            spec = gen_struct(rng, pool_n, [rng.randrange(3, 12)], top=True)
            if len(slots(spec)) >= 2 and 0 in slots(spec):
                break
        info = {"structure": skeleton(spec), "slots": slots(spec), "parameter_slots": [i for i in range(pool_n)
                                                                                       if isinstance(pool[i], torch.nn.Parameter)]}
        ctx.count(("tensor-subclass", skeleton(spec), tuple(slots(spec)), tuple(info["parameter_slots"])), nontrivial=True)

        def of(key, msg, info=info):
            ctx.fail("oracle", "packer:tensor-subclass:" + key, info, msg, "property clause holds")
        try:
            oracle_case(xt, spec, pool, of)
        except Exception as e:
            ctx.fail("oracle", "packer:tensor-subclass:exception", info, repr(e), "no exception on valid use")


def noncontiguous_probe(ctx, xt):
    """tensors that are transposed, expanded or strided VIEWS are tensors like any other: the flat interface concatenates their
    elements in row-major order and the round trip reproduces values and shapes (round-5 seed C20/14: reshape(-1) became view(-1),
    which raises for a transposed or expanded view)"""
    base = torch.arange(6, dtype=torch.float64).reshape(2, 3)
    views = {"transposed": base.t(), "expanded": torch.tensor([[1.0], [2.0]], dtype=torch.float64).expand(2, 3),
             "column-strided": torch.arange(12, dtype=torch.float64).reshape(3, 4)[:, ::2], "plain": torch.tensor([7.0, 8.0], dtype=torch.float64)}
    for names in (("transposed", "plain"), ("plain", "expanded"), ("column-strided", "transposed", "expanded"), ("transposed", "transposed")):
        obj = {"k%d" % i: views[nm] for i, nm in enumerate(names)}
        info = {"structure": "dict of " + ", ".join(names)}
        ctx.count(("noncontiguous",) + names, nontrivial=True)
        for u in (False, True):
            try:
                pk = xt.Packer(obj)
                flat = pk.get_param_tensor(unique=u)
                lst = pk.get_param_tensor_list(unique=u)
                want = torch.cat([t.reshape(-1) for t in lst])
                back = pk.construct_from_tensor(flat * 2, unique=u)
            except Exception as e:
                ctx.fail("oracle", "packer:noncontiguous:exception", dict(info, unique=u), repr(e)[:200], "a flat tensor and its round trip")
                continue
            ok = torch.equal(flat.reshape(-1), want) and all(back[k].shape == obj[k].shape and torch.equal(back[k], obj[k] * 2) for k in obj)
            if not ok:
                ctx.fail("oracle", "packer:noncontiguous:flat-roundtrip", dict(info, unique=u), flat.tolist(), want.tolist())


def attribute_interception_probe(ctx, xt):
    """attribute-bearing objects are read AND refilled through their instance dictionary: a class that intercepts attribute assignment
    (a frozen dataclass; a __setattr__ that stores a detached copy) is rebuilt like any other object and position i holds the i-th
    supplied tensor itself (round-6 seed C20/15: _put_tensors wrote with setattr while _extract_tensors read __dict__)"""
    import dataclasses

    @dataclasses.dataclass(frozen=True)
    class Frozen:
        w: torch.Tensor
        k: int
        b: torch.Tensor

    class Detaching:
        def __init__(self, w, b):
            self.__dict__["w"] = w
            self.__dict__["b"] = b

        def __setattr__(self, key, val):
            self.__dict__[key] = val.detach().clone() if isinstance(val, torch.Tensor) else val
    mk = lambda v: torch.tensor([v, v + 0.5], dtype=torch.float64)
    for name, build_obj in (("frozen dataclass", lambda: Frozen(mk(1.0), 3, mk(2.0))), ("class with a detaching __setattr__", lambda: Detaching(mk(1.0), mk(2.0)))):
        for u in (False, True):
            ctx.count(("attribute-interception", name, u), nontrivial=True)
            obj = {"o": build_obj(), "t": mk(5.0)}
            try:
                pk = xt.Packer(obj)
                lst = pk.get_param_tensor_list(unique=u)
                sup = [torch.zeros_like(t) + 10 + i for i, t in enumerate(lst)]
                new = pk.construct_from_tensor_list(list(sup), unique=u)
                got = xt.Packer(new).get_param_tensor_list(unique=False)
                flat = pk.get_param_tensor(unique=u)
                back = pk.construct_from_tensor(flat * 2, unique=u)
                gotf = xt.Packer(back).get_param_tensor_list(unique=False)
            except Exception as e:
                ctx.fail("oracle", "packer:attribute-interception:exception", {"object": name, "unique": u}, repr(e)[:200], "a rebuilt structure")
                continue
            if [id(x) for x in got] != [id(x) for x in sup] or not all(torch.equal(a, b * 2) for a, b in zip(gotf, lst)):
                ctx.fail("oracle", "packer:attribute-interception:positions", {"object": name, "unique": u}, "rebuilt slots are not the supplied tensors",
                         "position i holds the i-th supplied tensor")


def check(ctx):
    import xitorch as xt
    attribute_interception_probe(ctx, xt)
    noncontiguous_probe(ctx, xt)
    tuple_opacity_probe(ctx, xt)
    dtype_and_shape_history_probe(ctx, xt)
    tensor_subclass_probe(ctx, xt)
    rng = ctx.rng
    ncases = ctx.n(400, 3000)
    cases, meta = [], []

    def mk_oracle_fail(info):
        def f(key, msg):
            ctx.fail("oracle", "packer:" + key, info, msg, "property clause holds")
        return f

    specs = []
    for ci in range(ncases):
        pool_n = rng.randrange(1, 5)
        pool = [make_tensor(rng, rng.choice(SHAPES)) for _ in range(pool_n)]
        spec = gen_struct(rng, pool_n, [rng.randrange(2, 14)], top=True)
        ops = gen_ops(rng, pool, slots(spec))
        specs.append((spec, pool, ops))
    if ctx.thorough():
        specs.extend(exhaustive_specs())
    for spec, pool, ops in specs:
        info = {"structure": skeleton(spec), "slots": slots(spec), "ops": ops}
        of = mk_oracle_fail(info)
        try:
            cobj, cops, cres, kinds = run_case(xt, spec, pool, ops, rng, of)
        except Exception as e:  # an error class the property does not allow
            ctx.fail("oracle", "packer:unexpected-exception", info, repr(e), "RuntimeError/AssertionError or a value")
            continue
        try:
            oracle_case(xt, spec, pool, of)
        except Exception as e:
            ctx.fail("oracle", "packer:oracle-exception", info, repr(e), "no exception on valid use")
        cases.append("case_ok %s %s %s" % (cobj, clist(["(%s)" % o for o in cops]), clist(cres)))
        meta.append(info)
        nontriv = bool(slots(spec)) and any(k[0] == "F" for k in kinds)
        ctx.count((skeleton(spec), tuple(slots(spec)), tuple(kinds)), nontrivial=nontriv)
        for k in kinds:
            ctx.stat("op:" + k.split("!")[0][:2])
            if "!" in k:
                ctx.stat("malformed:" + k.split("!")[1])
        for r in cres:
            ctx.stat("result:" + r[1:5])
        if len(slots(spec)) != len(set(slots(spec))):
            ctx.stat("aliased_structures")
        ctx.sample({"structure": skeleton(spec), "slot_tensor_ids": slots(spec), "ops": kinds})
    failed, errors = coq_bool_cases("c20", HEADER, cases, chunk=200)
    ctx.coverage["traces_validated_against_impl"] += len(cases) - len(failed)
    for e in errors:
        ctx.broken("correspondence:packer", e)
    for i in failed[:3]:
        term = cases[i]
        parts = term[len("case_ok "):]
        shown = coq_show("c20", HEADER, "run (packer_init %s" % parts.rsplit(" [", 1)[0].replace(") [(O", ")) [(O", 1)) \
            if False else ""
        ctx.broken("correspondence:packer", {"case": meta[i], "coq_case": term[:3000],
                                             "note": "model result differs from implementation result"})
    if ctx.thorough():
        ctx.coverage["exhaustive"] = False
        ctx.notes["exhaustive_part"] = "all set partitions of <=4 slots x all op sequences of length <=3 (valid args)"


def set_partitions(n):
    """restricted growth strings"""
    def rec(prefix, m):
        if len(prefix) == n:
            yield list(prefix)
            return
        for v in range(m + 1):
            yield from rec(prefix + [v], max(m, v + 1) if v == m else m)
    yield from rec([], 0)


def exhaustive_specs():
    res = []
    shapes_for = {1: [("L", [("T", 0)])],
                  2: [("D", [(0, ("T", 0)), (1, ("L", [("T", 1)]))])],
                  3: [("O", [(2, ("T", 0)), (0, ("L", [("T", 1), ("Leaf", 3), ("T", 2)]))])],
                  4: [("L", [("T", 0), ("D", [(1, ("T", 1)), (0, ("Tup", [("Leaf", 1)])), (3, ("T", 2))]), ("T", 3)])]}
    kinds = [(k, u, "ok") for k in ("GL", "GT", "FL", "FT") for u in (True, False)]
    import random
    r = random.Random(12345)
    for n in (1, 2, 3, 4):
        for part in set_partitions(n):
            for shp in shapes_for[n]:
                def relabel(s, it):
                    if s[0] == "T":
                        return ("T", part[next(it)])
                    if s[0] in ("L", "Tup"):
                        return (s[0], [relabel(x, it) for x in s[1]])
                    if s[0] in ("D", "O"):
                        return (s[0], [(k, relabel(x, it)) for k, x in s[1]])
                    return s
                spec = relabel(shp, iter(range(n)))
                pool = [make_tensor(r, (2,)) for _ in range(max(part) + 1)]
                for L in (1, 2, 3):
                    for ops in itertools.product(kinds, repeat=L):
                        if L == 3 and n == 4 and r.random() < 0.5:
                            continue
                        res.append((spec, pool, list(ops)))
    return res


def search(ctx):
    """a tie broke: look for an input on which the implementation itself violates a clause"""
    import xitorch as xt
    rng = ctx.rng
    for _ in range(ctx.n(1500, 6000)):
        pool_n = rng.randrange(1, 5)
        pool = [make_tensor(rng, rng.choice(SHAPES)) for _ in range(pool_n)]
        spec = gen_struct(rng, pool_n, [rng.randrange(2, 10)], top=True)
        info = {"structure": skeleton(spec), "slots": slots(spec)}

        def of(key, msg):
            ctx.fail("oracle", "packer:" + key, info, msg, "property clause holds")
        try:
            oracle_case(xt, spec, pool, of)
        except Exception as e:
            ctx.fail("oracle", "packer:oracle-exception", info, repr(e), "no exception on valid use")
        if ctx.failures:
            return

"""C13 — quad gradients in parameters and limits match the forward rule's accuracy.

Tie (model vs implementation, 2^-36 relative): Model/Quad.v + the symbolic derivative dfexp (proved to be
  the derivative for any derivation) evaluated at IEEE binary64 by vm_compute against torch autograd
  through the public quad: d/dtheta_j = the same n-point rule applied to d f/d theta_j, second order
  d2/dtheta_j dtheta_k, Leibniz terms -f(xl), +f(xu) for tensor limits.
Exact tie of the option flow: the keyword arguments the forward and the backward quadrature receive
  (spy method) against Model/Dispatch.v bck_config.
Oracle: python-number / infinite limits differentiate without error, unused tensors (explicit, object-held)
  get zero or None, second order of integrands linear in a parameter, bck_options with another n."""
from __future__ import annotations
import math, warnings
import numpy as np
import torch
from vlib import cnat, clist, cfloat, coq_bool_cases
from props.c07 import gen_exp, exp_coq, exp_eval, exp_str, fvec
from props.c12 import table, gen_interval, NS

RULE = ("random polynomial integrands f(x; theta_0..theta_2) (depth <=3) x n in {1..12,16,25} x tensor limits requiring grad x "
        "first and second order (all pairs); option flows fwd x bck; distinct = (n, interval, integrand, theta); non-trivial = "
        "the integrand depends on at least one parameter")
TRUSTED = ["harness tools/props/c13.py", "autograd's pull-back through the user function (oracle of the implementation)",
           "numpy leggauss table (input of the model)"]
ASSUMPTIONS = ["gradients w.r.t. the limits are the Leibniz terms +-f(limit) of the exact integral (as the property states), "
               "not derivatives of the discrete rule"]
HEADER = ("From XV Require Import Base.Ops Model.ExplicitRK Model.Quad Model.QuadRun Model.Dispatch.\n"
          "From Coq Require Import QArith List PrimFloat String.\nImport ListNotations.\n")
DT = torch.float64


def copts(d):
    return "[" + "; ".join('("%s"%%string, %d%%nat)' % (k, int(v)) for k, v in d.items()) + "]"


def check(ctx):
    from xitorch.integrate import quad
    import xitorch as xt
    rng = ctx.rng
    cases, meta = [], []
    for _ in range(ctx.n(70, 500)):
        n = rng.choice([v for v in NS if v <= 25])
        xlg, wlg = table(n)
        nth = rng.randrange(1, 4)
        th = [rng.randrange(-12, 13) / 8 for _ in range(nth)]
        fx = gen_exp(rng, nth, rng.randrange(1, 4))
        a, b = gen_interval(rng)
        params = [torch.tensor(v, dtype=DT, requires_grad=True) for v in th]
        xl = torch.tensor(a, dtype=DT, requires_grad=True)
        xu = torch.tensor(b, dtype=DT, requires_grad=True)

        def fcn(x, *ps):
            return exp_eval(fx, x, list(ps)) + 0 * x
        info = {"n": n, "xl": a, "xu": b, "f": exp_str(fx), "theta": th}
        try:
            val = quad(fcn, xl, xu, params=tuple(params), n=n)
            g = torch.autograd.grad(val, params + [xl, xu], create_graph=True, allow_unused=True)
            g = [torch.zeros((), dtype=DT) if x is None else x for x in g]
            g2 = []
            for j in range(nth):
                if g[j].requires_grad:
                    row = torch.autograd.grad(g[j], params, retain_graph=True, allow_unused=True)
                    g2.append([0.0 if x is None else float(x) for x in row])
                else:
                    g2.append([0.0] * nth)
        except Exception as e:
            ctx.fail("oracle", "quadgrad:exception", info, repr(e)[:300], "gradients are defined")
            continue
        cases.append("quad_grads_ok %s %s %s %s %s %s %s %s %s %s 0x1p-36 0x1p-40" % (
            exp_coq(fx), fvec(th), fvec(xlg), fvec(wlg), cfloat(a), cfloat(b), fvec([float(x) for x in g[:nth]]),
            cfloat(float(g[nth])), cfloat(float(g[nth + 1])), clist([fvec(r) for r in g2])))
        meta.append(info)
        ctx.count((n, a, b, exp_str(fx), tuple(th)), nontrivial="y" in exp_str(fx))
        ctx.sample(info, limit=4)
    # ---- option flow (exact) ----
    import importlib
    lg = importlib.import_module("xitorch._impls.integrate.fixed_quad").leggauss
    for fwd, bck in [({"n": 7}, {}), ({"n": 7}, {"n": 11}), ({}, {"n": 5}), ({"n": 9, "zz": 1}, {"yy": 2}), ({}, {})]:
        seen = []

        def spy(fcn, xl, xu, params, **kw):
            seen.append(dict(kw))
            return lg(fcn, xl, xu, params, **kw)
        ap = torch.tensor(1.3, dtype=DT, requires_grad=True)
        val = quad(lambda x, a: torch.exp(-a * x), 0.0, 1.0, params=(ap,), method=spy, bck_options=bck, **fwd)
        g, = torch.autograd.grad(val, ap, create_graph=True)
        n1 = len(seen)
        torch.autograd.grad(g, ap)
        if n1 < 2 or len(seen) < 3:
            ctx.fail("oracle", "quadgrad:options:method-not-used-in-backward", {"fwd": fwd, "bck": bck}, len(seen), ">= 3 calls")
            continue
        cases.append("opts_eqb (fwd_kwargs %s) %s" % (copts(dict(fwd, method=9)), copts(seen[0])))
        meta.append({"options": "forward", "fwd": fwd, "bck": bck, "received": seen[0]})
        for lvl, rec in (("backward", seen[1]), ("double-backward", seen[-1])):
            cases.append("opts_eqb (fwd_kwargs (bck_config %s %s)) %s" % (copts(dict(fwd, method=9)), copts(bck), copts(rec)))
            meta.append({"options": lvl, "fwd": fwd, "bck": bck, "received": rec})
        ctx.count(("options", tuple(fwd.items()), tuple(bck.items())))
    failed, errors = coq_bool_cases("c13", HEADER, cases, chunk=40)
    ctx.coverage["traces_validated_against_impl"] += len(cases) - len(failed)
    for e in errors:
        ctx.broken("correspondence:quad-gradient", e)
    for i in failed[:3]:
        ctx.broken("correspondence:quad-gradient", {"case": meta[i], "coq": cases[i][:1500]})
    oracle(ctx)
    tuple_object_probe(ctx)
    limit_shapes_probe(ctx)
    semi_infinite_limit_probe(ctx)
    round6_probes(ctx)


def oracle(ctx):
    from xitorch.integrate import quad
    import xitorch as xt
    a = torch.tensor(1.3, dtype=DT, requires_grad=True)
    b = torch.tensor(0.4, dtype=DT, requires_grad=True)
    u = torch.tensor(2.0, dtype=DT, requires_grad=True)
    f = lambda x, a, b: torch.exp(-a * x) * b + a * x
    ref = lambda lo, hi, a, b: b * (torch.exp(-a * lo) - torch.exp(-a * hi)) / a + a * (hi * hi - lo * lo) / 2

    def cmp(name, got, want, tol=1e-9):
        ctx.count(("oracle", name))
        if got is None or not torch.allclose(got, want, rtol=tol, atol=1e-12):
            ctx.fail("oracle", "quadgrad:" + name, {}, got, want)
    # accepted forms of the limits
    for name, lo, hi in (("numbers", 0.25, 1.5), ("num-tensor", 0.25, torch.tensor(1.5, dtype=DT)),
                         ("tensors-nograd", torch.tensor(0.25, dtype=DT), torch.tensor(1.5, dtype=DT))):
        try:
            v = quad(f, lo, hi, params=(a, b), n=40)
            g = torch.autograd.grad(v, (a, b), create_graph=True)
            r = ref(torch.tensor(0.25, dtype=DT), torch.tensor(1.5, dtype=DT), a, b)
            gr = torch.autograd.grad(r, (a, b), create_graph=True)
            cmp("limits-%s:da" % name, g[0], gr[0])
            cmp("limits-%s:db" % name, g[1], gr[1])
            g2 = torch.autograd.grad(g[0], (a, b))
            gr2 = torch.autograd.grad(gr[0], (a, b))
            cmp("limits-%s:d2aa" % name, g2[0], gr2[0], 1e-8)
            cmp("limits-%s:d2ab" % name, g2[1], gr2[1], 1e-8)
        except Exception as e:
            ctx.fail("oracle", "quadgrad:limits-%s:exception" % name, {}, repr(e)[:300], "differentiation works for every accepted form of the limits")
    # Leibniz rule for ONE differentiable limit, the other one a number or a tensor without grad (round-4 seed C13/10: the boundary
    # term of xu guarded by the flag of xl)
    for name, lo_f, hi_f in (("xu-tensor:xl-number", lambda: 0.25, lambda: torch.tensor(1.5, dtype=DT, requires_grad=True)),
                             ("xu-tensor:xl-nograd", lambda: torch.tensor(0.25, dtype=DT), lambda: torch.tensor(1.5, dtype=DT, requires_grad=True)),
                             ("xl-tensor:xu-number", lambda: torch.tensor(0.25, dtype=DT, requires_grad=True), lambda: 1.5),
                             ("xl-tensor:xu-nograd", lambda: torch.tensor(0.25, dtype=DT, requires_grad=True), lambda: torch.tensor(1.5, dtype=DT))):
        try:
            lo_, hi_ = lo_f(), hi_f()
            v = quad(f, lo_, hi_, params=(a, b), n=30)
            lim = hi_ if name.startswith("xu") else lo_
            sign = 1.0 if name.startswith("xu") else -1.0
            gl, = torch.autograd.grad(v, lim, create_graph=True, allow_unused=True)
            cmp("one-limit:%s:first" % name, gl, sign * f(lim, a, b).detach(), 1e-12)
            if gl is not None and gl.requires_grad:
                g2 = torch.autograd.grad(gl, (lim, a), allow_unused=True)
                limd = lim.detach().clone().requires_grad_()
                r2 = torch.autograd.grad(sign * f(limd, a, b), (limd, a))
                cmp("one-limit:%s:second:limit" % name, g2[0], r2[0], 1e-10)
                cmp("one-limit:%s:second:a" % name, g2[1], r2[1], 1e-10)
            else:
                ctx.fail("oracle", "quadgrad:one-limit:%s:second-order-graph-missing" % name, {}, None, "a differentiable boundary term")
        except Exception as e:
            ctx.fail("oracle", "quadgrad:one-limit:%s:exception" % name, {}, repr(e)[:300], "Leibniz rule")
    # only the limits are differentiable: no parameter, a parameter without grad, a python number (finding F34: the slicing
    # of the saved tensors with -0 handed the limits over as parameters and the backward raised)
    for name, prm, fac in (("no-params", (), 1.0), ("tensor-nograd-param", (torch.tensor(2.0, dtype=DT),), 2.0), ("number-param", (2.0,), 2.0)):
        try:
            lo_ = torch.tensor(0.25, dtype=DT, requires_grad=True)
            hi_ = torch.tensor(1.5, dtype=DT, requires_grad=True)
            fl = lambda x, *p: torch.sin(x) * (p[0] if p else 1.0)
            v = quad(fl, lo_, hi_, params=prm, n=30)
            glo, ghi = torch.autograd.grad(v, (lo_, hi_), create_graph=True)
            cmp("limits-only:%s:xl" % name, glo, -fac * torch.sin(lo_).detach(), 1e-12)
            cmp("limits-only:%s:xu" % name, ghi, fac * torch.sin(hi_).detach(), 1e-12)
            g2, = torch.autograd.grad(ghi, hi_, allow_unused=True)
            cmp("limits-only:%s:d2xu" % name, g2, fac * torch.cos(hi_).detach(), 1e-10)
        except Exception as e:
            ctx.fail("oracle", "quadgrad:limits-only:%s:exception" % name, {}, repr(e)[:300], "Leibniz rule for the limits")
    # one tensor passed in two parameter slots: the gradient w.r.t. it is the sum of the two partial derivatives
    try:
        v = quad(lambda x, p, q: p * x + q * x * x, 0.0, 1.0, params=(a, a), n=10)
        g, = torch.autograd.grad(v, a)
        ctx.count(("oracle", "aliased-explicit-params"))
        if not torch.allclose(g, torch.tensor(5.0 / 6.0, dtype=DT), rtol=1e-9):
            ctx.fail("oracle", "quadgrad:aliased-explicit-params", {"call": "quad(lambda x, p, q: p*x + q*x*x, 0, 1, params=(a, a))"},
                     float(g), 5.0 / 6.0)
    except Exception as e:
        ctx.fail("oracle", "quadgrad:aliased-explicit-params:exception", {}, repr(e)[:300], "5/6")
    # an integrand that branches on x and ignores the parameter on part of the interval (in particular at the limits): the
    # gradient is still the same-rule integral of the derivative (round-3 seed C13/9: the backward probed the integrand at xl
    # and returned zeros when that value carried no graph)
    import numpy as _np
    for (lo_b, hi_b, nb) in ((0.0, 1.0, 8), (0.2, 2.0, 11)):
        def fbranch(x, a):
            return a * x * x if float(x) > 0.5 * (lo_b + hi_b) else torch.ones_like(x) + 0.0 * x
        xg, wg = _np.polynomial.legendre.leggauss(nb)
        xs_ = 0.5 * (hi_b - lo_b) * xg + 0.5 * (hi_b + lo_b)
        want_v = sum(0.5 * (hi_b - lo_b) * w_ * (float(a) * x_ * x_ if x_ > 0.5 * (lo_b + hi_b) else 1.0) for x_, w_ in zip(xs_, wg))
        want_g = sum(0.5 * (hi_b - lo_b) * w_ * x_ * x_ for x_, w_ in zip(xs_, wg) if x_ > 0.5 * (lo_b + hi_b))
        try:
            vb = quad(fbranch, torch.tensor(lo_b, dtype=DT), torch.tensor(hi_b, dtype=DT), params=(a,), n=nb)
            gb, = torch.autograd.grad(vb, a, allow_unused=True)
            cmp("branching-integrand:value", vb.detach(), torch.tensor(want_v, dtype=DT), 1e-12)
            cmp("branching-integrand:da", gb, torch.tensor(want_g, dtype=DT), 1e-12)
        except Exception as e:
            ctx.fail("oracle", "quadgrad:branching-integrand:exception", {"interval": [lo_b, hi_b], "n": nb}, repr(e)[:300], want_g)
    # ... and one tensor that is both an explicit parameter and held by the integrand's module (same finding F35)
    try:
        class HoldA(torch.nn.Module):
            def __init__(self):
                super().__init__()
                self.a = torch.nn.Parameter(torch.tensor(1.3, dtype=DT))

            def forward(self, x, p):
                return p * x + self.a * x * x
        hm = HoldA()
        v = quad(hm.forward, 0.0, 1.0, params=(hm.a,), n=10)
        g, = torch.autograd.grad(v, hm.a)
        ctx.count(("oracle", "aliased-explicit-and-object-param"))
        if not torch.allclose(g, torch.tensor(5.0 / 6.0, dtype=DT), rtol=1e-9):
            ctx.fail("oracle", "quadgrad:aliased-explicit-and-object-param", {"call": "quad(m.forward, 0, 1, params=(m.a,)) with forward(x, p) = p*x + self.a*x*x"},
                     float(g), 5.0 / 6.0)
    except Exception as e:
        ctx.fail("oracle", "quadgrad:aliased-explicit-and-object-param:exception", {}, repr(e)[:300], "5/6")
    # infinite limit
    try:
        v = quad(lambda x, a: torch.exp(-a * x * x), 0.0, math.inf, params=(a,), n=150)
        g, = torch.autograd.grad(v, (a,), create_graph=True)
        cmp("infinite:da", g, -0.25 * math.sqrt(math.pi) * a.detach() ** (-1.5), 1e-7)
        g2, = torch.autograd.grad(g, (a,))
        cmp("infinite:d2a", g2, 0.375 * math.sqrt(math.pi) * a.detach() ** (-2.5), 1e-6)
    except Exception as e:
        ctx.fail("oracle", "quadgrad:infinite:exception", {}, repr(e)[:300], "differentiation works for infinite limits")
    # Leibniz
    lo = torch.tensor(0.25, dtype=DT, requires_grad=True)
    hi = torch.tensor(1.5, dtype=DT, requires_grad=True)
    v = quad(f, lo, hi, params=(a, b), n=30)
    glo, ghi = torch.autograd.grad(v, (lo, hi))
    cmp("leibniz:xl", glo, -f(lo, a, b).detach(), 1e-12)
    cmp("leibniz:xu", ghi, f(hi, a, b).detach(), 1e-12)
    # unused tensors: explicit, object-held (EditableModule, nn.Module)
    try:
        v = quad(lambda x, a, u: torch.exp(-a * x), 0.0, 1.0, params=(a, u), n=20)
        g = torch.autograd.grad(v, (a, u), allow_unused=True, create_graph=True)
        if g[1] is not None and float(g[1].abs()) != 0:
            ctx.fail("oracle", "quadgrad:unused-explicit-nonzero", {}, g[1], "zero or None")
        g2 = torch.autograd.grad(g[0], (a, u), allow_unused=True)
    except Exception as e:
        ctx.fail("oracle", "quadgrad:unused-explicit:exception", {}, repr(e)[:300], "zero or absent gradient rather than an error")

    class EM(xt.EditableModule):
        def __init__(self):
            self.a, self.unused = a, u

        def f(self, x):
            return torch.exp(-self.a * x)

        def getparamnames(self, methodname, prefix=""):
            return [prefix + "a", prefix + "unused"]

    class NN(torch.nn.Module):
        def __init__(self):
            super().__init__()
            self.a = torch.nn.Parameter(torch.tensor(1.3, dtype=DT))
            self.unused = torch.nn.Parameter(torch.tensor(2.0, dtype=DT))

        def forward(self, x):
            return torch.exp(-self.a * x)
    nn = NN()
    for name, fcn, lv in (("editable", EM().f, (a, u)), ("nn", nn.forward, (nn.a, nn.unused))):
        try:
            v = quad(fcn, torch.tensor(0.0, dtype=DT), torch.tensor(1.0, dtype=DT), n=20)
            g = torch.autograd.grad(v, lv, allow_unused=True, create_graph=True)
            aa = lv[0].detach()
            cmp("unused-%s:da" % name, g[0], (torch.exp(-aa) * (aa + 1) - 1) / aa ** 2, 1e-9)
            if g[1] is not None and float(g[1].abs()) != 0:
                ctx.fail("oracle", "quadgrad:unused-%s-nonzero" % name, {}, g[1], "zero or None")
            g2 = torch.autograd.grad(g[0], lv, allow_unused=True)
        except Exception as e:
            ctx.fail("oracle", "quadgrad:unused-%s:exception" % name, {}, repr(e)[:300], "zero or absent gradient rather than an error")
    # second order of integrands linear in a parameter
    for name, fl in (("linear-all", lambda x, a, b: a * x + b), ("linear-b", lambda x, a, b: a * a * x + b * x)):
        try:
            v = quad(fl, 0.0, 1.0, params=(a, b), n=6)
            g = torch.autograd.grad(v, (a, b), create_graph=True)
            s = g[0] + g[1]
            if s.requires_grad:
                g2 = torch.autograd.grad(s, (a, b), allow_unused=True)
                want = 0.0 if name == "linear-all" else 1.0
                got = 0.0 if g2[0] is None else float(g2[0])
                if not abs(got - want) <= 1e-12:
                    ctx.fail("oracle", "quadgrad:%s:d2" % name, {}, got, want)
        except Exception as e:
            ctx.fail("oracle", "quadgrad:%s:exception" % name, {}, repr(e)[:300], "second-order gradient of a linear integrand")
        ctx.count(("oracle", name))
    # backward options: a different n in the backward is measurable on a non-polynomial probe
    probe = lambda x, a: 1 / (1 + a * x * x)
    v = quad(probe, 0.0, 3.0, params=(a,), n=4)
    g_same, = torch.autograd.grad(v, (a,))
    v = quad(probe, 0.0, 3.0, params=(a,), n=4, bck_options={"n": 60})
    g_bck, = torch.autograd.grad(v, (a,))
    xs, ws = np.polynomial.legendre.leggauss(4)
    ad = a.detach().clone().requires_grad_()
    disc = sum(w * 1.5 * probe(torch.tensor(x * 1.5 + 1.5, dtype=DT), ad) for x, w in zip(xs, ws))
    gd, = torch.autograd.grad(disc, (ad,))
    cmp("backward-uses-forward-n", g_same, gd, 1e-11)
    exact = torch.autograd.grad(torch.atan(3 * torch.sqrt(ad)) / torch.sqrt(ad), (ad,))[0]
    cmp("bck_options-n-used", g_bck, exact, 1e-8)


def tuple_object_probe(ctx):
    """tuple-valued integrands take a separate branch of quad(): tensors held by the function's object must still receive
    their gradient, first and second order (seeded defect C13/6)"""
    import xitorch as xt
    from xitorch.integrate import quad
    DT_ = torch.float64

    def pure(x, a, b, c):
        return torch.cos(a * x + b * c), torch.sin(a * x) * b

    class EMt(xt.EditableModule):
        def __init__(self, a, b):
            self.a, self.b = a, b

        def f(self, x, c):
            return pure(x, self.a, self.b, c)

        def getparamnames(self, methodname, prefix=""):
            return [prefix + "a", prefix + "b"]

    class NNt(torch.nn.Module):
        def __init__(self, a, b):
            super().__init__()
            self.a, self.b = torch.nn.Parameter(a.detach().clone()), torch.nn.Parameter(b.detach().clone())

        def forward(self, x, c):
            return pure(x, self.a, self.b, c)
    res = {}
    for kind in ("pure", "EditableModule", "nn.Module"):
        a = torch.tensor([0.9, 1.4], dtype=DT_, requires_grad=True)
        b = torch.tensor([0.3, -0.6], dtype=DT_, requires_grad=True)
        c = torch.tensor([1.1, 0.5], dtype=DT_, requires_grad=True)
        if kind == "pure":
            y0, y1 = quad(pure, 0.0, 0.7, params=(a, b, c), n=20)
            lv = [a, b, c]
        elif kind == "EditableModule":
            y0, y1 = quad(EMt(a, b).f, 0.0, 0.7, params=(c,), n=20)
            lv = [a, b, c]
        else:
            net = NNt(a, b)
            y0, y1 = quad(net.forward, 0.0, 0.7, params=(c,), n=20)
            lv = [net.a, net.b, c]
        loss = (y0 * y0).sum() + (y0 * y1).sum()
        g1 = torch.autograd.grad(loss, lv, create_graph=True, allow_unused=True)
        g1 = [torch.zeros_like(l) if g is None else g for g, l in zip(g1, lv)]
        s2 = sum((g * g).sum() for g in g1)
        g2 = torch.autograd.grad(s2, lv, allow_unused=True) if s2.requires_grad else [None] * 3
        g2 = [torch.zeros_like(l) if g is None else g for g, l in zip(g2, lv)]
        res[kind] = [t.detach() for t in g1 + g2]
        ctx.count(("tuple-object", kind), nontrivial=True)
    for kind in ("EditableModule", "nn.Module"):
        for nm, x_, y_ in zip(("da", "db", "dc", "d2a", "d2b", "d2c"), res[kind], res["pure"]):
            if not torch.allclose(x_, y_, rtol=1e-9, atol=1e-11):
                ctx.fail("oracle", "quadgrad:tuple-integrand:%s:%s" % (kind, nm), {"integrand": "(cos(a x + b c), sin(a x) b)", "function_kind": kind},
                         x_.tolist(), y_.tolist())
                break


def limit_shapes_probe(ctx):
    """every accepted combination of 1-element limits - Python number, 0-dim tensor, tensor of shape (1,) - that the forward pass
    accepts is differentiable, first and second order, w.r.t. the tensor limits and a 0-dim parameter (finding F42: the backward
    integration probed the integrand at the lower limit, whose shape may differ from the shape of the forward result, which follows
    the upper limit)"""
    from xitorch.integrate import quad
    mk = {"number": lambda v: v, "0-dim": lambda v: torch.tensor(v, dtype=DT, requires_grad=True),
          "(1,)": lambda v: torch.tensor([v], dtype=DT, requires_grad=True)}
    for kl in mk:
        for ku in mk:
            xl, xu = mk[kl](0.5), mk[ku](2.0)
            a = torch.tensor(1.5, dtype=DT, requires_grad=True)
            info = {"xl": kl, "xu": ku, "integrand": "a x^3, a 0-dim", "n": 5}
            try:
                y = quad(lambda x, c: c * x * x * x, xl, xu, params=(a,), n=5)
            except Exception:
                ctx.stat("limit_shapes_forward_rejects")      # not an accepted form
                continue
            ctx.count(("limit-shapes", kl, ku), nontrivial=kl != ku)
            lims = [t for t in (xl, xu) if isinstance(t, torch.Tensor)]
            try:
                with warnings.catch_warnings():
                    warnings.simplefilter("ignore")
                    g = torch.autograd.grad(y.sum(), (a, *lims), create_graph=True)
                    g2 = torch.autograd.grad(g[0].sum(), (a, *lims), allow_unused=True)
            except Exception as e:
                ctx.fail("oracle", "quadgrad:limit-shapes:exception", info, repr(e)[:300], "gradients (the forward call is accepted)")
                continue
            want = [(2.0 ** 4 - 0.5 ** 4) / 4] + ([-1.5 * 0.5 ** 3] if kl != "number" else []) + ([1.5 * 2.0 ** 3] if ku != "number" else [])
            want2 = [0.0] + ([-0.5 ** 3] if kl != "number" else []) + ([2.0 ** 3] if ku != "number" else [])
            got = [float(t.detach().sum()) for t in g]
            got2 = [0.0 if t is None else float(t.detach().sum()) for t in g2]
            shapes_ok = all(t.shape == p.shape for t, p in zip(g, (a, *lims)))
            if not shapes_ok or any(abs(u - w) > 1e-10 for u, w in zip(got + got2, want + want2)):
                ctx.fail("oracle", "quadgrad:limit-shapes", info, {"first": got, "second": got2, "shapes": [list(t.shape) for t in g]},
                         {"first": want, "second": want2})


def semi_infinite_limit_probe(ctx):
    """one infinite limit, the finite one a tensor requiring grad: the Leibniz boundary term of the finite limit is there, first order
    and in the mixed second derivative (round-5 seed C13/13: the infinite branch switched both boundary terms off 'because the
    integrand vanishes at infinity')"""
    from xitorch.integrate import quad
    for side in ("upper-infinite", "lower-infinite"):
        a = torch.tensor(1.3, dtype=DT, requires_grad=True)
        xf = torch.tensor(0.4, dtype=DT, requires_grad=True)
        f = lambda x, c: c * torch.exp(-c * x * x) * (1.0 + 0.0 * x)
        ctx.count(("semi-infinite-limit", side), nontrivial=True)
        try:
            with warnings.catch_warnings():
                warnings.simplefilter("ignore")
                y = quad(f, xf, float("inf"), params=(a,), n=120) if side == "upper-infinite" else quad(f, -float("inf"), xf, params=(a,), n=120)
                gx, = torch.autograd.grad(y, xf, create_graph=True, allow_unused=True)
                gxa = None if gx is None else torch.autograd.grad(gx, a, allow_unused=True)[0]
        except Exception as e:
            ctx.fail("oracle", "quadgrad:semi-infinite:exception", {"side": side}, repr(e)[:300], "gradient w.r.t. the finite limit")
            continue
        fx = float(f(xf.detach(), a.detach()))
        sign = -1.0 if side == "upper-infinite" else 1.0
        dfa = float(torch.exp(-a.detach() * 0.16) * (1 - a.detach() * 0.16))
        got = None if gx is None else float(gx.detach())
        got2 = None if gxa is None else float(gxa)
        if got is None or abs(got - sign * fx) > 1e-12 or got2 is None or abs(got2 - sign * dfa) > 1e-10:
            ctx.fail("oracle", "quadgrad:semi-infinite:finite-limit", {"side": side, "integrand": "a exp(-a x^2)", "finite_limit": 0.4, "a": 1.3},
                     {"dy_dx": got, "d2y_dx_da": got2}, {"dy_dx": sign * fx, "d2y_dx_da": sign * dfa})


def round6_probes(ctx):
    """(a) an integrand that returns a differentiable LEAF unchanged (a plateau parameter, a module's level): d/dlevel of the integral is
    the length of the interval (round-6 seed C13/15: the 'does not depend on any tensor' shortcut tested f.grad_fn is None instead of
    not f.requires_grad).  (b) a limit that requires grad and whose dtype differs from the integrand's (float32 limit, float64
    parameters): its Leibniz gradient is there (C13/16: the flag was taken from the dtype-converted copy made under no_grad)"""
    from xitorch.integrate import quad

    class Plateau(torch.nn.Module):
        def __init__(self):
            super().__init__()
            self.level = torch.nn.Parameter(torch.tensor(1.5, dtype=DT))

        def forward(self, x):
            return self.level
    level = torch.tensor(1.5, dtype=DT, requires_grad=True)
    m = Plateau()
    for name, run, leaf in (("function returning its parameter", lambda: quad(lambda x, c: c, 0.0, 2.0, params=(level,), n=6), level),
                            ("module returning its Parameter", lambda: quad(m.forward, 0.0, 2.0, n=6), m.level)):
        ctx.count(("leaf-valued-integrand", name), nontrivial=True)
        try:
            with warnings.catch_warnings():
                warnings.simplefilter("ignore")
                y = run()
                gl, = torch.autograd.grad(y, leaf, allow_unused=True)
        except Exception as e:
            ctx.fail("oracle", "quadgrad:leaf-valued-integrand:exception", {"integrand": name}, repr(e)[:200], "a gradient")
            continue
        if gl is None or abs(float(gl) - 2.0) > 1e-12 or abs(float(y.detach()) - 3.0) > 1e-12:
            ctx.fail("oracle", "quadgrad:leaf-valued-integrand", {"integrand": name, "interval": [0.0, 2.0]},
                     {"value": float(y.detach()), "d_dlevel": None if gl is None else float(gl)}, {"value": 3.0, "d_dlevel": 2.0})
    a = torch.tensor(1.3, dtype=DT, requires_grad=True)
    for which in ("lower", "upper"):
        lim = torch.tensor(0.5, dtype=torch.float32, requires_grad=True)
        ctx.count(("limit-dtype-differs", which), nontrivial=True)
        try:
            with warnings.catch_warnings():
                warnings.simplefilter("ignore")
                y = quad(lambda x, c: c * x * x, lim, 2.0, params=(a,), n=6) if which == "lower" else quad(lambda x, c: c * x * x, -1.0, lim, params=(a,), n=6)
                gl, ga = torch.autograd.grad(y, (lim, a), allow_unused=True)
        except Exception as e:
            ctx.fail("oracle", "quadgrad:limit-dtype-differs:exception", {"limit": which}, repr(e)[:200], "gradients")
            continue
        want = (-1.0 if which == "lower" else 1.0) * 1.3 * 0.25
        if gl is None or abs(float(gl) - want) > 1e-6:
            ctx.fail("oracle", "quadgrad:limit-dtype-differs", {"limit": which, "limit_dtype": "float32", "parameter_dtype": "float64"},
                     {"d_dlimit": None if gl is None else float(gl)}, {"d_dlimit": want})


def search(ctx):
    oracle(ctx)

"""C08 — solve_ivp gradients w.r.t. y0, parameters and times are the true sensitivities.

Tie (model vs implementation, 2^-36): Model/IvpBwd.v at IEEE binary64.  The step solver is passed as a callable
  that records every nested solve of the backward pass (time pair, augmented state in, augmented state out) and
  evaluates the augmented dynamics it was given.  Compared for random polynomial right-hand sides f(t, y, p),
  increasing and decreasing grids, with and without gradients to the time points:
  - the augmented dynamics (f, -lam^T df/dy, -lam^T df/dt, -lam^T df/dp) at the start of every segment against the
    symbolic derivative of the expression language (proved to be the derivative);
  - the augmented state handed to every nested solve (stored forward value, incoming cotangent + propagated adjoint,
    accumulated time gradient, accumulated parameter gradient);
  - the returned gradients w.r.t. y0, every time point and the parameters.
Oracle (implementation only): ODE families with closed-form sensitivities (linear systems with forcing via the
  augmented matrix exponential, logistic growth, time-dependent decay) x forward methods x backward options x grid
  directions x function kinds x tuple states x which inputs require grad x first and second order (graph-recording
  backward), within the accuracy of the integrators; tensors that do not enter the dynamics get no gradient."""
from __future__ import annotations
import math, warnings
from fractions import Fraction
import torch
from vlib import cnat, clist, cbool, cfloat, coq_nat_cases
from props.c07 import gen_exp, exp_coq, exp_eval, exp_str, fvec

RULE = ("tie: random polynomial fields (ny 1..3, np 1..2, depth <= 2) x grids of 2..5 points, both directions x ts.requires_grad "
        "x step solver {rk4, rk45}; distinct = (field, grid, cotangent); non-trivial = the field depends on y, t and p. Oracle: "
        "families {linear+forcing, logistic, time-dependent decay} x methods {euler, rk4, rk38, rk23, rk45} x backward options x "
        "directions x function kinds x tuple states x requires-grad subsets x first/second order")
TRUSTED = ["harness tools/props/c08.py (recording step solver)", "the step solvers themselves (C07) integrate the augmented system",
           "autograd's vector-Jacobian products of the user function", "closed-form references (matrix exponential, logistic)"]
ASSUMPTIONS = ["the continuous adjoint-sensitivity theorem (Pontryagin) is cited; proved here: superposition of the segment loop "
               "over linear adjoint flows", "comparisons with closed forms hold to the accuracy of the forward and backward integrators "
               "(tolerances stated per method)"]
HEADER = ("From Coq Require Import List PrimFloat QArith.\nImport ListNotations.\n"
          "From XV Require Import Base.Ops Model.ExplicitRK Model.Quad Model.IvpBwd Model.IvpBwdRun.\n")
DT = torch.float64
TOL = "0x1p-36"
T0 = torch.tensor(0.0, dtype=DT)


def subst_t(e, idx):
    if e[0] == "T":
        return ("Y", idx)
    if e[0] in ("Add", "Sub", "Mul"):
        return (e[0], subst_t(e[1], idx), subst_t(e[2], idx))
    return e


def fmat(rows):
    return clist([fvec(r) for r in rows])


def tie(ctx):
    from xitorch.integrate import solve_ivp
    from xitorch._impls.integrate.ivp.explicit_rk import rk4_ivp
    from xitorch._impls.integrate.ivp.adaptive_rk import rk45_adaptive
    rng = ctx.rng
    cases, meta = [], []
    for rep in range(ctx.n(40, 300)):
        ny, np_ = rng.randrange(1, 4), rng.randrange(1, 3)
        dim = ny + 1 + np_
        fs = []
        for i in range(ny):
            e = subst_t(gen_exp(rng, dim, rng.randrange(1, 3)), ny)
            # every component sees y, t and p (scaled so that the solution stays O(1) on the short grids)
            e = ("Mul", ("C", Fraction(3, 8)), ("Add", e, ("Mul", ("Y", rng.randrange(ny)), ("Add", ("Y", ny), ("Y", ny + 1 + rng.randrange(np_))))))
            fs.append(e)
        nt = rng.randrange(2, 6)
        tvals = sorted(rng.sample(range(-8, 9), nt))
        tvals = [v / 16 for v in tvals]
        if rng.random() < 0.5:
            tvals = tvals[::-1]
        ts_grad = rng.random() < 0.5
        base, base_name = rng.choice([(rk4_ivp, "rk4"), (rk45_adaptive, "rk45")])
        rec = []

        def solver(pfcn, ts, y0, params, **config):
            out = base(pfcn, ts, y0, params, **config)
            rec.append({"ts": ts.detach().clone(), "y0": y0.detach().clone(), "out": out.detach().clone(),
                        "field": pfcn(ts[0], y0, *params).detach().clone()})
            return out
        ts = torch.tensor(tvals, dtype=DT, requires_grad=ts_grad)
        y0 = torch.tensor([rng.randrange(-8, 9) / 8 for _ in range(ny)], dtype=DT, requires_grad=True)
        p = torch.tensor([rng.randrange(-8, 9) / 8 for _ in range(np_)], dtype=DT, requires_grad=True)

        def fcn(t, y, p):
            vars_ = list(y) + [t] + list(p)
            return torch.stack([exp_eval(e, T0, vars_) for e in fs])
        info = {"field": [exp_str(e) for e in fs], "ny": ny, "np": np_, "ts": tvals, "ts_requires_grad": ts_grad, "step_solver": base_name}
        try:
            with warnings.catch_warnings():
                warnings.simplefilter("ignore")
                yt = solve_ivp(fcn, ts, y0, params=(p,), method=solver)
                if not torch.isfinite(yt).all() or yt.abs().max() > 50:
                    ctx.stat("tie_skipped_blow_up")
                    continue
                g = torch.Generator().manual_seed(rng.randrange(10 ** 9))
                gyt = torch.randn(yt.shape, dtype=DT, generator=g)
                grads = torch.autograd.grad(yt, (y0, p) + ((ts,) if ts_grad else ()), grad_outputs=gyt, allow_unused=True)
        except Exception as ex:
            ctx.fail("oracle", "ivpgrad:tie:exception", info, repr(ex)[:300], "first-order gradients")
            continue
        nested = rec[1:]
        if len(nested) != nt - 1 or any(len(r["ts"]) != 2 for r in nested):
            ctx.broken("correspondence:ivp-backward", {"case": info, "nested_solves": len(nested), "expected": nt - 1})
            continue
        flip = tvals[::-1]
        if any(abs(float(r["ts"][0]) - flip[i]) > 0 or abs(float(r["ts"][1]) - flip[i + 1]) > 0 for i, r in enumerate(nested)):
            ctx.broken("correspondence:ivp-backward", {"case": info, "segments": [r["ts"].tolist() for r in nested], "expected_flipped_pairs": flip})
            continue
        outs = []
        for r in nested:
            fin = r["out"][-1]
            outs.append("(mkSeg %s %s %s)" % (fvec(fin[ny:2 * ny].tolist()), cfloat(float(fin[2 * ny])), fvec(fin[2 * ny + 1:].tolist())))
        gp = grads[1] if grads[1] is not None else torch.zeros_like(p)
        gts = grads[2].tolist() if ts_grad else []
        cases.append("ivp_code %s %s %d %d %s %s %s %s %s %s %s %s %s %s %s" % (
            TOL, clist([exp_coq(e) for e in fs]), ny, np_, fvec(tvals), fmat(yt.detach().tolist()), fmat(gyt.tolist()),
            fvec(p.detach().tolist()), cbool(ts_grad), clist(outs), fmat([r["y0"].tolist() for r in nested]),
            fmat([r["field"].tolist() for r in nested]), fvec(grads[0].tolist()), fvec(gts), fvec(gp.tolist())))
        meta.append(info)
        ctx.count(("tie", rep, tuple(info["field"]), tuple(tvals), ts_grad, base_name), nontrivial=True)
        ctx.stat("tie_cases")
        if len(ctx.coverage["samples"]) < 3:
            ctx.sample(info)
    res, errors = coq_nat_cases("c08", HEADER, cases, chunk=20)
    for e_ in errors:
        ctx.broken("correspondence:ivp-backward", e_)
    nbad = 0
    for i, r in enumerate(res):
        if r == 1:
            ctx.coverage["traces_validated_against_impl"] += 1
        elif r is not None:
            nbad += 1
            if nbad <= 3:
                ctx.broken("correspondence:ivp-backward", {"case": meta[i], "code": r,
                           "bits": "1 inputs of the nested solves, 2 augmented dynamics, 4 grad y0, 8 grad ts, 16 grad p"})


def check(ctx):
    tie(ctx)
    oracle(ctx)
    options_probe(ctx)
    amplitude_probe(ctx)
    aliased_params_probe(ctx)
    rejected_steps_probe(ctx)
    adjoint_only_difficulty_probe(ctx)
    frozen_first_probe(ctx)
    failed_recorded_backward_then_reuse_probe(ctx)
    round6_probes(ctx)


# ---------------------------------------------------------------- oracle
def failed_recorded_backward_then_reuse_probe(ctx):
    """a module right-hand side over a sequence: a graph-recording backward (create_graph=True) during which the module raises at one
    evaluation (caught by the caller), then an ordinary call and gradient on the SAME module: the parameter still is the caller's
    registered Parameter and receives the true sensitivity -t y0 exp(-a t) (round-5 seed C08/13: the substitution context of the
    object's parameters lost its try/finally; the module kept a clone as a plain attribute and the gradient came back None)"""
    from xitorch.integrate import solve_ivp

    class Decay(torch.nn.Module):
        def __init__(self, a):
            super().__init__()
            self.a = torch.nn.Parameter(a)
            self.budget = None

        def forward(self, t, y):
            if self.budget is not None:
                self.budget -= 1
                if self.budget < 0:
                    raise RuntimeError("evaluation budget exhausted")
            return -self.a * y
    ts = torch.linspace(0.0, 1.0, 21, dtype=DT)
    for method, k in (("rk4", 3), ("rk4", 11), ("rk45", 2), ("euler", 5)):
        mod = Decay(torch.tensor([0.7, 1.3], dtype=DT))
        ap = mod.a
        y0 = torch.tensor([1.0, 2.0], dtype=DT, requires_grad=True)
        info = {"method": method, "module_raises_after_evaluations_of_the_recorded_backward": k}
        ctx.count(("failed-recorded-backward-then-reuse", method, k), nontrivial=True)
        try:
            with warnings.catch_warnings():
                warnings.simplefilter("ignore")
                yt = solve_ivp(mod.forward, ts, y0, method=method)
                mod.budget = k
                raised = False
                try:
                    torch.autograd.grad(yt[-1].sum(), ap, create_graph=True)
                except RuntimeError:
                    raised = True
                mod.budget = None
                names = [n for n, _ in mod.named_parameters()]
                held = mod.a is ap
                yt2 = solve_ivp(mod.forward, ts, y0, method=method, **({"rtol": 1e-10, "atol": 1e-12} if method == "rk45" else {}))
                g, = torch.autograd.grad(yt2[-1].sum(), ap, allow_unused=True)
        except Exception as e:
            ctx.fail("oracle", "ivpgrad:failed-recorded-backward-then-reuse:exception", info, repr(e)[:300], "a gradient")
            continue
        ref = -ts[-1] * y0.detach() * torch.exp(-ap.detach() * ts[-1])
        tol = 5e-2 if method == "euler" else 1e-5
        err = None if g is None else float((g - ref).abs().max())
        if not held or names != ["a"] or err is None or not err <= tol:
            ctx.fail("oracle", "ivpgrad:failed-recorded-backward-then-reuse", dict(info, backward_raised=raised),
                     {"module_holds_callers_parameter": held, "named_parameters": names, "gradient_error": err}, "the caller's Parameter, error <= %g" % tol)


def round6_probes(ctx):
    """(a) tied weights (one Parameter under two names, used through both) with a RECORDED backward: first-order gradients obtained with
    create_graph=True are the sensitivities, and so are the second-order ones (finding F36 fixed in 207265b; round-6 seed C08/15 undid
    it).  (b) a float32 integration earlier in the process does not change a later float64 one: same values and gradients, bitwise
    (C08/16: the converted Butcher tableau was cached on the solver CLASS and reached the float64 run rounded through float32)"""
    from xitorch.integrate import solve_ivp

    class Tied(torch.nn.Module):
        def __init__(self, a):
            super().__init__()
            self.a1 = a
            self.a2 = a

        def forward(self, t, y):
            return -self.a1 * y - 0.5 * self.a2 * y
    ts = torch.linspace(0.0, 1.0, 11, dtype=DT)
    a = torch.nn.Parameter(torch.tensor([0.7, 1.3], dtype=DT))
    m = Tied(a)
    y0 = torch.tensor([1.0, 2.0], dtype=DT, requires_grad=True)
    for meth in ("rk4", "rk45"):
        ctx.count(("tied-weights-recorded-backward", meth), nontrivial=True)
        try:
            with warnings.catch_warnings():
                warnings.simplefilter("ignore")
                yt = solve_ivp(m.forward, ts, y0, method=meth, **({"rtol": 1e-10, "atol": 1e-12} if meth == "rk45" else {}))
                g1, = torch.autograd.grad(yt[-1].sum(), a, create_graph=True)
                g2, = torch.autograd.grad(g1.sum(), a)
        except Exception as e:
            ctx.fail("oracle", "ivpgrad:tied-weights:exception", {"method": meth}, repr(e)[:300], "gradients")
            continue
        # y(1) = y0 exp(-1.5 a): dy/da = -1.5 y0 exp(-1.5 a), d2y/da2 = 2.25 y0 exp(-1.5 a)
        ex = y0.detach() * torch.exp(-1.5 * a.detach())
        e1, e2 = float((g1.detach() + 1.5 * ex).abs().max()), float((g2 - 2.25 * ex).abs().max())
        if not (e1 <= 1e-5 and e2 <= 1e-4):
            ctx.fail("oracle", "ivpgrad:tied-weights-recorded-backward", {"method": meth, "rhs": "-(a1 + 0.5 a2) y with a1 is a2"},
                     {"first_order_error": e1, "second_order_error": e2}, "<= 1e-5 / 1e-4")
    for meth in ("rk45", "rk23"):
        def run64():
            c = torch.tensor([0.8, 1.1], dtype=DT, requires_grad=True)
            z0 = torch.tensor([1.0, -1.0], dtype=DT, requires_grad=True)
            yt = solve_ivp(lambda t, y, c: -c * y + torch.sin(t), ts, z0, params=(c,), method=meth, rtol=1e-10, atol=1e-12)
            gc, gz = torch.autograd.grad(yt[-1].sum(), (c, z0))
            return yt.detach(), gc, gz
        ctx.count(("dtype-history", meth), nontrivial=True)
        try:
            with warnings.catch_warnings():
                warnings.simplefilter("ignore")
                before = run64()
                solve_ivp(lambda t, y: -y, ts.to(torch.float32), torch.ones(2, dtype=torch.float32), method=meth)
                after = run64()
        except Exception as e:
            ctx.fail("oracle", "ivpgrad:dtype-history:exception", {"method": meth}, repr(e)[:300], "values")
            continue
        if not all(torch.equal(u, w) for u, w in zip(before, after)):
            ctx.fail("oracle", "ivpgrad:float32-call-changes-later-float64-call", {"method": meth},
                     {"max_difference": max(float((u - w).abs().max()) for u, w in zip(before, after))}, "bitwise equal")


def families():
    g = torch.Generator().manual_seed(3)
    A0 = -0.5 * torch.eye(2, dtype=DT) + 0.3 * torch.randn(2, 2, dtype=DT, generator=g)

    def lin_f(t, y, a, b):
        return (a * A0) @ y + b * t

    def lin_exact(ts, y0, a, b):
        outs = []
        for t in ts:
            M = torch.zeros(4, 4, dtype=DT)
            M[:2, :2] = a * A0
            M[:2, 2] = b
            M[2, 3] = 1.0
            z0 = torch.cat([y0, ts[0].reshape(1), torch.ones(1, dtype=DT)])
            outs.append((torch.matrix_exp(M * (t - ts[0])) @ z0)[:2])
        return torch.stack(outs)

    def logi_f(t, y, r, K):
        return r * y * (1 - y / K)

    def logi_exact(ts, y0, r, K):
        return torch.stack([K / (1 + (K / y0 - 1) * torch.exp(-r * (t - ts[0]))) for t in ts])

    def dec_f(t, y, a, c):
        return -a * t * y + 0 * c.sum()

    def dec_exact(ts, y0, a, c):
        return torch.stack([y0 * torch.exp(-a * (t * t - ts[0] * ts[0]) / 2) + 0 * c.sum() for t in ts])
    def stiff_f(t, y, lam, b):
        return -lam * y + b

    def stiff_exact(ts, y0, lam, b):
        return torch.stack([(y0 - b / lam) * torch.exp(-lam * (t - ts[0])) + b / lam for t in ts])
    return {
        # fast decay over a long interval: integrating y backwards from the end would amplify errors by e^{lam T}; the adjoint pass
        # must restart from the STORED forward values at every requested time (seeded defect C08/6)
        "fast decay": (stiff_f, stiff_exact, lambda: (torch.tensor([1.0, -0.5], dtype=DT), torch.tensor(45.0, dtype=DT), torch.tensor([0.3, 0.8], dtype=DT)), None),
        "linear+forcing": (lin_f, lin_exact, lambda: (torch.tensor([1.0, -0.5], dtype=DT), torch.tensor(0.8, dtype=DT), torch.tensor([0.3, 0.1], dtype=DT)), None),
        "logistic": (logi_f, logi_exact, lambda: (torch.tensor([0.2, 0.6], dtype=DT), torch.tensor([0.9, 1.4], dtype=DT), torch.tensor(1.5, dtype=DT)), None),
        # c does not enter the dynamics: it must get no gradient
        "time-dependent decay": (dec_f, dec_exact, lambda: (torch.tensor([1.0, 2.0], dtype=DT), torch.tensor(0.7, dtype=DT), torch.tensor([0.4], dtype=DT)), 2),
    }


def oracle(ctx):
    import xitorch as xt
    from xitorch.integrate import solve_ivp
    rng = ctx.rng
    fams = families()
    for rep in range(ctx.n(36, 240)):
        name = rng.choice(list(fams))
        f, exact, init, unused_idx = fams[name]
        method = rng.choice(["rk4", "rk38", "rk23", "rk45", "rk45", "euler"])
        direction = rng.choice([1, -1])
        kind = rng.choice(["pure", "pure", "EditableModule", "nn.Module", "tuple-state", "tuple-state+EditableModule"])
        second = rng.random() < 0.5
        bck = rng.choice([None, None, "rk4", "rk45"])
        req = [True, True, True, rng.random() < 0.6]          # y0, p1, p2, ts
        if rng.random() < 0.3:
            req[rng.randrange(3)] = False
        if method == "euler":
            npts, tol1, tol2 = 400, 6e-2, 2e-1
        elif method in ("rk4", "rk38"):
            npts, tol1, tol2 = 25, 2e-5, 4e-4
        else:
            npts, tol1, tol2 = 4, 2e-6, 4e-5
        if bck == "rk4" and method in ("rk23", "rk45"):
            npts, tol1, tol2 = 25, 2e-5, 4e-4
        if name == "fast decay":
            # stiff for the fixed-step schemes and unstable backwards in time: adaptive methods, increasing grid, many
            # requested times (each segment restarts from the stored forward value)
            method = rng.choice(["rk45", "rk23"])
            bck = rng.choice([None, "rk45"])
            direction = 1
            npts, tol1, tol2 = 25, 1e-4, 2e-3
        lo, hi = 0.2, 1.1
        grid = torch.linspace(lo, hi, npts, dtype=DT)
        if npts == 4:
            grid = torch.tensor([0.2, 0.5, 0.6, 1.1], dtype=DT)
        if direction < 0:
            grid = grid.flip(0).clone()
        y0v, p1v, p2v = init()
        gW = torch.Generator().manual_seed(rng.randrange(10 ** 9))
        sel = sorted(rng.sample(range(npts), min(npts, 3)))      # cotangent touches a few output times
        W = torch.zeros(npts, *y0v.shape, dtype=DT)
        W[sel] = torch.randn(len(sel), *y0v.shape, dtype=DT, generator=gW)
        opts = dict(atol=1e-11, rtol=1e-10) if method in ("rk23", "rk45") else {}
        kw = dict(method=method, **opts)
        if bck is not None:
            kw["bck_options"] = dict(method=bck, **(dict(atol=1e-11, rtol=1e-10) if bck == "rk45" else {}))
        info = {"family": name, "method": method, "bck_method": bck, "direction": direction, "function_kind": kind, "second_order": second,
                "requires_grad": {"y0": req[0], "p1": req[1], "p2": req[2], "ts": req[3]}, "npoints": npts}
        ctx.count(("ivpgrad", rep, name, method, bck, direction, kind, second, tuple(req)), nontrivial=True)

        def leaves():
            return (y0v.clone().requires_grad_(req[0]), p1v.clone().requires_grad_(req[1]), p2v.clone().requires_grad_(req[2]),
                    grid.clone().requires_grad_(req[3]))

        def run_impl(y0, p1, p2, ts):
            if kind == "pure":
                return solve_ivp(f, ts, y0, params=(p1, p2), **kw)
            if kind == "EditableModule":
                class EM(xt.EditableModule):
                    def __init__(self):
                        self.p1, self.p2 = p1, p2

                    def rhs(self, t, y):
                        return f(t, y, self.p1, self.p2)

                    def getparamnames(self, methodname, prefix=""):
                        return [prefix + "p1", prefix + "p2"]
                return solve_ivp(EM().rhs, ts, y0, **kw)
            if kind == "nn.Module":
                class NN(torch.nn.Module):
                    def __init__(self):
                        super().__init__()
                        self.p2 = p2 if not p2.requires_grad else torch.nn.Parameter(p2.detach().clone())

                    def forward(self, t, y, p1_):
                        return f(t, y, p1_, self.p2)
                net = NN()
                out = solve_ivp(net.forward, ts, y0, params=(p1,), **kw)
                run_impl.extra = net.p2
                return out
            if kind == "tuple-state+EditableModule":
                # tuple state AND tensors held by the function's object (seeded defect C08/3)
                class EMT(xt.EditableModule):
                    def __init__(self):
                        self.p1, self.p2 = p1, p2

                    def rhs(self, t, ys):
                        return (f(t, ys[0], self.p1, self.p2), 2 * f(t, ys[0], self.p1, self.p2))

                    def getparamnames(self, methodname, prefix=""):
                        return [prefix + "p1", prefix + "p2"]
                res = solve_ivp(EMT().rhs, ts, (y0, 2 * y0), **kw)
                return 0.5 * (res[0] + res[1] / 2)
            # tuple state: (y, 2y) evolves with (f(y), 2 f(y))
            res = solve_ivp(lambda t, ys, a, b: (f(t, ys[0], a, b), 2 * f(t, ys[0], a, b)), ts, (y0, 2 * y0), params=(p1, p2), **kw)
            if not isinstance(res, (tuple, list)) or len(res) != 2:
                raise RuntimeError("tuple state did not come back as a tuple")
            return 0.5 * (res[0] + res[1] / 2)
        run_impl.extra = None

        def g12(yfn, lv):
            yt = yfn(*lv)
            ins = [l for l in lv if l.requires_grad]
            if kind == "nn.Module" and run_impl.extra is not None and yfn is run_impl and lv[2].requires_grad:
                ins = [l if l is not lv[2] else run_impl.extra for l in ins]
            loss = (yt * W).sum()
            g1 = torch.autograd.grad(loss, ins, create_graph=second, allow_unused=True)
            g1z = [torch.zeros_like(l) if g is None else g for g, l in zip(g1, ins)]
            out = [yt.detach()] + [g.detach() for g in g1z]
            if second:
                s = sum((g * torch.cos(torch.arange(g.numel(), dtype=DT)).reshape(g.shape)).sum() for g in g1z)
                if s.requires_grad:
                    g2 = torch.autograd.grad(s, ins, allow_unused=True)
                    out += [torch.zeros_like(l) if g is None else g.detach() for g, l in zip(g2, ins)]
                else:
                    out += [torch.zeros_like(l) for l in ins]
            return out, g1
        try:
            with warnings.catch_warnings():
                warnings.simplefilter("ignore")
                got, raw = g12(run_impl, leaves())
        except Exception as ex:
            ctx.fail("oracle", "ivpgrad:%s:exception" % method, info, repr(ex)[:300], "first and second order gradients")
            continue
        want, _ = g12(lambda y0, p1, p2, ts: exact(ts, y0, p1, p2), leaves())
        nin = (len(got) - 1) // (2 if second else 1)
        names = [n_ for n_, r_ in zip(("y0", "p1", "p2", "ts"), req) if r_]
        for j, (x_, y_) in enumerate(zip(got, want)):
            tol = 10 * tol1 if j == 0 else (tol1 if j <= nin else tol2)
            what = "value" if j == 0 else ("d/d%s" % names[(j - 1) % nin] if j <= nin else "d2/d%s" % names[(j - 1) % nin])
            sc = 1 + float(y_.abs().max())
            if x_.shape != y_.shape or not torch.isfinite(x_).all() or float((x_ - y_).abs().max()) > tol * sc:
                ctx.fail("oracle", "ivpgrad:%s:%s:%s" % (method, "second-order" if j > nin else ("first-order" if j else "value"), what.split("/d")[-1]),
                         info, {"what": what, "max_abs_diff": float((x_ - y_).abs().max()) if x_.shape == y_.shape else "shape", "scale": sc},
                         "within %g of the closed-form sensitivity" % tol)
                break
        # tensors that do not enter the dynamics
        if unused_idx is not None and req[unused_idx] and kind in ("pure", "tuple-state"):
            pos = [i for i, r_ in enumerate(req) if r_].index(unused_idx)
            gu = raw[pos]
            if gu is not None and float(gu.detach().abs().max()) != 0.0:
                ctx.fail("oracle", "ivpgrad:unused-parameter-nonzero", info, gu.tolist(), "None or zero")


def amplitude_probe(ctx):
    """sensitivities of states of very different magnitude with (atol, rtol) given by the caller: the accuracy of the gradients
    follows atol + rtol |y| in the forward AND in the backward integration (round-3 seeds C08/8, C08/9: tolerances dropped for
    rk23 / swapped in the step acceptance - invisible when |y| ~ 1 and the tolerances are close to the defaults)"""
    from xitorch.integrate import solve_ivp
    ts = torch.tensor([0.0, 0.7, 1.5, 3.0], dtype=DT)
    for meth in ("rk45", "rk23"):
        # (atol = 0 exactly: a purely relative control is a legal option value; round-4 seed C08/12 replaced it by the default)
        for amp, atol, rtol in ((1e-6, 1e-16, 1e-9), (1e3, 1e-7, 1e-9), (1.0, 1e-10, 1e-9), (1e-6, 0.0, 1e-9)):
            a = torch.tensor([0.8, 1.7], dtype=DT, requires_grad=True)
            y0 = (amp * torch.tensor([1.0, -0.6], dtype=DT)).requires_grad_()
            w = torch.tensor([[0.0, 0.0], [1.0, -2.0], [0.5, 0.3], [2.0, 1.0]], dtype=DT)
            with warnings.catch_warnings():
                warnings.simplefilter("ignore")
                yt = solve_ivp(lambda t, y, a: -a * y * (1 + 0.5 * torch.sin(t)), ts, y0, params=(a,), method=meth, atol=atol, rtol=rtol,
                               bck_options=dict(method=meth, atol=atol, rtol=rtol))
            ga, gy = torch.autograd.grad((yt * w).sum(), (a, y0))
            ar, yr = a.detach().clone().requires_grad_(), y0.detach().clone().requires_grad_()
            ex = yr * torch.exp(-ar * (ts + 0.5 * (1 - torch.cos(ts))).unsqueeze(-1))
            ra, ry = torch.autograd.grad((ex * w).sum(), (ar, yr))
            ctx.count(("ivpgrad-amplitude", meth, amp), nontrivial=True)
            for nm, x_, y_ in (("value", yt.detach(), ex.detach()), ("a", ga, ra), ("y0", gy, ry)):
                err = float((x_ - y_).abs().max() / y_.abs().max())
                if not err <= 2e-5:
                    ctx.fail("oracle", "ivpgrad:%s:accuracy-vs-amplitude:%s" % (meth, nm), {"amplitude": amp, "atol": atol, "rtol": rtol, "what": nm},
                             err, "relative error <= 2e-5 with the caller's tolerances")
                    break


def rejected_steps_probe(ctx):
    """requested times that force the adaptive integrators - forward AND backward - to reject trial steps after accepted ones (a very
    short first interval followed by long ones): sensitivities stay within the requested accuracy (round-4 seed C08/10: the
    derivative kept for the retry was a view of the stage buffer)"""
    from xitorch.integrate import solve_ivp
    ts = torch.tensor([0.0, 0.01, 1.0, 4.0, 10.0], dtype=DT)
    W = torch.tensor([[0.0, 0.0], [1.0, -1.0], [0.5, 2.0], [-1.0, 0.3], [2.0, 1.0]], dtype=DT)
    for meth in ("rk45", "rk23"):
        for atol, rtol in ((1e-9, 1e-7),):
            w = torch.tensor(3.0, dtype=DT, requires_grad=True)
            c = torch.tensor(0.4, dtype=DT, requires_grad=True)
            y0 = torch.tensor([1.0, 0.0], dtype=DT).requires_grad_()
            # x'' = -w^2 x with a chirped forcing that only the parameter c sees: x_p = c sin(t^2 / 4)-type terms are avoided; plain
            # oscillator plus a slow drift c t
            f = lambda t, y, w_, c_: torch.stack([y[1] + c_, -w_ * w_ * y[0]])
            with warnings.catch_warnings():
                warnings.simplefilter("ignore")
                yt = solve_ivp(f, ts, y0, params=(w, c), method=meth, atol=atol, rtol=rtol, bck_options=dict(method=meth, atol=atol, rtol=rtol))
            got = torch.autograd.grad((yt * W).sum(), (w, c, y0))
            wr, cr, y0r = w.detach().clone().requires_grad_(), c.detach().clone().requires_grad_(), y0.detach().clone().requires_grad_()
            # closed form: x = A cos(w t) + B sin(w t), v + c = x', with x(0) = y0[0], v(0) = y0[1]
            xt_ = y0r[0] * torch.cos(wr * ts) + (y0r[1] + cr) / wr * torch.sin(wr * ts)
            vt_ = -y0r[0] * wr * torch.sin(wr * ts) + (y0r[1] + cr) * torch.cos(wr * ts) - cr
            ex = torch.stack([xt_, vt_], dim=-1)
            ref = torch.autograd.grad((ex * W).sum(), (wr, cr, y0r))
            ctx.count(("ivpgrad-rejected-steps", meth), nontrivial=True)
            for nm, x_, y_ in zip(("w", "c", "y0"), got, ref):
                err = float((x_ - y_).abs().max() / (1 + y_.abs().max()))
                if not err <= 3e3 * rtol:
                    ctx.fail("oracle", "ivpgrad:%s:accuracy-after-rejected-steps:%s" % (meth, nm), {"ts": ts.tolist(), "atol": atol, "rtol": rtol}, err,
                             "relative error <= %g" % (3e3 * rtol))
                    break


def adjoint_only_difficulty_probe(ctx):
    """a right-hand side whose parameter derivative is much rougher than the solution itself (a chirp that vanishes at the chosen
    parameter value): only the ADJOINT integration has to reject steps; the gradient still has the accuracy asked of the backward
    integrator (round-4 seed C08/10)"""
    from xitorch.integrate import solve_ivp
    import numpy as np
    Wc, T = 6.0, 4.0
    f = lambda t, y, a, p: -a * y + (p - 1.0) * torch.sin(Wc * t * t)
    sgrid = np.linspace(0.0, T, 400001)
    gvals = np.exp(-0.4 * (T - sgrid)) * np.sin(Wc * sgrid * sgrid)
    hh = sgrid[1] - sgrid[0]
    ref_p = hh / 3.0 * (gvals[0] + gvals[-1] + 4.0 * gvals[1:-1:2].sum() + 2.0 * gvals[2:-1:2].sum())
    for meth, rtol in (("rk45", 1e-9), ("rk23", 1e-8)):
        a = torch.tensor(0.4, dtype=DT, requires_grad=True)
        p_ = torch.tensor(1.0, dtype=DT, requires_grad=True)
        y0 = torch.tensor([1.5], dtype=DT, requires_grad=True)
        with warnings.catch_warnings():
            warnings.simplefilter("ignore")
            yt = solve_ivp(f, torch.tensor([0.0, T], dtype=DT), y0, params=(a, p_), method="rk45", rtol=1e-11, atol=1e-13,
                           bck_options={"method": meth, "rtol": rtol, "atol": rtol * 1e-2})
            gy0, ga, gp = torch.autograd.grad(yt[-1].sum(), (y0, a, p_))
        ctx.count(("ivpgrad-adjoint-only-difficulty", meth), nontrivial=True)
        errs = {"p": abs(float(gp) - ref_p), "a": abs(float(ga) + T * 1.5 * math.exp(-0.4 * T)), "y0": abs(float(gy0) - math.exp(-0.4 * T))}
        worst = max(errs.values()) / rtol
        if not worst <= 60.0:
            ctx.fail("oracle", "ivpgrad:%s:adjoint-only-difficulty" % meth, {"rhs": "-a y + (p - 1) sin(6 t^2) at p = 1", "bck_rtol": rtol},
                     {"errors": errs, "worst_error_over_rtol": worst}, "gradient errors within 60 x the tolerance of the backward integrator")


def frozen_first_probe(ctx):
    """the function's object lists a tensor WITHOUT grad before the differentiable ones and the backward pass is recorded
    (create_graph=True): the object-held tensors still get their first- and second-order gradients (round-4 seed C08/11 - only
    the first pair of the identity test compared, so the recording path skipped its substitution)"""
    import xitorch as xt
    from xitorch.integrate import solve_ivp
    ts = torch.linspace(0.0, 1.0, 6, dtype=DT)
    for kind in ("EditableModule", "nn.Module"):
        a0, b0 = torch.tensor([0.8, 1.3], dtype=DT), torch.tensor([0.3, -0.2], dtype=DT)
        if kind == "EditableModule":
            a, b = a0.clone().requires_grad_(), b0.clone().requires_grad_()

            class EMF(xt.EditableModule):
                def __init__(self):
                    self.c, self.a, self.b = torch.ones(2, dtype=DT), a, b

                def rhs(self, t, y):
                    return -self.a * self.c * y + self.b * t

                def getparamnames(self, methodname, prefix=""):
                    return [prefix + "c", prefix + "a", prefix + "b"]
            fobj, leaves = EMF().rhs, (a, b)
        else:
            class NNF(torch.nn.Module):
                def __init__(self):
                    super().__init__()
                    self.c = torch.nn.Parameter(torch.ones(2, dtype=DT), requires_grad=False)
                    self.a = torch.nn.Parameter(a0.clone())
                    self.b = torch.nn.Parameter(b0.clone())

                def forward(self, t, y):
                    return -self.a * self.c * y + self.b * t
            net = NNF()
            fobj, leaves = net.forward, (net.a, net.b)
        y0 = torch.tensor([1.0, 2.0], dtype=DT)
        with warnings.catch_warnings():
            warnings.simplefilter("ignore")
            yt = solve_ivp(fobj, ts, y0, method="rk4")
            g1 = torch.autograd.grad(yt[-1].sum(), leaves, create_graph=True, allow_unused=True)
            g1z = [torch.zeros(2, dtype=DT) if g is None else g for g in g1]
            s_ = sum((g * torch.tensor([1.0, -0.5], dtype=DT)).sum() for g in g1z)
            g2 = torch.autograd.grad(s_, leaves, allow_unused=True) if s_.requires_grad else (None, None)
        # reference: the same rk4 unrolled by autograd on a pure function
        ar, br = a0.clone().requires_grad_(), b0.clone().requires_grad_()
        yr = solve_ivp(lambda t, y, a_, b_: -a_ * y + b_ * t, ts, y0, params=(ar, br), method="rk4")
        r1 = torch.autograd.grad(yr[-1].sum(), (ar, br), create_graph=True)
        r2 = torch.autograd.grad(sum((g * torch.tensor([1.0, -0.5], dtype=DT)).sum() for g in r1), (ar, br))
        ctx.count(("ivpgrad-frozen-first", kind), nontrivial=True)
        for nm, x_, y_ in list(zip(("d/da", "d/db"), g1, r1)) + list(zip(("d2/da", "d2/db"), g2, r2)):
            if x_ is None or not torch.allclose(x_, y_, rtol=1e-7, atol=1e-9):
                ctx.fail("oracle", "ivpgrad:frozen-tensor-listed-first:%s:%s" % (kind, nm), {"function_kind": kind, "object_tensors": ["c (no grad)", "a", "b"], "create_graph": True},
                         None if x_ is None else x_.tolist(), y_.tolist())
                break


def aliased_params_probe(ctx):
    """one tensor passed in two parameter slots: the gradient w.r.t. it is the sum of the two partial derivatives, with and without
    a recorded backward (finding F37: the non-recording backward differentiates by tensor identity and returns twice the gradient)"""
    from xitorch.integrate import solve_ivp
    ts = torch.linspace(0, 1, 5, dtype=DT)
    for cg in (False, True):
        a = torch.tensor(0.7, dtype=DT, requires_grad=True)
        with warnings.catch_warnings():
            warnings.simplefilter("ignore")
            yt = solve_ivp(lambda t, y, p, q: -p * y + q, ts, torch.tensor([2.0], dtype=DT), params=(a, a), method="rk45", atol=1e-12, rtol=1e-10)
        g, = torch.autograd.grad(yt[-1].sum(), a, create_graph=cg)
        ctx.count(("ivpgrad-aliased-params", cg), nontrivial=True)
        want = -float(torch.exp(-a.detach()))                       # y = 1 + exp(-a t)
        if not abs(float(g) - want) <= 1e-7:
            ctx.fail("oracle", "ivpgrad:aliased-explicit-params" + (":recorded-backward" if cg else ""),
                     {"call": "solve_ivp(lambda t, y, p, q: -p*y + q, ts, [2.], params=(a, a))", "create_graph": cg}, float(g), want)


def options_probe(ctx):
    """'backward options different from the forward ones': the step solver and the tolerances given in bck_options are the
    ones the adjoint integration uses; the forward ones are used for the forward pass only (seeded defects C08/2, C18/1)"""
    from xitorch.integrate import solve_ivp
    from xitorch._impls.integrate.ivp.explicit_rk import rk4_ivp
    calls = {"fwd": [], "bck": []}

    def mk(tag):
        def solver(pfcn, ts, y0, params, **config):
            calls[tag].append(dict(config))
            return rk4_ivp(pfcn, ts, y0, params)
        return solver
    a = torch.tensor(0.7, dtype=DT, requires_grad=True)
    ts = torch.linspace(0, 1, 5, dtype=DT)
    yt = solve_ivp(lambda t, y, a: -a * y, ts, torch.ones(2, dtype=DT), params=(a,), method=mk("fwd"), myopt=1,
                   bck_options={"method": mk("bck"), "myopt": 2})
    nf = len(calls["fwd"])
    torch.autograd.grad(yt.sum(), a)
    ctx.count(("bck-options",), nontrivial=True)
    obs = {"forward_solver_calls": len(calls["fwd"]), "backward_solver_calls": len(calls["bck"]),
           "options_seen_by_forward": calls["fwd"][:1], "options_seen_by_backward": calls["bck"][:1]}
    if nf != 1 or len(calls["fwd"]) != 1 or len(calls["bck"]) != len(ts) - 1 or calls["fwd"][0].get("myopt") != 1 \
            or any(c.get("myopt") != 2 for c in calls["bck"]):
        ctx.fail("oracle", "ivpgrad:backward-options-ignored", {"bck_options": "{'method': <callable>, 'myopt': 2}", "fwd_options": "{'myopt': 1}"},
                 obs, "forward solver once with myopt=1; backward solver once per segment with myopt=2")


def search(ctx):
    ctx.tier = "thorough"
    oracle(ctx)

"""C15 — SQuad integrates the interpolant of the samples exactly.

Tie (model vs implementation): Model/SQuadW.v at IEEE binary64 against the public SQuad: the cumulative
  weight matrices of trapz, simpson (bit for bit, obtained by cumsum of the unit vectors) and of cspline
  (grad weights bit for bit via the object's attribute; cumsum to 2^-26 relative since the spline solve is
  modelled by Gauss-Jordan).
Oracle (implementation): first entry zero, last entry = integrate, linearity, exactness on piecewise-linear /
  parabolic / cubic-spline data, independence of other dimensions for any dim / keepdim, 1-D and batched
  shapes, rejection of wrong lengths, dtypes."""
from __future__ import annotations
import warnings, itertools
import torch
from vlib import cnat, clist, cfloat, coq_bool_cases
from props.c07 import fvec
from props.c14 import gen_grid, BCS

RULE = ("non-uniform grids of 2..14 points (odd and even counts) x methods {trapz, simpson, cspline x 4 boundary "
        "conditions}; y shapes (1-D, 2-D, 3-D, 4-D) x dim (positive / negative) x keepdim; distinct = (method, grid) or "
        "(shape, dim, keepdim); non-trivial = grid with >= 4 points")
TRUSTED = ["harness tools/props/c15.py", "torch.linalg.solve modelled by Gauss-Jordan (cspline only); torch.sum / matmul "
           "reduction order compared with tolerance"]
ASSUMPTIONS = []
HEADER = ("From XV Require Import Base.Ops Model.Interp Model.SQuadW Model.InterpRun.\n"
          "From Coq Require Import List PrimFloat.\nImport ListNotations.\n")
DT = torch.float64


def check(ctx):
    from xitorch.integrate import SQuad
    rng = ctx.rng
    cases, meta = [], []
    for _ in range(ctx.n(90, 700)):
        method = rng.choice(["trapz", "simpson", "cspline"])
        bc = rng.choice(list(BCS)) if method == "cspline" else None
        xs = gen_grid(rng, 4 if bc == "not-a-knot" else (3 if method == "cspline" else 2))
        if method != "cspline" and rng.random() < 0.3:
            xs = xs[:rng.randrange(2, min(len(xs), 5) + 1)]
        n = len(xs)
        x = torch.tensor(xs, dtype=DT)
        kw = {} if bc is None else {"bc_type": bc}
        try:
            sq = SQuad(x, method=method, **kw)
        except Exception as e:
            ctx.fail("oracle", "squad:construct:%s" % method, {"x": xs}, repr(e)[:200], "no exception")
            continue
        info = {"method": method, "bc": bc, "x": xs}
        if method in ("trapz", "simpson"):
            W = torch.stack([sq.cumsum(e) for e in torch.eye(n, dtype=DT)], dim=-1)     # W[r, c]
            cases.append("%s_ok %s %s" % (method, fvec(xs), clist([fvec(r) for r in W.tolist()])))
            meta.append(info)
        else:
            cases.append("csplinew_ok %s %s" % (fvec(xs), clist([fvec(r) for r in sq.obj.wk.tolist()])))
            meta.append(dict(info, what="grad weights"))
            ys = [rng.randrange(-32, 33) / 8 for _ in xs]
            if bc == "periodic":
                ys[-1] = ys[0]
            out = sq.cumsum(torch.tensor(ys, dtype=DT))
            cases.append("cspline_cumsum_ok %s %s %s %s 0x1p-26 0x1p-30" % (BCS[bc], fvec(xs), fvec(ys), fvec(out.tolist())))
            meta.append(dict(info, what="cumsum", y=ys))
        ctx.count((method, bc, tuple(xs)), nontrivial=n >= 4)
        ctx.stat("%s:%s:%s" % (method, bc, "odd" if n % 2 else "even"))
        ctx.sample(info, limit=4)
    failed, errors = coq_bool_cases("c15", HEADER, cases, chunk=60)
    ctx.coverage["traces_validated_against_impl"] += len(cases) - len(failed)
    for e in errors:
        ctx.broken("correspondence:squad-weights", e)
    for i in failed[:3]:
        ctx.broken("correspondence:squad-weights", {"case": meta[i], "coq": cases[i][:1500]})
    oracle(ctx)


def oracle(ctx):
    from xitorch.integrate import SQuad
    from xitorch.interpolate import Interp1D
    rng = ctx.rng
    for _ in range(ctx.n(20, 150)):
        xs = gen_grid(rng, 4)
        n = len(xs)
        x = torch.tensor(xs, dtype=DT)
        for method, bc in [("trapz", None), ("simpson", None)] + [("cspline", b) for b in BCS]:
            kw = {} if bc is None else {"bc_type": bc}
            info = {"method": method, "bc": bc, "x": xs}
            ctx.count(("oracle", method, bc, tuple(xs)))
            sq = SQuad(x, method=method, **kw)
            y = torch.tensor([rng.randrange(-32, 33) / 8 for _ in xs], dtype=DT)
            if bc == "periodic":
                y[-1] = y[0]
            cs = sq.cumsum(y)
            tot = sq.integrate(y)
            scale = float(y.abs().max()) * (xs[-1] - xs[0]) + 1e-30
            if cs.shape != (n,) or tot.shape != ():
                ctx.fail("oracle", "squad:shape-1d:%s" % method, info, [list(cs.shape), list(tot.shape)], [[n], []])
                continue
            if not float(cs[0].abs()) <= 1e-13 * scale:
                ctx.fail("oracle", "squad:first-entry:%s:%s" % (method, bc), info, float(cs[0]), 0.0)
            if not abs(float(cs[-1] - tot)) <= 1e-12 * scale:
                ctx.fail("oracle", "squad:last-entry:%s:%s" % (method, bc), info, [float(cs[-1]), float(tot)], "equal")
            z = torch.tensor([rng.randrange(-32, 33) / 8 for _ in xs], dtype=DT)
            if bc == "periodic":
                z[-1] = z[0]
            if not torch.allclose(sq.cumsum(2.0 * y - 3.0 * z), 2.0 * cs - 3.0 * sq.cumsum(z), rtol=1e-11, atol=1e-12 * scale):
                ctx.fail("oracle", "squad:linearity:%s:%s" % (method, bc), info, "cumsum(2y-3z)", "2cumsum(y)-3cumsum(z)")
            # exactness on the method's own interpolant
            if method == "trapz":
                want = torch.cumsum(torch.cat([torch.zeros(1, dtype=DT), (y[1:] + y[:-1]) * (x[1:] - x[:-1]) / 2]), 0)
                if not torch.allclose(cs, want, rtol=1e-12, atol=1e-13 * scale):
                    ctx.fail("oracle", "squad:trapz-exact", info, cs, want)
            if method == "simpson":
                a, b_, c_ = (rng.randrange(-8, 9) / 4 for _ in range(3))
                yq = a + b_ * x + c_ * x * x
                prim = lambda t: a * t + b_ * t * t / 2 + c_ * t ** 3 / 3
                want = prim(x) - prim(x[0])
                got = sq.cumsum(yq)
                # entry 1 is the trapezoid of the first interval (documented in DESIGN); exact from entry 2 on
                if not torch.allclose(got[2:], want[2:], rtol=1e-10, atol=1e-11 * (float(want.abs().max()) + 1)):
                    ctx.fail("oracle", "squad:simpson-parabola-exact", info, got, want)
            if method == "cspline":
                # integral of the spline itself, by fine Gauss quadrature of Interp1D on every interval
                with warnings.catch_warnings():
                    warnings.simplefilter("ignore")
                    itp = Interp1D(x, y, method="cspline", bc_type=bc)
                import numpy as np
                gx, gw = np.polynomial.legendre.leggauss(4)
                acc = [0.0]
                for i in range(n - 1):
                    h = xs[i + 1] - xs[i]
                    pts = torch.tensor([xs[i] + h * (g + 1) / 2 for g in gx], dtype=DT)
                    acc.append(acc[-1] + float((itp(pts) * torch.tensor(gw, dtype=DT)).sum()) * h / 2)
                want = torch.tensor(acc, dtype=DT)
                if not torch.allclose(cs, want, rtol=1e-8, atol=1e-9 * scale):
                    ctx.fail("oracle", "squad:cspline-exact:%s" % bc, info, cs, want)
                # ... and against an independent implementation of the declared spline (scipy), whose antiderivative is exact
                from scipy.interpolate import CubicSpline
                anti = CubicSpline(np.array(xs), y.numpy(), bc_type=bc).antiderivative()
                want2 = torch.tensor(anti(np.array(xs)) - anti(xs[0]), dtype=DT)
                if not torch.allclose(cs, want2, rtol=1e-8, atol=1e-9 * scale):
                    ctx.fail("oracle", "squad:cspline-vs-independent-spline:%s" % bc, info, cs, want2)
    # dimension handling: any position of dim, keepdim, negative dims, batch shapes
    x = torch.tensor([0.0, 0.3, 0.7, 1.6, 2.0], dtype=DT)
    nx = 5
    # (shapes with other axes of size 1: only the integration axis may disappear; round-3 seed C15/7: squeeze() of everything)
    shapes = [(nx,), (2, nx), (nx, 3), (2, nx, 3), (2, 3, nx), (nx, 2, 3), (2, nx, 3, 4), (nx, 2, 3, 4), (2, 3, 4, nx),
              (1, nx), (nx, 1), (3, 1, nx), (1, nx, 1), (1, 1, nx, 2)]
    for method in ("trapz", "simpson", "cspline"):
        sq = SQuad(x, method=method)
        for shp in shapes:
            d = shp.index(nx)
            g = torch.Generator().manual_seed(len(shp) * 10 + d)
            y = torch.randn(shp, dtype=DT, generator=g)
            for dim in {d, d - len(shp)}:
                ymoved = y.movedim(d, -1).reshape(-1, nx)
                ref_cs = torch.stack([sq.cumsum(r) for r in ymoved]).reshape(y.movedim(d, -1).shape).movedim(-1, d)
                ref_int = torch.stack([sq.integrate(r) for r in ymoved]).reshape(y.movedim(d, -1).shape[:-1])
                info = {"method": method, "shape": list(shp), "dim": dim}
                ctx.count(("dims", method, shp, dim))
                try:
                    cs = sq.cumsum(y, dim=dim)
                    i0 = sq.integrate(y, dim=dim)
                    i1 = sq.integrate(y, dim=dim, keepdim=True)
                except Exception as e:
                    ctx.fail("oracle", "squad:dim-exception:%s" % method, info, repr(e)[:200], "any dim / keepdim")
                    continue
                if cs.shape != y.shape or not torch.allclose(cs, ref_cs, rtol=1e-12, atol=1e-13):
                    ctx.fail("oracle", "squad:cumsum-dim:%s" % method, info, list(cs.shape), list(y.shape))
                if i0.shape != ref_int.shape or not torch.allclose(i0, ref_int, rtol=1e-12, atol=1e-13):
                    ctx.fail("oracle", "squad:integrate-dim:%s" % method, dict(info, keepdim=False), list(i0.shape), list(ref_int.shape))
                if i1.shape != ref_int.unsqueeze(d).shape or not torch.allclose(i1, ref_int.unsqueeze(d), rtol=1e-12, atol=1e-13):
                    ctx.fail("oracle", "squad:integrate-dim:%s" % method, dict(info, keepdim=True), list(i1.shape), list(ref_int.unsqueeze(d).shape))
        # one SQuad object, cumsum(y) then integrate(y) after an in-place change of the SAME tensor: integrate is the last entry of
        # the cumsum of the y it is given (round-3 seed C15/8: spline slopes cached by the identity of y)
        gq = torch.Generator().manual_seed(77)
        yq = torch.randn(3, nx, dtype=DT, generator=gq)
        c1 = sq.cumsum(yq)
        with torch.no_grad():
            yq.mul_(-0.7).add_(torch.cos(2.0 * x))
        i2 = sq.integrate(yq)
        c2 = sq.cumsum(yq.clone())
        ctx.count(("reused-object", method))
        if not torch.allclose(i2, c2[..., -1], rtol=1e-12, atol=1e-13):
            ctx.fail("oracle", "squad:integrate-after-in-place-update:%s" % method, {"sequence": ["cumsum(y)", "y updated in place", "integrate(y)"]},
                     {"integrate": i2.tolist(), "last_entry_of_cumsum": c2[..., -1].tolist()}, "equal")
        # wrong length rejected
        for bad in (torch.zeros(nx + 1, dtype=DT), torch.zeros(2, nx - 1, dtype=DT)):
            for fn in (sq.cumsum, sq.integrate):
                try:
                    fn(bad)
                    ctx.fail("oracle", "squad:wrong-length-accepted:%s" % method, {"shape": list(bad.shape)}, "no error", "rejected")
                except (RuntimeError, ValueError, IndexError):
                    pass
        # float32
        s32 = SQuad(x.float(), method=method)
        r32 = s32.integrate((x * x).float())
        if r32.dtype != torch.float32:
            ctx.fail("oracle", "squad:float32:%s" % method, {}, str(r32.dtype), "float32")


def search(ctx):
    oracle(ctx)

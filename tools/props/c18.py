"""C18 — results and gradients do not depend on how the forward solution was produced.

Tie 1 (translator): coq/Gen/MethodTables.v is regenerated from /repo on every run and the
        theorems of Props/C18.v are re-proved over it.
Tie 2 (exact correspondence): for every functional, every table key in random letter case, the
        short-cut names, unknown names, None, a callable and a non-callable are dispatched through
        the PUBLIC API with spies installed on every implementation named by the translator; the
        outcome (which implementation ran / which error class, which function it was handed, the
        keyword arguments it received) is compared with Model/Dispatch.v evaluated by vm_compute.
Oracle: closed-form custom callables (no autograd graph) vs built-in methods: values, first- and
        second-order gradients; forward runs with grad disabled."""
from __future__ import annotations
import importlib, warnings, itertools
import torch
from vlib import cnat, clist, coq_bool_cases

RULE = ("for each of the 10 functionals: every table key x {as is, UPPER, random case} + short-cut "
        "names + 6 unknown names + None + callable + non-callable; distinct = (functional, method "
        "argument); non-trivial = the call reaches the dispatch code (all do). Gradient oracle: "
        "closed-form callables vs built-in methods on random problems, first and second order")
TRUSTED = ["translator tools/translate_methods.py (ast + reflection of the name tables)",
           "harness tools/props/c18.py (spies installed on the implementations named by the translator)"]
ASSUMPTIONS = ["method names are ASCII (str.lower modelled on ASCII)"]
HEADER = ("From XV Require Import Model.Dispatch Gen.MethodTables.\nFrom Coq Require Import String List.\n"
          "Import ListNotations.\nOpen Scope string_scope.\n"
          "Definition D_solve := dispatch_solve tbl_solve.\n"
          "Definition D_symeig := dispatch_symeig tbl_symeig.\n"
          "Definition D_rootfinder := dispatch_rootfinder tbl_alg_rootfinder default_rootfinder.\n"
          "Definition D_equilibrium := dispatch_equilibrium tbl_alg_rootfinder tbl_alg_equilibrium tbl_pre_equil default_equilibrium.\n"
          "Definition D_minimize := dispatch_minimize tbl_alg_rootfinder tbl_alg_minimizer tbl_pre_rf default_minimize.\n"
          "Definition D_ivp := dispatch_ivp tbl_solve_ivp default_solve_ivp.\n"
          "Definition D_quad := dispatch_quad tbl_quad default_quad.\n"
          "Definition D_mcquad := dispatch_mcquad tbl_mcquad default_mcquad.\n"
          "Definition D_interp := dispatch_interp tbl_interp1d default_interp1d.\n"
          "Definition D_squad := dispatch_squad tbl_squad default_squad.\n")

DT = torch.float64
LOG = []          # spy records of the current call


def _spy(name, orig):
    if isinstance(orig, type):
        class Spy(orig):            # class implementations (Interp1D / SQuad back-ends)
            def __init__(self, *a, **kw):
                LOG.append({"impl": name, "kwargs": dict(kw), "grad": torch.is_grad_enabled(), "args": a})
                super().__init__(*a, **kw)
        Spy.__name__ = orig.__name__
        return Spy

    def spy(*a, **kw):
        LOG.append({"impl": name, "kwargs": dict(kw), "grad": torch.is_grad_enabled(), "args": a})
        return orig(*a, **kw)
    spy.__name__ = getattr(orig, "__name__", name)
    spy._xv_orig = orig
    return spy


class Spies:
    """install spies on every implementation the translator reported"""
    MODS = {"solve": "xitorch.linalg.solve", "symeig": "xitorch.linalg.symeig",
            "solve_ivp": "xitorch.integrate.solve_ivp", "quad": "xitorch.integrate.quad",
            "mcquad": "xitorch.integrate.mcquad", "interp1d": "xitorch.interpolate.interp1",
            "squad": "xitorch.integrate.squad"}

    def __init__(self, tables):
        self.saved = []
        for fnl, modname in self.MODS.items():
            mod = importlib.import_module(modname)
            impls = [v for _, v in tables[fnl]]
            if fnl == "solve":
                impls.append("exactsolve")
            if fnl == "symeig":
                impls.append("exacteig")
            for impl in impls:
                orig = getattr(mod, impl)
                self.saved.append((mod.__dict__, impl, orig))
                setattr(mod, impl, _spy(impl, orig))
        rf = importlib.import_module("xitorch.optimize.rootfinder")
        for dname in ("_RF_METHODS", "_EQUIL_METHODS", "_OPT_METHODS"):
            d = getattr(rf, dname)
            for k in list(d):
                self.saved.append((d, k, d[k]))
                d[k] = _spy(getattr(d[k], "__name__", k), d[k])

    def remove(self):
        for d, k, orig in reversed(self.saved):
            d[k] = orig


def case_variants(rng, name):
    vs = [name, name.upper()]
    mixed = "".join(c.upper() if rng.random() < 0.5 else c for c in name)
    vs.append(mixed)
    return list(dict.fromkeys(vs))


UNKNOWN = ["nonsense", "rk5", "exactsolve2", "cg ", "newtonn", "", "Broyden3", "leggaus", "mh_custom", "cubic"]


def cmeth(m):
    if m is None:
        return "MNone"
    if isinstance(m, str):
        assert '"' not in m
        return 'MStr "%s"' % m
    if callable(m):
        return "MCall 7"
    return "MOther"


def copts(d):
    return clist(['("%s", %s)' % (k, cnat(int(v))) for k, v in d.items()])


# ---------------------------------------------------------------------------------------
# tiny problems for each functional; each returns the model term for the expected outcome
# ---------------------------------------------------------------------------------------
class MVOp:
    pass


def make_linop(xt, mat, herm=False, dense=False):
    if dense:
        return xt.LinearOperator.m(mat)

    class Op(xt.LinearOperator):
        def __init__(self, m, herm):
            super().__init__(shape=m.shape, is_hermitian=herm, dtype=m.dtype, device=m.device)
            self.m_ = m

        def _mv(self, x):
            return torch.matmul(self.m_, x.unsqueeze(-1)).squeeze(-1)

        def _getparamnames(self, prefix=""):
            return [prefix + "m_"]
    return Op(mat, herm)


def observe(call):
    """run the call with spies; returns outcome tuple"""
    del LOG[:]
    try:
        with warnings.catch_warnings():
            warnings.simplefilter("ignore")
            res = call()
        return ("ok", list(LOG), res)
    except RuntimeError as e:
        if "Unknown" in str(e) and "method" in str(e):
            return ("ErrUnknown", list(LOG), None)
        return ("RuntimeError:" + str(e)[:80], list(LOG), None)
    except TypeError as e:
        return ("ErrType", list(LOG), None)
    except AssertionError as e:
        return ("ErrAssert", list(LOG), None)
    except Exception as e:
        return (type(e).__name__ + ":" + str(e)[:80], list(LOG), None)


def check(ctx):
    import xitorch as xt
    from xitorch.linalg import solve, symeig
    from xitorch.optimize import rootfinder, equilibrium, minimize
    from xitorch.integrate import solve_ivp, quad, mcquad, SQuad
    from xitorch.interpolate import Interp1D
    import translate_methods
    rng = ctx.rng
    tables, defaults, docs = translate_methods.reflect_tables()
    spies = Spies(tables)
    cases, meta = [], []
    torch.manual_seed(ctx.seed)

    def custom_any(*a, **kw):       # a callable that only records; returns a plausible value
        LOG.append({"impl": "<custom>", "kwargs": dict(kw), "grad": torch.is_grad_enabled(), "args": a})
        raise _Stop()

    class _Stop(Exception):
        pass

    def add(fnl, D, m, obs, fam_probe=None, extra=""):
        """translate the observation to an outcome term and register the comparison"""
        status, log, _ = obs
        if log and log[0]["impl"] == "<custom>":
            exp = 'Custom "%s" 7' % (fam_probe(log[0]) if fam_probe else FAMILY[fnl])
        elif log:
            # an implementation was reached: whatever it raises afterwards is not the dispatch's doing
            first = log[0]["impl"]
            if first in ("exactsolve", "exacteig") and fnl in ("solve", "symeig") and not extra:
                exp = 'Direct "%s"' % first
            else:
                exp = 'Ran "%s" "%s"' % (fam_probe(log[0]) if fam_probe else FAMILY[fnl], first)
        elif status in ("ErrUnknown", "ErrType", "ErrAssert"):
            exp = status
        else:
            ctx.fail("oracle", "dispatch:%s:no-implementation-ran" % fnl, {"functional": fnl, "method": repr(m)},
                     status, "an implementation runs or a documented error is raised")
            return
        cases.append("outcome_eqb (%s (%s)) (%s)" % (D, cmeth(m), exp))
        meta.append({"functional": fnl, "method": repr(m), "implementation": exp})
        ctx.count((fnl, repr(m) if not callable(m) else "<callable>"))
        ctx.stat("outcome:" + exp.split(" ")[0])
        # forward methods must run with gradient recording disabled
        for rec in log[:1]:
            if rec["impl"] not in ("exactsolve", "exacteig") and fnl not in ("interp1d", "squad") and rec["grad"]:
                ctx.fail("oracle", "dispatch:%s:grad-enabled-in-forward" % fnl,
                         {"functional": fnl, "method": repr(m)}, "torch.is_grad_enabled() == True inside the method",
                         "gradient recording disabled while the forward method runs")

    FAMILY = {"solve": "solve", "symeig": "symeig", "solve_ivp": "solve_ivp", "quad": "quad",
              "mcquad": "mcquad", "interp1d": "Interp1D", "squad": "SQuad"}

    def methods_for(fnl_tables, extra_names=()):
        ms = [None, custom_any, 3]
        for t in fnl_tables:
            for k, _ in tables[t]:
                ms.extend(case_variants(rng, k))
        for n in extra_names:
            ms.extend(case_variants(rng, n))
        ms.extend(rng.sample(UNKNOWN, 6))
        return ms

    def safe(call):
        def f():
            try:
                return call()
            except _Stop:
                return None
        return f

    try:
        # ---------------- solve ----------------
        for (n, dense, herm) in [(3, True, False), (3, False, False), (6, False, True), (6, False, False), (6, True, True)]:
            mat = torch.randn(n, n, dtype=DT)
            mat = mat @ mat.T + n * torch.eye(n, dtype=DT) if herm else mat + n * torch.eye(n, dtype=DT)
            A = make_linop(xt, mat, herm=herm, dense=dense)
            B = torch.randn(n, 2, dtype=DT)
            dflt = "exactsolve" if dense or n <= 5 else ("cg" if herm else "bicgstab")
            for m in methods_for(["solve"], ["exactsolve"]) if n == 6 and not dense and herm else [None, "CG", "ExactSolve"]:
                obs = observe(safe(lambda: solve(A, B, method=m)))
                add("solve", 'D_solve "%s"' % dflt, m, obs)
            # the model's default rule
            cases.append('String.eqb (solve_default %s true %s %s) "%s"' % (
                "true" if dense else "false", cnat(n), "true" if herm else "false", dflt))
            meta.append({"functional": "solve", "default-rule": (n, dense, herm, dflt)})
        # ---------------- symeig ----------------
        mat = torch.randn(4, 4, dtype=DT)
        A = xt.LinearOperator.m(mat + mat.T, is_hermitian=True)
        for m in methods_for(["symeig"], ["exacteig"]):
            obs = observe(safe(lambda: symeig(A, neig=2, method=m)))
            add("symeig", "D_symeig", m, obs)
        # ---------------- rootfinder family ----------------
        a = torch.tensor([0.3, 0.2], dtype=DT)
        f = lambda y, a: 0.5 * torch.cos(y) * a + 0.1
        y0 = torch.tensor([0.25, -0.5], dtype=DT)

        def rf_probe(expect_root, expect_equil=None):
            def probe(rec):
                fcn, yy = rec["args"][0], rec["args"][1]
                with torch.enable_grad():
                    out = fcn(yy, *rec["args"][2])
                if isinstance(out, tuple):
                    return "minimizer"
                if expect_equil is not None and torch.allclose(out, expect_equil):
                    return "equilibrium"
                if torch.allclose(out, expect_root):
                    return "rootfinder"
                return "UNRECOGNISED-FUNCTION"
            return probe
        fy0 = f(y0, a)
        for m in methods_for(["alg_rootfinder"], ["anderson_acc", "gd"]):
            obs = observe(safe(lambda: rootfinder(f, y0, params=(a,), method=m)))
            add("rootfinder", "D_rootfinder", m, obs, rf_probe(fy0))
        for m in methods_for(["alg_rootfinder", "alg_equilibrium"], ["gd"]):
            obs = observe(safe(lambda: equilibrium(f, y0, params=(a,), method=m)))
            add("equilibrium", "D_equilibrium", m, obs, rf_probe(y0 - fy0, fy0))
        g = lambda y, a: ((y - a) ** 2).sum() + 0.1 * (y ** 4).sum()
        grad0 = 2 * (y0 - a) + 0.4 * y0 ** 3
        for m in methods_for(["alg_rootfinder", "alg_minimizer"], ["anderson_acc"]):
            obs = observe(safe(lambda: minimize(g, y0, params=(a,), method=m, maxiter=30)))
            add("minimize", "D_minimize", m, obs, rf_probe(grad0))
        # ---------------- solve_ivp ----------------
        ts = torch.linspace(0, 1, 4, dtype=DT)
        for m in methods_for(["solve_ivp"]):
            obs = observe(safe(lambda: solve_ivp(lambda t, y, a: -a * y, ts, y0, params=(a,), method=m)))
            add("solve_ivp", "D_ivp", m, obs)
        # ---------------- quad ----------------
        for m in methods_for(["quad"]):
            obs = observe(safe(lambda: quad(lambda x, a: torch.exp(-a * x), 0.0, 1.0, params=(a,), method=m)))
            add("quad", "D_quad", m, obs)
        # ---------------- mcquad ----------------
        x0 = torch.zeros(1, dtype=DT)
        for m in methods_for(["mcquad"]):
            kw = {"nsamples": 20, "nburnout": 5}
            if isinstance(m, str) and m.lower() == "mhcustom":
                kw["custom_step"] = lambda x, *p: x + 0.1
            obs = observe(safe(lambda: mcquad(lambda x, a: (x * a).sum(), lambda x: -(x * x).sum(), x0,
                                              fparams=(a,), pparams=(), method=m, **kw)))
            add("mcquad", "D_mcquad", m, obs)
        # ---------------- Interp1D / SQuad ----------------
        xs = torch.linspace(0, 1, 6, dtype=DT)
        ys = xs ** 2
        for m in methods_for(["interp1d"]):
            obs = observe(safe(lambda: Interp1D(xs, ys, method=m)))
            add("interp1d", "D_interp", m, obs)
        for m in methods_for(["squad"]):
            obs = observe(safe(lambda: SQuad(xs, method=m)))
            add("squad", "D_squad", m, obs)

        # ---------------- options reaching a custom callable ----------------
        optsets = [{"alpha": 1, "n": 2}, {}, {"zeta": 3, "n": 4, "verbose": 5}]
        for fwd in optsets:
            calls = [
                ("rootfinder", lambda: rootfinder(f, y0, params=(a,), method=custom_any, **fwd)),
                ("equilibrium", lambda: equilibrium(f, y0, params=(a,), method=custom_any, **fwd)),
                ("minimize", lambda: minimize(g, y0, params=(a,), method=custom_any, **fwd)),
                ("solve_ivp", lambda: solve_ivp(lambda t, y, a: -a * y, ts, y0, params=(a,), method=custom_any, **fwd)),
                ("quad", lambda: quad(lambda x, a: torch.exp(-a * x), 0.0, 1.0, params=(a,), method=custom_any, **fwd)),
                ("mcquad", lambda: mcquad(lambda x, a: (x * a).sum(), lambda x: -(x * x).sum(), x0, fparams=(a,),
                                          method=custom_any, **fwd)),
                ("solve", lambda: solve(make_linop(xt, torch.eye(3, dtype=DT) * 2), torch.ones(3, 1, dtype=DT),
                                        method=custom_any, **fwd)),
                ("symeig", lambda: symeig(xt.LinearOperator.m(torch.eye(3, dtype=DT), True), neig=1,
                                          method=custom_any, **fwd)),
                ("interp1d", lambda: Interp1D(xs, ys, method=custom_any, **fwd)),
                ("squad", lambda: SQuad(xs, method=custom_any, **fwd)),
            ]
            for fnl, c in calls:
                status, log, _ = observe(safe(c))
                if not log or log[0]["impl"] != "<custom>":
                    ctx.fail("oracle", "options:%s:callable-not-called" % fnl, {"functional": fnl, "options": fwd},
                             status, "the caller's callable is invoked")
                    continue
                got = {k: v for k, v in log[0]["kwargs"].items()}
                withm = dict(fwd)
                withm["method"] = 99
                if not all(isinstance(v, int) for v in got.values()):
                    ctx.fail("oracle", "options:%s:unexpected-option" % fnl, {"options": fwd}, {k: repr(v)[:60] for k, v in got.items()},
                             "exactly the caller's options, no internal key")
                cases.append("opts_eqb (fwd_kwargs %s) %s" % (copts(withm), copts(got)) if all(
                    isinstance(v, int) for v in got.values()) else "false")
                meta.append({"functional": fnl, "options": fwd, "received": {k: repr(v) for k, v in got.items()}})
                ctx.count(("options", fnl, tuple(fwd)))
        # backward configuration of quad: forward options updated by bck_options
        for fwd, bck in [({"n": 7}, {}), ({"n": 7}, {"n": 11}), ({}, {"n": 5}), ({"n": 9, "zz": 1}, {"yy": 2})]:
            seen = []
            lg = importlib.import_module("xitorch.integrate.quad").leggauss

            def mymethod(fcn, xl, xu, params, **kw):
                seen.append(dict(kw))
                return lg._xv_orig(fcn, xl, xu, params, **kw) if hasattr(lg, "_xv_orig") else lg(fcn, xl, xu, params, **kw)
            ap = a.clone().requires_grad_()
            val = quad(lambda x, a: torch.exp(-a * x), 0.0, 1.0, params=(ap,), method=mymethod, bck_options=bck, **fwd)
            val.sum().backward()
            if len(seen) < 2:
                ctx.fail("oracle", "options:quad:backward-does-not-use-method", {"fwd": fwd, "bck": bck}, len(seen),
                         "the backward quadrature calls the configured method")
                continue
            withm = dict(fwd)
            if not all(isinstance(v, int) for v in seen[-1].values()):
                ctx.fail("oracle", "options:quad:backward:unexpected-option", {"fwd": fwd, "bck": bck},
                         {k: repr(v)[:60] for k, v in seen[-1].items()}, "exactly the caller's options (forward updated by bck_options), no internal key")
                continue
            cases.append("opts_eqb (fwd_kwargs (bck_config %s %s)) %s" % (copts(withm), copts(bck), copts(seen[-1])))
            meta.append({"functional": "quad-backward", "fwd": fwd, "bck": bck, "received": seen[-1]})
            ctx.count(("bckopts", tuple(fwd.items()), tuple(bck.items())))
    finally:
        spies.remove()

    failed, errors = coq_bool_cases("c18", HEADER, cases, chunk=150)
    ctx.coverage["traces_validated_against_impl"] += len(cases) - len(failed)
    for e in errors:
        ctx.broken("correspondence:dispatch", e)
    for i in failed[:5]:
        ctx.broken("correspondence:dispatch", {"case": meta[i], "coq": cases[i]})
        # a dispatch disagreement is directly a property violation when a known name is rejected
        mi = meta[i]
        if "method" in mi:
            ctx.fail("model-vs-impl", "dispatch:%s:%s" % (mi["functional"], mi["method"]), mi,
                     mi.get("implementation"), "outcome predicted by Model/Dispatch.v over the regenerated tables")
    for s in meta[:3] + meta[-2:]:
        ctx.sample(s)
    gradient_oracle(ctx)
    backward_options_contract(ctx)
    round3_contract(ctx)
    callable_kinds_probe(ctx)
    round5_contract(ctx)


# ---------------------------------------------------------------------------------------
# gradient independence from the forward method (implementation only)
# ---------------------------------------------------------------------------------------
NOT_CONVERGED = [False]


def _grads(out_fn, leaves, second=True):
    # a built-in iterative method may legitimately end with a ConvergenceWarning (e.g. broyden1 on about 1 % of the random
    # cubics): such a run is not a reference for anything (false alarm of thorough seed 1); the flag is read by _cmp
    with warnings.catch_warnings(record=True) as wlist:
        warnings.simplefilter("always")
        outs = out_fn()
    if any("converge" in str(x.message) for x in wlist):
        NOT_CONVERGED[0] = True
    w = torch.linspace(0.3, 1.1, outs.numel(), dtype=outs.dtype).reshape(outs.shape)
    loss = (outs * w).sum()
    g1 = torch.autograd.grad(loss, leaves, create_graph=second, allow_unused=True)
    g1 = [torch.zeros_like(l) if g is None else g for g, l in zip(g1, leaves)]
    res = [outs.detach()] + [g.detach() for g in g1]
    if second:
        s = sum((g * torch.cos(torch.arange(g.numel(), dtype=g.dtype).reshape(g.shape))).sum() for g in g1)
        if s.requires_grad:
            g2 = torch.autograd.grad(s, leaves, allow_unused=True)
            res += [torch.zeros_like(l) if g is None else g.detach() for g, l in zip(g2, leaves)]
        else:
            res += [torch.zeros_like(l) for l in leaves]
    return res


def _cmp(ctx, key, info, ra, rb, rtol, atol):
    if NOT_CONVERGED[0]:
        NOT_CONVERGED[0] = False
        ctx.stat("gradindep_skipped_not_converged")
        return True
    names = ["value"] + ["grad%d" % i for i in range(len(ra) - 1)]
    for nm, x, y in zip(names, ra, rb):
        if x.shape != y.shape or not torch.allclose(x, y, rtol=rtol, atol=atol):
            ctx.fail("oracle", key, info, {"which": nm, "builtin": x, "custom": y},
                     "identical values and first/second-order gradients for a closed-form callable")
            return False
    return True


def gradient_oracle(ctx):
    import xitorch as xt
    from xitorch.linalg import solve
    from xitorch.optimize import rootfinder, equilibrium, minimize
    from xitorch.integrate import solve_ivp, quad
    rng = ctx.rng
    nrep = ctx.n(3, 15)
    for rep in range(nrep):
        torch.manual_seed(ctx.seed * 1000 + rep)
        # ---- solve: custom = dense LAPACK solve without any graph
        n = rng.choice([2, 3, 4])
        Am = (torch.randn(n, n, dtype=DT) + n * torch.eye(n, dtype=DT)).requires_grad_()
        B = torch.randn(n, 2, dtype=DT).requires_grad_()
        E = torch.randn(2, dtype=DT).mul(0.3).requires_grad_() if rng.random() < 0.5 else None

        def custom_solve(A, B, E=None, M=None, **kw):
            assert not torch.is_grad_enabled()
            a = A.fullmatrix()
            if E is None:
                return torch.linalg.solve(a, B)
            cols = [torch.linalg.solve(a - E[j] * torch.eye(a.shape[-1], dtype=a.dtype), B[:, j]) for j in range(B.shape[-1])]
            return torch.stack(cols, dim=-1)
        leaves = [Am, B] + ([E] if E is not None else [])
        ref = _grads(lambda: solve(xt.LinearOperator.m(Am), B, E, method="exactsolve"), leaves)
        for meth in (custom_solve, "custom_exactsolve"):
            got = _grads(lambda: solve(xt.LinearOperator.m(Am), B, E, method=meth), leaves)
            _cmp(ctx, "gradindep:solve", {"n": n, "E": E is not None, "method": repr(meth)}, ref, got, 1e-7, 1e-9)
            ctx.count(("gi-solve", rep, repr(meth) if isinstance(meth, str) else "callable"))
        # ---- rootfinder: f(y) = y^3 + a y - b, closed-form custom = bisection-free Newton in numpy
        a = (torch.rand(3, dtype=DT) + 0.5).requires_grad_()
        b = torch.randn(3, dtype=DT).requires_grad_()
        f = lambda y, a, b: y ** 3 + a * y - b

        def custom_root(fcn, y0, params, **kw):
            assert not torch.is_grad_enabled()
            aa, bb = params
            y = torch.zeros_like(y0)
            for _ in range(60):
                y = y - (y ** 3 + aa * y - bb) / (3 * y ** 2 + aa)
            return y.detach().clone()
        ref = _grads(lambda: rootfinder(f, torch.zeros(3, dtype=DT), params=(a, b), method="broyden1",
                                        f_tol=1e-12, x_tol=1e-12), [a, b])
        got = _grads(lambda: rootfinder(f, torch.zeros(3, dtype=DT), params=(a, b), method=custom_root), [a, b])
        _cmp(ctx, "gradindep:rootfinder", {"rep": rep}, ref, got, 1e-6, 1e-8)
        ctx.count(("gi-root", rep))
        # ---- equilibrium: y = 0.5 cos(y) a + b
        fe = lambda y, a, b: 0.3 * torch.cos(y) * a + 0.2 * b

        def custom_equil(fcn, y0, params, **kw):
            assert not torch.is_grad_enabled()
            y = y0.clone()
            for _ in range(200):
                y = 0.3 * torch.cos(y) * params[0] + 0.2 * params[1]
            return y
        ref = _grads(lambda: equilibrium(fe, torch.zeros(3, dtype=DT), params=(a, b), method="broyden1",
                                         f_tol=1e-12, x_tol=1e-12), [a, b])
        got = _grads(lambda: equilibrium(fe, torch.zeros(3, dtype=DT), params=(a, b), method=custom_equil), [a, b])
        _cmp(ctx, "gradindep:equilibrium", {"rep": rep}, ref, got, 1e-6, 1e-8)
        ctx.count(("gi-equil", rep))
        # ---- minimize: 0.5 a y^2 - b y  -> y = b/a
        fm = lambda y, a, b: (0.5 * a * y ** 2 - b * y).sum()
        ref = _grads(lambda: minimize(fm, torch.zeros(3, dtype=DT), params=(a, b), method="broyden1",
                                      f_tol=1e-12, x_tol=1e-12), [a, b])
        got = _grads(lambda: minimize(fm, torch.zeros(3, dtype=DT), params=(a, b),
                                      method=lambda fcn, y0, params, **kw: (params[1] / params[0]).detach().clone()), [a, b])
        _cmp(ctx, "gradindep:minimize", {"rep": rep}, ref, got, 1e-6, 1e-8)
        ctx.count(("gi-min", rep))
        # ---- quad: custom = the same rule evaluated by hand with numpy's table
        import numpy as np

        def custom_quad(fcn, xl, xu, params, n=20, **kw):
            assert not torch.is_grad_enabled()
            xs, ws = np.polynomial.legendre.leggauss(n)
            tot = 0
            for x, w in zip(xs, ws):
                xx = torch.as_tensor(x, dtype=xl.dtype) * (0.5 * (xu - xl)) + 0.5 * (xu + xl)
                tot = tot + w * 0.5 * (xu - xl) * fcn(xx, *params)
            return tot
        fq = lambda x, a, b: torch.exp(-a * x) * b + a * x ** 2
        xu = torch.tensor(1.3, dtype=DT, requires_grad=True)
        ref = _grads(lambda: quad(fq, torch.tensor(0.2, dtype=DT), xu, params=(a, b), n=20), [a, b, xu])
        got = _grads(lambda: quad(fq, torch.tensor(0.2, dtype=DT), xu, params=(a, b), method=custom_quad, n=20), [a, b, xu])
        _cmp(ctx, "gradindep:quad", {"rep": rep}, ref, got, 1e-9, 1e-11)
        ctx.count(("gi-quad", rep))
        # ---- solve_ivp: y' = -a y + b, closed form
        ts = torch.linspace(0, 1.0, 4, dtype=DT)
        y00 = torch.randn(3, dtype=DT).requires_grad_()

        def custom_ivp(fcn, ts, y0, params, **kw):
            assert not torch.is_grad_enabled()
            aa, bb = params
            return torch.stack([(y0 - bb / aa) * torch.exp(-aa * (t - ts[0])) + bb / aa for t in ts])
        fo = lambda t, y, a, b: -a * y + b
        tight = dict(rtol=1e-10, atol=1e-12)
        ref = _grads(lambda: solve_ivp(fo, ts, y00, params=(a, b), method="rk45", bck_options=tight, **tight), [a, b, y00])
        try:
            got = _grads(lambda: solve_ivp(fo, ts, y00, params=(a, b), method=custom_ivp, bck_options=dict(method="rk45", **tight)),
                         [a, b, y00])
        except Exception as e:
            # the forward callable is for the forward pass only: bck_options name the solver of the adjoint system
            ctx.fail("oracle", "gradindep:solve_ivp:backward-options-ignored", {"rep": rep, "method": "<closed-form callable>",
                     "bck_options": "{'method': 'rk45', ...}"}, repr(e)[:200], "the adjoint system is integrated with bck_options['method']")
            continue
        _cmp(ctx, "gradindep:solve_ivp", {"rep": rep}, ref, got, 1e-5, 1e-7)
        ctx.count(("gi-ivp", rep))


def backward_options_contract(ctx):
    """the options a backward solver receives are exactly the caller's bck_options (minus 'method' and the keys a functional
    documents as its own): no forward option, no internal key leaks into them, and the callable given there is the one
    that runs (seeded defects C18/4, C18/5, C18/6)"""
    import xitorch as xt
    from xitorch.linalg import solve, symeig
    from xitorch.optimize import rootfinder
    from xitorch._impls.linalg.solve import exactsolve
    seen = []

    def bck(A, B, E=None, M=None, **kw):
        seen.append(dict(kw))
        return exactsolve(A, B, E, M)

    def fwd(A, B, E=None, M=None, **kw):
        return exactsolve(A, B, E, M)
    g = torch.Generator().manual_seed(ctx.seed + 91)
    Am = (torch.randn(4, 4, dtype=DT, generator=g) + 4 * torch.eye(4, dtype=DT)).requires_grad_()
    Bm = torch.randn(4, 1, dtype=DT, generator=g)
    # solve: a forward-only option must not reach the backward solver
    del seen[:]
    X = solve(xt.LinearOperator.m(Am, is_hermitian=False), Bm, method=fwd, fwdonly=1, bck_options={"method": bck, "bckonly": 2})
    torch.autograd.grad(X.sum(), Am)
    ctx.count(("bck-contract", "solve"), nontrivial=True)
    if not seen or any(k != {"bckonly": 2} for k in seen):
        ctx.fail("oracle", "options:solve:backward-solver-options", {"fwd_options": {"fwdonly": 1}, "bck_options": {"method": "<callable>", "bckonly": 2}},
                 seen[:2], "the backward solver is called with {'bckonly': 2}")
    # symeig: its own keys (degen_atol, degen_rtol) are consumed, the rest goes to the shifted solve
    del seen[:]
    S = (Am + Am.T)
    e, V = symeig(xt.LinearOperator.m(S, is_hermitian=True), 2, method="custom_exacteig",
                  bck_options={"method": bck, "degen_atol": 1e-9, "degen_rtol": 1e-7, "bckonly": 3})
    torch.autograd.grad(e.sum() + (V * V).sum(), Am)
    ctx.count(("bck-contract", "symeig"), nontrivial=True)
    if not seen or any(k != {"bckonly": 3} for k in seen):
        ctx.fail("oracle", "options:symeig:backward-solver-options",
                 {"bck_options": {"method": "<callable>", "degen_atol": 1e-9, "degen_rtol": 1e-7, "bckonly": 3}}, seen[:2],
                 "the shifted solve is called with {'bckonly': 3}")
    # rootfinder: the callable is the solver of the transposed Jacobian system
    del seen[:]
    a = torch.tensor([0.7, 1.1, 0.4], dtype=DT, requires_grad=True)
    y = rootfinder(lambda y, a: y ** 3 + a * y - 1.0, torch.zeros(3, dtype=DT), params=(a,), bck_options={"method": bck, "bckonly": 4})
    torch.autograd.grad(y.sum(), a)
    ctx.count(("bck-contract", "rootfinder"), nontrivial=True)
    if not seen or any(k != {"bckonly": 4} for k in seen):
        ctx.fail("oracle", "options:rootfinder:backward-solver-options", {"bck_options": {"method": "<callable>", "bckonly": 4}}, seen[:2],
                 "the backward solver is called with {'bckonly': 4}")


def callable_kinds_probe(ctx):
    """the caller's method may be ANY callable - a functools.partial, an object with __call__, a bound method, a builtin-like
    callable - not only a plain function (round-4 seed C18/11: hasattr(method, '__call__') replaced by inspect.isfunction)"""
    import functools
    import xitorch as xt
    from xitorch.linalg import solve, symeig
    from xitorch.optimize import rootfinder
    from xitorch.integrate import quad
    from xitorch.interpolate import Interp1D
    from xitorch._impls.linalg.solve import exactsolve
    from xitorch._impls.integrate.fixed_quad import leggauss
    hits = []

    def base(A, B, E=None, M=None, tag=None, **kw):
        hits.append(tag)
        return exactsolve(A, B, E, M)

    class Obj:
        def __call__(self, A, B, E=None, M=None, **kw):
            hits.append("object")
            return exactsolve(A, B, E, M)

        def meth(self, A, B, E=None, M=None, **kw):
            hits.append("bound-method")
            return exactsolve(A, B, E, M)
    Am = xt.LinearOperator.m(torch.tensor([[2.0, 0.3], [0.1, 3.0]], dtype=DT), is_hermitian=False)
    Bm = torch.tensor([[1.0], [2.0]], dtype=DT)
    ref = torch.linalg.solve(Am.fullmatrix(), Bm)
    for kind, m in (("functools.partial", functools.partial(base, tag="partial")), ("callable-object", Obj()), ("bound-method", Obj().meth),
                    ("lambda", lambda A, B, E=None, M=None, **kw: (hits.append("lambda"), exactsolve(A, B, E, M))[1])):
        del hits[:]
        try:
            X = solve(Am, Bm, method=m)
        except Exception as e:
            ctx.fail("oracle", "dispatch:solve:callable-kind-rejected", {"method": kind}, repr(e)[:200], "any callable is accepted and called")
            continue
        ctx.count(("callable-kind", "solve", kind), nontrivial=True)
        if not hits or not torch.allclose(X, ref):
            ctx.fail("oracle", "dispatch:solve:callable-kind-not-called", {"method": kind}, {"called": list(hits)}, "the callable runs and its result is returned")
    # the same for functionals of the other families
    qhit = []
    qpart = functools.partial(lambda fcn, xl, xu, params, tag=None, **kw: (qhit.append(tag), leggauss(fcn, xl, xu, params, n=8))[1], tag="q")
    others = [("quad", lambda: quad(lambda x: x * x, torch.tensor(0.0, dtype=DT), torch.tensor(1.0, dtype=DT), method=qpart), lambda r: abs(float(r) - 1 / 3) < 1e-12 and qhit == ["q"]),
              ("rootfinder", lambda: rootfinder(lambda y: y - 2.0, torch.zeros(1, dtype=DT),
                                                method=functools.partial(lambda fcn, x0, params, shift=0.0, **kw: torch.full_like(x0, 2.0) + shift, shift=0.0)),
               lambda r: abs(float(r) - 2.0) < 1e-12),
              ("symeig", lambda: symeig(xt.LinearOperator.m(torch.diag(torch.tensor([1.0, 2.0], dtype=DT)), is_hermitian=True), 1,
                                        method=functools.partial(lambda A, neig, mode, M=None, **kw: (torch.tensor([1.0], dtype=DT), torch.tensor([[1.0], [0.0]], dtype=DT))))[0],
               lambda r: abs(float(r) - 1.0) < 1e-12)]
    # the thin wrappers lsymeig / usymeig hand the method (and its options) on to symeig (round-4 seed C18/12: usymeig dropped it)
    from xitorch.linalg import lsymeig, usymeig
    whit = []

    def eigcall(A, neig, mode, M=None, **kw):
        whit.append((mode, dict(kw)))
        e_, v_ = torch.linalg.eigh(A.fullmatrix())
        return (e_[:neig], v_[:, :neig]) if mode == "lowest" else (e_[-neig:], v_[:, -neig:])
    Sd = xt.LinearOperator.m(torch.diag(torch.tensor([1.0, 2.0, 4.0], dtype=DT)), is_hermitian=True)
    for wname, wfn, want_e in (("lsymeig", lsymeig, 1.0), ("usymeig", usymeig, 4.0)):
        del whit[:]
        try:
            e_ = wfn(Sd, 1, method=eigcall, tagopt=5)[0]
            ctx.count(("wrapper-forwards-method", wname), nontrivial=True)
            if len(whit) != 1 or whit[0][1] != {"tagopt": 5} or abs(float(e_) - want_e) > 1e-12:
                ctx.fail("oracle", "dispatch:%s:method-not-forwarded" % wname, {"method": "<callable>", "options": {"tagopt": 5}}, {"calls": whit[:2], "value": float(e_)},
                         "the callable is called once with the caller's options")
        except Exception as e:
            ctx.fail("oracle", "dispatch:%s:callable:exception" % wname, {}, repr(e)[:200], "the callable runs")
        try:
            wfn(Sd, 1, method="davidsn")
            ctx.fail("oracle", "dispatch:%s:unknown-accepted" % wname, {"method": "davidsn"}, "no error", "an unknown name is rejected")
        except RuntimeError:
            pass
        except Exception as e:
            ctx.fail("oracle", "dispatch:%s:unknown-name:other-exception" % wname, {"method": "davidsn"}, repr(e)[:200], "RuntimeError")
    for fnl, call, ok in others:
        try:
            r = call()
        except Exception as e:
            ctx.fail("oracle", "dispatch:%s:callable-kind-rejected" % fnl, {"method": "functools.partial"}, repr(e)[:200], "any callable is accepted and called")
            continue
        ctx.count(("callable-kind", fnl, "functools.partial"), nontrivial=True)
        if not ok(r):
            ctx.fail("oracle", "dispatch:%s:callable-kind-not-called" % fnl, {"method": "functools.partial"}, str(r)[:100], "the callable's result")


def round3_contract(ctx):
    """(a) an option whose value is None is an option like any other: it reaches the forward callable and the backward solver
    (round-3 seed C18/9: set_default_option dropped None values);  (b) quad with a tuple-valued integrand hands the caller's
    bck_options to the backward quadrature like the tensor-valued branch does (C18/7);  (c) an all-zero right-hand side whose batch
    shape is smaller than the operator's gives the broadcast shape for every method, callables included, and gradients of the
    shapes of the inputs (C18/8)"""
    import xitorch as xt
    from xitorch.linalg import solve, symeig
    from xitorch.optimize import rootfinder
    from xitorch.integrate import quad
    from xitorch._impls.linalg.solve import exactsolve
    from xitorch._impls.integrate.fixed_quad import leggauss
    seen_f, seen_b = [], []

    def fwd(A, B, E=None, M=None, **kw):
        seen_f.append(dict(kw))
        return exactsolve(A, B, E, M)

    def bck(A, B, E=None, M=None, **kw):
        seen_b.append(dict(kw))
        return exactsolve(A, B, E, M)
    g = torch.Generator().manual_seed(ctx.seed + 93)
    Am = (torch.randn(4, 4, dtype=DT, generator=g) + 4 * torch.eye(4, dtype=DT)).requires_grad_()
    Bm = torch.randn(4, 1, dtype=DT, generator=g)
    X = solve(xt.LinearOperator.m(Am, is_hermitian=False), Bm, method=fwd, maxiter=None, tag=7,
              bck_options={"method": bck, "tolx": None, "tag": 8})
    torch.autograd.grad(X.sum(), Am)
    ctx.count(("none-valued-option", "solve"), nontrivial=True)
    if seen_f[:1] != [{"maxiter": None, "tag": 7}] or not seen_b or any(k != {"tolx": None, "tag": 8} for k in seen_b):
        ctx.fail("oracle", "options:solve:none-valued-option-dropped", {"fwd_options": {"maxiter": None, "tag": 7}, "bck_options": {"method": "<callable>", "tolx": None, "tag": 8}},
                 {"forward_received": seen_f[:1], "backward_received": seen_b[:1]}, "exactly the caller's options, None values included")
    del seen_f[:], seen_b[:]
    a = torch.tensor([0.7, 1.1, 0.4], dtype=DT, requires_grad=True)
    y = rootfinder(lambda y, a: y ** 3 + a * y - 1.0, torch.zeros(3, dtype=DT), params=(a,), bck_options={"method": bck, "tolx": None})
    torch.autograd.grad(y.sum(), a)
    ctx.count(("none-valued-option", "rootfinder"), nontrivial=True)
    if not seen_b or any(k != {"tolx": None} for k in seen_b):
        ctx.fail("oracle", "options:rootfinder:none-valued-option-dropped", {"bck_options": {"method": "<callable>", "tolx": None}}, seen_b[:1],
                 "the backward solver is called with {'tolx': None}")
    # (b) quad, tuple-valued integrand: forward by a recorded callable, backward by another one
    qf, qb = [], []

    def qfwd(fcn, xl, xu, params, **kw):
        qf.append(dict(kw))
        return leggauss(fcn, xl, xu, params, n=20)

    def qbck(fcn, xl, xu, params, **kw):
        qb.append(dict(kw))
        return leggauss(fcn, xl, xu, params, n=20)
    for shape_name, integrand in (("tuple", lambda x, a: (torch.exp(-a * x), a * x)), ("tensor", lambda x, a: torch.exp(-a * x))):
        del qf[:], qb[:]
        aq = torch.tensor([0.7, 1.3], dtype=DT, requires_grad=True)
        out = quad(integrand, torch.tensor(0.0, dtype=DT), torch.tensor(1.0, dtype=DT), params=(aq,), method=qfwd, fwdtag=1,
                   bck_options={"method": qbck, "bcktag": 2})
        tot = sum(o.sum() for o in out) if isinstance(out, (tuple, list)) else out.sum()
        torch.autograd.grad(tot, aq)
        ctx.count(("quad-bck-options", shape_name), nontrivial=True)
        # (quad documents that the backward quadrature uses the forward options updated by bck_options)
        if not qf or any(k != {"fwdtag": 1} for k in qf) or not qb or any(k != {"fwdtag": 1, "bcktag": 2} for k in qb):
            ctx.fail("oracle", "options:quad:%s-integrand:backward-options" % shape_name,
                     {"fwd_options": {"method": "<callable F>", "fwdtag": 1}, "bck_options": {"method": "<callable B>", "bcktag": 2}},
                     {"forward_callable_received": qf[:2], "backward_callable_received": qb[:2]},
                     "F runs in the forward pass with {'fwdtag': 1}, B in the backward pass with {'fwdtag': 1, 'bcktag': 2}")
    # (c) zero right-hand side, smaller batch than the operator
    A2 = (torch.randn(2, 3, 3, dtype=DT, generator=g) + 3 * torch.eye(3, dtype=DT)).requires_grad_()
    for meth in ("exactsolve", "custom_exactsolve", "bicgstab", "cg", fwd):
        Bz = torch.zeros(3, 1, dtype=DT, requires_grad=True)
        try:
            with warnings.catch_warnings():
                warnings.simplefilter("ignore")
                Xz = solve(xt.LinearOperator.m(A2, is_hermitian=False), Bz, method=meth)
                gB, gA = torch.autograd.grad(Xz.sum(), (Bz, A2), allow_unused=True)
        except Exception as e:
            ctx.fail("oracle", "options:solve:zero-rhs-broadcast:exception", {"method": meth if isinstance(meth, str) else "<callable>"}, repr(e)[:200],
                     "zeros of the broadcast shape")
            continue
        ctx.count(("zero-rhs-broadcast", meth if isinstance(meth, str) else "<callable>"), nontrivial=True)
        ref_gB = torch.linalg.inv(A2.detach()).transpose(-2, -1).sum(dim=-1, keepdim=True).sum(dim=0)
        if list(Xz.shape) != [2, 3, 1] or gB is None or list(gB.shape) != [3, 1] or not torch.allclose(gB, ref_gB, rtol=1e-6, atol=1e-8):
            ctx.fail("oracle", "options:solve:zero-rhs-broadcast", {"method": meth if isinstance(meth, str) else "<callable>", "A": [2, 3, 3], "B": "zeros (3, 1)"},
                     {"X_shape": list(Xz.shape), "grad_B": None if gB is None else gB.tolist()}, {"X_shape": [2, 3, 1], "grad_B": ref_gB.tolist()})


def round5_contract(ctx):
    """mcquad with a caller-supplied sampler: the sampler is called with (log_pfcn, x0, pparams, **options) where pparams are the
    CALLER's pparams - also when the integrand is a method of an object with parameters of its own, or the density is
    (round-5 seed C18/13: the split of the flattened parameter list dropped the offset of the integrand's object parameters, the
    sampler received the integrand's object parameter in place of pparams)"""
    import xitorch as xt
    from xitorch.integrate import mcquad

    class Fn(xt.EditableModule):
        def __init__(self, a):
            self.a = a

        def f(self, x, *extra):
            return torch.exp(-x * x / (2 * self.a * self.a)) * (extra[0] if extra else 1.0)

        def logp(self, x, *extra):
            return -x * x / (2 * self.a * self.a) * (extra[0] if extra else 1.0)

        def getparamnames(self, methodname, prefix=""):
            return [prefix + "a"]
    a = torch.tensor(0.3, dtype=DT, requires_grad=True)
    b = torch.tensor(0.7, dtype=DT, requires_grad=True)
    w = torch.tensor(1.2, dtype=DT, requires_grad=True)
    s = torch.tensor(1.5, dtype=DT, requires_grad=True)
    x0 = torch.tensor(0.0, dtype=DT)
    seen = {}

    def sampler(log_pfcn, x0, pparams, ngrid=11, **unused):
        seen["pparams"] = [p.detach().clone() for p in pparams]
        seen["grad"] = torch.is_grad_enabled()
        seen["ngrid"] = ngrid
        xs = torch.linspace(-2.0, 2.0, ngrid, dtype=x0.dtype)
        lp = torch.stack([log_pfcn(x, *pparams) for x in xs])
        ws = torch.exp(lp - lp.max())
        return xs, ws / ws.sum()
    plain_f = lambda x, c: torch.exp(-x * x) * c
    plain_lp = lambda x, c: -x * x / (2 * c * c)
    combos = [("integrand-method+explicit-pparams", Fn(a).f, plain_lp, [], [w], [w]),
              ("integrand-method-with-fparams+explicit-pparams", Fn(a).f, plain_lp, [s], [w], [w]),
              ("density-method+explicit-fparams", plain_f, Fn(b).logp, [s], [], []),
              ("both-methods+both-explicit", Fn(a).f, Fn(b).logp, [s], [w], [w])]
    for name, ff, lp, fparams, pparams, want in combos:
        seen.clear()
        ctx.count(("mcquad-custom-sampler-arguments", name), nontrivial=True)
        try:
            with warnings.catch_warnings():
                warnings.simplefilter("ignore")
                res = mcquad(ff, lp, x0, fparams=fparams, pparams=pparams, method=sampler, ngrid=9)
        except Exception as e:
            ctx.fail("oracle", "dispatch:mcquad:custom-sampler:exception", {"case": name}, repr(e)[:300], "the sampler is called and its samples are used")
            continue
        got = seen.get("pparams")
        info = {"case": name, "fparams": [float(t.detach()) for t in fparams], "pparams": [float(t.detach()) for t in pparams]}
        if got is None or len(got) != len(want) or any(float(g) != float(t.detach()) for g, t in zip(got, want)) or seen.get("grad") or seen.get("ngrid") != 9:
            ctx.fail("oracle", "dispatch:mcquad:custom-sampler:arguments", info,
                     {"pparams_seen": None if got is None else [float(g) for g in got], "grad_enabled": seen.get("grad"), "ngrid": seen.get("ngrid")},
                     "pparams = the caller's pparams, no gradient recording, the caller's options")
            continue
        with torch.no_grad():
            xs, ws = sampler(lp, x0, [t.detach() for t in pparams], ngrid=9)
            ref = sum(ff(x, *[t.detach() for t in fparams]) * wi for x, wi in zip(xs, ws))
        if not torch.allclose(res.detach(), ref, rtol=1e-12, atol=1e-14):
            ctx.fail("oracle", "dispatch:mcquad:custom-sampler:value", info, {"got": float(res), "weighted_sum_of_the_samples": float(ref)}, "equal")


def search(ctx):
    """a broken dispatch tie is itself observable on the implementation: names that should run but raise"""
    import xitorch as xt
    from xitorch.linalg import solve, symeig
    from xitorch.optimize import rootfinder, equilibrium, minimize
    from xitorch.integrate import solve_ivp, quad, SQuad
    from xitorch.interpolate import Interp1D
    import translate_methods
    try:
        tables, defaults, docs = translate_methods.reflect_tables()
    except Exception:
        return
    a = torch.tensor([0.3, 0.2], dtype=DT)
    y0 = torch.tensor([0.25, -0.5], dtype=DT)
    f = lambda y, a: 0.5 * torch.cos(y) * a + 0.1
    ts = torch.linspace(0, 1, 3, dtype=DT)
    xs = torch.linspace(0, 1, 6, dtype=DT)
    A = make_linop(xt, torch.eye(6, dtype=DT) * 2, herm=True)
    probes = {
        "solve": (["solve"], lambda m: solve(A, torch.ones(6, 1, dtype=DT), method=m), ["exactsolve"]),
        "symeig": (["symeig"], lambda m: symeig(xt.LinearOperator.m(torch.eye(3, dtype=DT), True), neig=1, method=m), ["exacteig"]),
        "rootfinder": (["alg_rootfinder"], lambda m: rootfinder(f, y0, params=(a,), method=m), []),
        "equilibrium": (["alg_rootfinder", "alg_equilibrium"], lambda m: equilibrium(f, y0, params=(a,), method=m), []),
        "solve_ivp": (["solve_ivp"], lambda m: solve_ivp(lambda t, y, a: -a * y, ts, y0, params=(a,), method=m), []),
        "quad": (["quad"], lambda m: quad(lambda x, a: torch.exp(-a * x), 0.0, 1.0, params=(a,), method=m), []),
        "interp1d": (["interp1d"], lambda m: Interp1D(xs, xs ** 2, method=m), []),
        "squad": (["squad"], lambda m: SQuad(xs, method=m), []),
    }
    for fnl, (tnames, call, extra) in probes.items():
        names = [k for t in tnames for k, _ in tables[t]] + extra
        for nme in names:
            if nme in ("scipy_gmres",):
                continue
            for variant in (nme, nme.upper(), nme.capitalize()):
                try:
                    with warnings.catch_warnings():
                        warnings.simplefilter("ignore")
                        call(variant)
                except RuntimeError as e:
                    if "Unknown" in str(e):
                        ctx.fail("oracle", "dispatch:%s:%s" % (fnl, repr(variant)), {"functional": fnl, "method": variant},
                                 "RuntimeError: " + str(e)[:100], "names are matched case-insensitively")
                except Exception:
                    pass
        for bad in ("nonsense", "rk5x"):
            try:
                with warnings.catch_warnings():
                    warnings.simplefilter("ignore")
                    call(bad)
                ctx.fail("oracle", "dispatch:%s:unknown-accepted" % fnl, {"functional": fnl, "method": bad},
                         "no error", "an unknown name is rejected with an error")
            except Exception:
                pass

"""C05 — symeig and svd return the requested, correctly normalised spectral pairs.

Tie (model vs implementation): Model/Symeig.v evaluated at IEEE binary64 (real) and at complex binary64.
  The LAPACK calls made by the implementation (eigh, cholesky, inverse) and the random initial guess of
  davidson are spied; their answers are the oracle tape of the model.  Compared, per call:
  - exacteig / custom_exacteig (with and without M, real and complex, batched element-wise): the argument the
    model would pass to eigh vs. the argument eigh received (2^-36), the returned values (bit-exact: a slice)
    and vectors (bit-exact without M, 2^-36 with M); the oracle answers themselves are checked against their
    specifications (L L^H = M, Linv L = I, A2 Y = Y diag e, Y^H Y = I, ascending), and the property
    (A X = M X diag e, X^H M X = I, ascending) is evaluated by the Coq checker on the returned pairs;
  - svd (dense path): the symmetrised operator, s (bit-exact), u and vh;
  - davidson (real, unbatched): every Rayleigh matrix, every argument of cholesky, the exit taken, the
    number of iterations, the returned pair; runs with a thin decision (2^-8) are skipped and counted.
Oracle (implementation only): methods x {M absent, M} x operator kinds (dense, matrix-free) x batch patterns x
  neig x modes x spectra (separated, clustered, exactly degenerate, mixed sign, planted) x {float64,
  complex128 dense}: shapes, A X = M X diag(e), X^H M X = I, ascending, values equal to the extreme values of
  a dense reference; svd on tall / wide / square operators: orthonormal factors, s >= 0 and extreme,
  A v = s u, reconstruction for full k."""
from __future__ import annotations
import sys, warnings, contextlib
import torch
from vlib import cnat, clist, cbool, cfloat, coq_nat_cases, load_findings

RULE = ("tie: n in 1..6 (exacteig/svd), 2..8 (davidson) x {M absent, M} x neig 0..n x {lowest, uppest} x {float64, complex128} x "
        "batch {(), (2,)}; distinct = (path, A, M, neig, mode, options); non-trivial = n >= 2. Oracle: methods {exacteig, "
        "custom_exacteig, davidson} x operator kinds x batch patterns x spectra x dtypes; svd shapes tall/wide/square")
TRUSTED = ["harness tools/props/c05.py (spies on torch.linalg.eigh / cholesky / torch.inverse / randn)",
           "torch.linalg.eigh, cholesky, inverse: oracles whose answers are checked against their specifications on every case",
           "convergence of davidson in floating point is exercised by the oracle, not proved"]
ASSUMPTIONS = ["davidson: the complex case is outside the property's quantifier (the code transposes without conjugating)",
               "the MathComp theorems and the list model share formulas by construction; the list model is what is executed"]
HEADER = ("From Coq Require Import List PrimFloat.\nImport ListNotations.\n"
          "From XV Require Import Base.Ops Base.Cplx Base.LinAlg Model.Symeig Model.SymeigRun.\n")
DT = torch.float64
CT = torch.complex128
TOL = "0x1p-36"
TOLD = "0x1p-20"


# ---------------------------------------------------------------- encoders
def enc_s(x, cplx):
    if cplx:
        z = complex(x)
        return "(%s, %s)" % (cfloat(z.real), cfloat(z.imag))
    return cfloat(float(x))


def enc_v(v, cplx):
    return clist([enc_s(x, cplx) for x in v.tolist()])


def enc_m(m, cplx):
    if m.numel() == 0 and m.dim() == 2 and m.shape[0] > 0:
        return clist(["[]"] * m.shape[0])
    return clist([clist([enc_s(x, cplx) for x in r]) for r in m.tolist()])


def inst(cplx):
    return "Cops cconj cmag" if cplx else "Fops (fun x => x) PrimFloat.abs"


# ---------------------------------------------------------------- spies
@contextlib.contextmanager
def spy():
    tape = []
    o_eigh, o_chol, o_inv = torch.linalg.eigh, torch.linalg.cholesky, torch.inverse
    o_randn, o_rand, o_eye = torch.randn, torch.rand, torch.eye

    def w(name, f):
        def g(*a, **k):
            try:
                out = f(*a, **k)
            except Exception:
                tape.append((name + "!", a[0].detach().clone() if a and isinstance(a[0], torch.Tensor) else None, None))
                raise
            rec = tuple(t.detach().clone() for t in out) if isinstance(out, tuple) else out.detach().clone()
            arg = a[0].detach().clone() if a and isinstance(a[0], torch.Tensor) else None
            tape.append((name, arg, rec))
            return out
        return g
    torch.linalg.eigh, torch.linalg.cholesky, torch.inverse = w("eigh", o_eigh), w("chol", o_chol), w("inv", o_inv)
    torch.randn, torch.rand, torch.eye = w("raw", o_randn), w("raw", o_rand), w("raw", o_eye)
    try:
        yield tape
    finally:
        torch.linalg.eigh, torch.linalg.cholesky, torch.inverse = o_eigh, o_chol, o_inv
        torch.randn, torch.rand, torch.eye = o_randn, o_rand, o_eye


# ---------------------------------------------------------------- generators
def gen(rng):
    return torch.Generator().manual_seed(rng.randrange(10 ** 9))


def rsym(g, n, batch=(), dtype=DT):
    a = torch.randn(*batch, n, n, dtype=dtype, generator=g)
    return (a + a.transpose(-2, -1).conj()) / 2


def rspd(g, n, batch=(), dtype=DT):
    a = torch.randn(*batch, n, n, dtype=dtype, generator=g) * 0.4
    return a @ a.transpose(-2, -1).conj() + torch.eye(n, dtype=dtype)


def planted(g, n, evals, batch=(), dtype=DT, withM=False):
    """A (and M) with the given generalised spectrum"""
    q, _ = torch.linalg.qr(torch.randn(*batch, n, n, dtype=dtype, generator=g))
    a2 = q @ torch.diag_embed(evals.to(dtype).expand(*batch, n)) @ q.transpose(-2, -1).conj()
    a2 = (a2 + a2.transpose(-2, -1).conj()) / 2
    if not withM:
        return a2, None
    l = torch.tril(torch.randn(n, n, dtype=dtype, generator=g)) * 0.3
    l = l - torch.diag_embed(torch.diagonal(l)) + torch.eye(n, dtype=dtype) * 1.5
    m = l @ l.transpose(-2, -1).conj()
    a = l @ a2 @ l.transpose(-2, -1).conj()
    return (a + a.transpose(-2, -1).conj()) / 2, (m + m.transpose(-2, -1).conj()) / 2


SPECTRA = {
    "degenerate": lambda n: torch.tensor([1.0, 1.0, 2.0, 3.0, 3.0, 3.0, 5.0, 5.0][:n]),
    "mixed-sign-degenerate": lambda n: torch.tensor([-3.0, -1.0, -1.0, 0.0, 2.0, 2.0, 4.0, 7.0][:n]),
    "clustered": lambda n: torch.tensor([1.0, 1 + 1e-9, 1 + 2e-9, 2.0, 3.0, 4.0, 5.0, 5 + 1e-10][:n]),
    "separated": lambda n: torch.linspace(-2.0, 3.0, n),
    # a degenerate eigenvalue AT ZERO: thresholds that are relative to |e| do not see it (seeded defect C06/2)
    "degenerate-at-zero": lambda n: torch.tensor([0.0, 0.0, 0.0, 1.0, 2.0, 2.0, 3.0, 4.0][:n]),
}


def mf_class():
    import xitorch as xt

    class MF(xt.LinearOperator):
        """matrix-free Hermitian operator (only _mv)"""
        def __init__(self, a):
            super().__init__(shape=a.shape, is_hermitian=True, dtype=a.dtype, device=a.device)
            self.a = a

        def _mv(self, x):
            return (self.a @ x.unsqueeze(-1)).squeeze(-1)

        def _getparamnames(self, prefix=""):
            return [prefix + "a"]
    return MF


# ---------------------------------------------------------------- ties
def tie_exact(ctx, cases, meta):
    import xitorch as xt
    from xitorch.linalg import symeig
    rng = ctx.rng
    for rep in range(ctx.n(60, 400)):
        g = gen(rng)
        cplx = rng.random() < 0.35
        dtype = CT if cplx else DT
        n = rng.randrange(1, 7)
        useM = rng.random() < 0.5
        mode = rng.choice(["lowest", "uppest", "uppermost", "Lowest", "UPPEST"])
        lowest = mode.lower() == "lowest"
        neig = rng.choice([None] + list(range(0 if lowest else 1, n + 1)) + [n])
        ba, bm = rng.choice([((), ()), ((), ()), ((2,), ()), ((), (2,)), ((2,), (2,))])
        if rng.random() < 0.3:
            A, M = planted(g, n, SPECTRA[rng.choice(list(SPECTRA))](n) if n <= 8 else None, ba, dtype, useM)
            if useM and bm:
                M = M.expand(*bm, n, n).clone()
        else:
            A = rsym(g, n, ba, dtype)
            M = rspd(g, n, bm, dtype) if useM else None
        method = rng.choice(["exacteig", "custom_exacteig", None])
        Aop = xt.LinearOperator.m(A, is_hermitian=True)
        Mop = xt.LinearOperator.m(M, is_hermitian=True) if useM else None
        info = {"path": "exacteig", "n": n, "complex": cplx, "M": useM, "mode": mode, "neig": neig, "method": method,
                "batch_A": list(ba), "batch_M": list(bm) if useM else None, "A": A.tolist() if not cplx else str(A.tolist()),
                "Mmat": (M.tolist() if not cplx else str(M.tolist())) if useM else None}
        try:
            with spy() as tape, torch.no_grad():
                e, X = symeig(Aop, neig, mode, Mop, method=method)
        except Exception as ex:
            ctx.fail("oracle", "symeig:exception", info, repr(ex)[:300], "eigenpairs")
            continue
        names = [t[0] for t in tape if t[0] != "raw"]
        want = (["chol", "inv"] if useM else []) + ["eigh"]
        if names != want:
            ctx.broken("correspondence:exacteig", {"case": info, "lapack_calls": names, "model_expects": want})
            continue
        tp = {t[0]: t for t in tape}
        bs = tuple(torch.broadcast_shapes(ba, bm if useM else ()))
        k = n if neig is None else neig
        nb = 1
        for d in bs:
            nb *= d

        def el(t, shape_tail, i):
            return t.expand(*bs, *shape_tail).reshape(nb, *shape_tail)[i]
        if tuple(e.shape[:-1]) != bs or tuple(X.shape[:-2]) != bs:
            ctx.fail("oracle", "symeig:shape", info, [list(e.shape), list(X.shape)], "batch %s" % (list(bs),))
            continue
        for i in range(nb):
            Ai = el(A, (n, n), i)
            Mi = el(M, (n, n), i) if useM else torch.zeros(0, 0, dtype=dtype)
            Li = el(tp["chol"][2], (n, n), i) if useM else torch.zeros(0, 0, dtype=dtype)
            Linv = el(tp["inv"][2], (n, n), i) if useM else torch.zeros(0, 0, dtype=dtype)
            A2 = el(tp["eigh"][1], (n, n), i)
            ev = el(tp["eigh"][2][0], (n,), i)
            Y = el(tp["eigh"][2][1], (n, n), i)
            ke = e.shape[-1]
            term = "exact_code %s %s %s %s %d %s %s %s %s (%s, %s) %s %s %s" % (
                inst(cplx), TOL, cbool(useM), cbool(lowest), k, enc_m(Ai, cplx), enc_m(Mi, cplx), enc_m(Li, cplx),
                enc_m(Linv, cplx), enc_v(ev.to(dtype), cplx), enc_m(Y, cplx), enc_m(A2, cplx),
                enc_v(el(e, (ke,), i).to(dtype), cplx), enc_m(el(X, (n, ke), i), cplx))
            cases.append(term)
            meta.append(dict(info, element=i))
        ctx.count(("exact", rep, n, cplx, useM, mode, neig), nontrivial=n >= 2)
        ctx.stat("tie_exacteig")
        if len(ctx.coverage["samples"]) < 2:
            ctx.sample({k_: info[k_] for k_ in ("path", "n", "complex", "M", "mode", "neig", "method")})


def tie_svd(ctx, cases, meta):
    import xitorch as xt
    from xitorch.linalg import svd
    rng = ctx.rng
    for rep in range(ctx.n(30, 200)):
        g = gen(rng)
        cplx = rng.random() < 0.35
        dtype = CT if cplx else DT
        m, n = rng.randrange(1, 6), rng.randrange(1, 6)
        mn = min(m, n)
        mode = rng.choice(["uppest", "lowest", "uppermost"])
        lowest = mode == "lowest"
        k = rng.choice([None] + list(range(1, mn + 1)))
        A = torch.randn(m, n, dtype=dtype, generator=g)
        info = {"path": "svd", "m": m, "n": n, "complex": cplx, "mode": mode, "k": k, "A": str(A.tolist())}
        try:
            with spy() as tape, torch.no_grad():
                u, s, vh = svd(xt.LinearOperator.m(A), k, mode, method=rng.choice(["exacteig", "custom_exacteig", None]))
        except Exception as ex:
            ctx.fail("oracle", "svd:exception", info, repr(ex)[:300], "singular triplets")
            continue
        eg = [t for t in tape if t[0] == "eigh"]
        if len(eg) != 1 or [t[0] for t in tape if t[0] != "raw"] != ["eigh"]:
            ctx.broken("correspondence:svd", {"case": info, "lapack_calls": [t[0] for t in tape]})
            continue
        kk = mn if k is None else k
        term = "svd_code %s %s %s %d %d %s (take_eigpairs %s %d (%s, %s)) %s %s %s %s" % (
            inst(cplx), TOL, enc_s(1e-12, cplx), m, n, enc_m(A, cplx), cbool(lowest), kk,
            enc_v(eg[0][2][0].to(dtype), cplx), enc_m(eg[0][2][1], cplx), enc_m(eg[0][1], cplx),
            enc_m(u, cplx), enc_v(s.to(dtype), cplx), enc_m(vh, cplx))
        cases.append(term)
        meta.append(info)
        ctx.count(("svd", rep, m, n, cplx, mode, k), nontrivial=mn >= 2)
        ctx.stat("tie_svd")


def tie_davidson(ctx, cases, meta, exits):
    import xitorch as xt
    from xitorch.linalg import symeig
    rng = ctx.rng
    for rep in range(ctx.n(40, 300)):
        g = gen(rng)
        n = rng.randrange(2, 9)
        neig = rng.randrange(1, min(n, 3) + 1)
        useM = rng.random() < 0.5
        mode = rng.choice(["lowest", "uppest"])
        v_init = rng.choice(["randn", "rand", "eye", "RandN"])
        min_eps = rng.choice([1e-6, 1e-6, 1e-3, 1e-9])
        max_niter = rng.choice([1000, 1000, 1000, 1, 2, 3])
        if rng.random() < 0.3:
            A, M = planted(g, n, SPECTRA[rng.choice(list(SPECTRA))](n), (), DT, useM)
        else:
            A, M = rsym(g, n), (rspd(g, n) if useM else None)
        Aop = xt.LinearOperator.m(A, is_hermitian=True)
        Mop = xt.LinearOperator.m(M, is_hermitian=True) if useM else None
        info = {"path": "davidson", "n": n, "neig": neig, "M": useM, "mode": mode, "v_init": v_init, "min_eps": min_eps,
                "max_niter": max_niter, "A": A.tolist(), "Mmat": M.tolist() if useM else None}
        try:
            with spy() as tape, torch.no_grad():
                e, X = symeig(Aop, neig, mode, Mop, method="davidson", v_init=v_init, min_eps=min_eps, max_niter=max_niter)
        except Exception as ex:
            ctx.stat("davidson_raised:" + type(ex).__name__)
            info["exception"] = repr(ex)[:200]
            ctx.notes.setdefault("davidson_exceptions", []).append({k_: info[k_] for k_ in ("n", "neig", "M", "mode", "v_init", "exception")})
            continue
        raws = [t for t in tape if t[0] == "raw"]
        rest = [t for t in tape if t[0] != "raw"]
        if not raws or [t[0] for t in rest[:2]] != ["chol", "inv"]:
            ctx.broken("correspondence:davidson", {"case": info, "calls": [t[0] for t in tape][:12]})
            continue
        Vraw = raws[0][2]
        if Vraw.dim() == 3:          # eye(...).unsqueeze(0).repeat(...) happens after the spied call
            Vraw = Vraw[0]
        chol0_arg, C0, Rinv0 = rest[0][1], rest[0][2], rest[1][2]
        items, Ts, chol_args = [], [], []
        i, okseq = 2, True
        while i < len(rest):
            if rest[i][0] != "eigh":
                okseq = False
                break
            Ts.append(rest[i][1])
            eo = rest[i][2]
            if i + 2 < len(rest) + 0 and i + 1 < len(rest) and rest[i + 1][0] == "chol":
                if i + 2 >= len(rest) or rest[i + 2][0] != "inv":
                    okseq = False
                    break
                chol_args.append(rest[i + 1][1])
                items.append("mkTape (%s, %s) %s %s" % (enc_v(eo[0], False), enc_m(eo[1], False), enc_m(rest[i + 1][2], False), enc_m(rest[i + 2][2], False)))
                i += 3
            else:
                items.append("mkTape (%s, %s) [] []" % (enc_v(eo[0], False), enc_m(eo[1], False)))
                i += 1
        if not okseq:
            ctx.broken("correspondence:davidson", {"case": info, "calls": [t[0] for t in tape][:20]})
            continue
        Mz = M if useM else torch.zeros(0, 0, dtype=DT)
        args = "%d %s %d %s %s %s %s %s %s %s %s" % (
            max_niter, cbool(mode == "lowest"), neig, cbool(useM), enc_m(A, False), enc_m(Mz, False), cfloat(min_eps),
            enc_m(Vraw, False), enc_m(C0, False), enc_m(Rinv0, False), clist(items))
        cases.append("dav_code %s %s %s %s %s %s %s" % (
            TOLD, args, enc_m(chol0_arg, False), clist([enc_m(t, False) for t in Ts]),
            clist([enc_m(t, False) for t in chol_args]), enc_v(e, False), enc_m(X, False)))
        exits.append("dav_exit_of %s" % args)
        info["iterations"] = len(Ts)
        meta.append(info)
        ctx.count(("davidson", rep, n, neig, useM, mode, v_init, min_eps, max_niter), nontrivial=True)
        ctx.stat("tie_davidson")


def check(ctx):
    cases, meta = [], []
    tie_exact(ctx, cases, meta)
    tie_svd(ctx, cases, meta)
    n_dense = len(cases)
    exits = []
    tie_davidson(ctx, cases, meta, exits)
    res, errors = coq_nat_cases("c05", HEADER, cases, chunk=12)
    for e_ in errors:
        ctx.broken("correspondence:symeig", e_)
    skipped = 0
    nbad = 0
    for i, r in enumerate(res):
        if r is None:
            continue
        if r == 1:
            ctx.coverage["traces_validated_against_impl"] += 1
        elif r == 2:
            skipped += 1
        else:
            nbad += 1
            if nbad <= 3:
                ctx.broken("correspondence:%s" % meta[i]["path"], {"case": meta[i], "code": r,
                           "bits": "1 oracle-answers / chol0-arg, 2 eigh-arg / T, 4 values / chol-arg, 8 vectors / values, 16 property / vectors, 32 exit"})
    ctx.notes["davidson_skipped_thin_decision"] = skipped
    # distribution of davidson exits (1xxx residual test, 2xxx full subspace, 3xxx max_niter; xxx = iterations)
    if exits:
        ex, err2 = coq_nat_cases("c05x", HEADER, exits, chunk=12)
        dist = {}
        for i, v in enumerate(ex):
            if v is None:
                continue
            nm = {1: "residual", 2: "full-subspace", 3: "max_niter", 4: "tape"}[v // 1000]
            dist[nm] = dist.get(nm, 0) + 1
            want_iters = meta[n_dense + i]["iterations"]
            if v // 1000 != 4 and v % 1000 != want_iters and res[n_dense + i] not in (2, None):
                ctx.broken("correspondence:davidson-iterations", {"case": meta[n_dense + i], "model": v % 1000, "impl": want_iters})
        ctx.notes["davidson_exit_distribution"] = dist
    oracle(ctx)


# ---------------------------------------------------------------- oracle
def check_pairs(ctx, info, A, M, e, X, neig, lowest, key, tol=1e-6):
    n = A.shape[-1]
    dtype = A.dtype
    bs = tuple(torch.broadcast_shapes(A.shape[:-2], M.shape[:-2] if M is not None else ()))
    if tuple(e.shape) != (*bs, neig) or tuple(X.shape) != (*bs, n, neig):
        ctx.fail("oracle", key + ":shape", info, [list(e.shape), list(X.shape)], [list(bs) + [neig], list(bs) + [n, neig]])
        return
    if e.dtype != (torch.float64 if dtype in (DT, CT) else e.dtype) or X.dtype != dtype:
        ctx.fail("oracle", key + ":dtype", info, [str(e.dtype), str(X.dtype)], str(dtype))
    if M is not None:
        L = torch.linalg.cholesky(M)
        Li = torch.inverse(L)
        A2 = Li @ A @ Li.transpose(-2, -1).conj()
    else:
        A2 = A
    er = torch.linalg.eigvalsh(A2)
    er = er[..., :neig] if lowest else er[..., n - neig:]
    scale = 1 + A2.abs().max().item()
    MX = M @ X if M is not None else X
    obs = {"values_vs_dense": (e - er).abs().max().item() if neig else 0.0,
           "residual": (A @ X - MX * e.unsqueeze(-2).to(dtype)).abs().max().item() if neig else 0.0,
           "orthonormality": (X.transpose(-2, -1).conj() @ MX - torch.eye(neig, dtype=dtype)).abs().max().item() if neig else 0.0,
           "ascending": bool((e[..., 1:] >= e[..., :-1] - 1e-12).all())}
    for nm in ("values_vs_dense", "residual", "orthonormality"):
        if not obs[nm] <= tol * scale:
            ctx.fail("oracle", key + ":" + nm, info, obs, "<= %g" % (tol * scale))
            return
    if not obs["ascending"]:
        ctx.fail("oracle", key + ":order", info, e.tolist(), "ascending")


def oracle(ctx):
    import xitorch as xt
    from xitorch.linalg import symeig, svd
    MF = mf_class()
    rng = ctx.rng
    # ---- symeig ----
    for rep in range(ctx.n(90, 700)):
        g = gen(rng)
        method = rng.choice(["exacteig", "custom_exacteig", "davidson", "davidson"])
        cplx = method != "davidson" and rng.random() < 0.3
        dtype = CT if cplx else DT
        n = rng.choice([1, 2, 3, 4, 5, 6, 8, 12, 30]) if method == "davidson" else rng.randrange(1, 9)
        useM = rng.random() < 0.5
        kind = rng.choice(["dense", "mf"])
        mode = rng.choice(["lowest", "uppest", "uppermost"])
        lowest = mode == "lowest"
        neig = rng.choice([1, 2, 3, n, max(1, n // 2)])
        neig = min(neig, n)
        ba, bm = rng.choice([((), ()), ((), ()), ((2,), ()), ((), (2,)), ((2, 1), (3,)), ((3,), (3,))])
        fam = rng.choice(["random", "random"] + list(SPECTRA))
        if fam == "random" or n > 8:
            fam = "random"
            A = rsym(g, n, ba, dtype)
            M = rspd(g, n, bm, dtype) if useM else None
        else:
            A, M = planted(g, n, SPECTRA[fam](n), ba, dtype, useM)
            if useM and bm:
                M = M.expand(*bm, n, n).clone()
        if method == "davidson" and fam == "clustered":
            fam = "clustered(davidson: values and residual only to 1e-5)"
        mk = (lambda t: xt.LinearOperator.m(t, is_hermitian=True)) if kind == "dense" else MF
        info = {"fn": "symeig", "method": method, "n": n, "neig": neig, "mode": mode, "M": useM, "kind": kind, "complex": cplx,
                "batch_A": list(ba), "batch_M": list(bm) if useM else None, "family": fam, "generator_seed": g.initial_seed()}
        ctx.count(("symeig", rep, method, n, neig, mode, useM, kind, cplx, fam), nontrivial=n >= 2)
        try:
            with warnings.catch_warnings():
                warnings.simplefilter("ignore")
                with spy() as tape, torch.no_grad():
                    e, X = symeig(mk(A), neig, mode, mk(M) if useM else None, method=method)
        except Exception as ex:
            # F27: a Ritz pair that is already exact (or two residuals that are parallel) leaves a new direction that is
            # rounding noise; tallqr then asks cholesky to factor a numerically singular Gram matrix (smallest
            # eigenvalue < 1e-10 against 1 for the old directions).  Classified by the spied argument.
            last = tape[-1] if tape else None
            if method == "davidson" and last is not None and last[0] == "chol!" and "positive-definite" in str(ex) \
                    and torch.linalg.eigvalsh((last[1] + last[1].transpose(-2, -1)) / 2).min().item() < 1e-10:
                ctx.fail("oracle", "symeig:davidson:cholesky-of-noise-direction", info, repr(ex)[:300], "eigenpairs")
            else:
                ctx.fail("oracle", "symeig:%s:exception" % method, info, repr(ex)[:300], "eigenpairs")
            continue
        check_pairs(ctx, info, A, M, e, X, neig, lowest, "symeig:%s" % method, tol=1e-5 if method == "davidson" else 1e-8)
    # ---- svd ----
    for rep in range(ctx.n(40, 300)):
        g = gen(rng)
        method = rng.choice(["exacteig", "custom_exacteig", "davidson"])
        cplx = method != "davidson" and rng.random() < 0.3
        dtype = CT if cplx else DT
        m, n = rng.choice([(5, 3), (3, 5), (4, 4), (1, 4), (4, 1), (7, 2), (2, 6), (6, 6)])
        batch = rng.choice([(), (), (2,), (2, 3)])
        mode = rng.choice(["uppest", "lowest", "uppermost"])
        mn = min(m, n)
        k = rng.choice([1, mn, max(1, mn - 1)])
        # overall scale of the operator (dense paths only: davidson's stopping thresholds are absolute): the factors and the
        # relative accuracy of s must not depend on it (seeded C05/7, C06/7: eigenvalues of A^H A clamped at 1e-12)
        amp = rng.choice([1.0, 1.0, 1e-4, 1e-8, 1e3]) if method != "davidson" else 1.0
        A = amp * torch.randn(*batch, m, n, dtype=dtype, generator=g)
        info = {"fn": "svd", "method": method, "m": m, "n": n, "k": k, "mode": mode, "batch": list(batch), "complex": cplx,
                "generator_seed": g.initial_seed(), "A": "%g * randn" % amp}
        ctx.count(("svd", rep, method, m, n, k, mode, batch, cplx), nontrivial=mn >= 2)
        try:
            with warnings.catch_warnings():
                warnings.simplefilter("ignore")
                with torch.no_grad():
                    u, s, vh = svd(xt.LinearOperator.m(A), k, mode, method=method)
        except Exception as ex:
            ctx.fail("oracle", "svd:%s:exception" % method, info, repr(ex)[:300], "singular triplets")
            continue
        check_svd(ctx, info, A, u, s, vh, k, mode == "lowest", "svd:%s" % method, 1e-5 if method == "davidson" else 1e-8,
                  relative=amp != 1.0)
    # svd of matrix-free operators (only the forward product, or forward and adjoint products): the products A^H A / A A^H are then
    # composed operators (round-4 seed C05/11: the order of the factors in the product's forward application)
    class MF(xt.LinearOperator):
        def __init__(self, m_, with_rmv):
            super().__init__(shape=m_.shape, is_hermitian=False, dtype=m_.dtype, device=m_.device)
            self.m_ = m_
            self.with_rmv = with_rmv

        def _mv(self, x):
            return torch.matmul(self.m_, x.unsqueeze(-1)).squeeze(-1)

        def _getparamnames(self, prefix=""):
            return [prefix + "m_"]

    class MFR(MF):
        def _rmv(self, x):
            return torch.matmul(self.m_.transpose(-2, -1).conj(), x.unsqueeze(-1)).squeeze(-1)
    for rep in range(ctx.n(8, 60)):
        g = gen(rng)
        m, n = [(4, 4), (5, 3), (3, 5), (6, 6), (2, 4), (3, 3), (5, 5), (4, 2)][rep % 8]
        cls_ = MFR if rep % 2 else MF
        method = ["exacteig", "custom_exacteig", "davidson"][rep % 3]
        mn = min(m, n)
        k = mn if rep % 4 < 2 else max(1, mn - 1)
        mode = "uppest" if rep % 3 else "lowest"
        A = torch.randn(m, n, dtype=DT, generator=g)
        info = {"fn": "svd", "operator": "matrix-free (%s)" % ("_mv and _rmv" if cls_ is MFR else "_mv only"), "method": method, "m": m, "n": n, "k": k, "mode": mode,
                "generator_seed": g.initial_seed()}
        ctx.count(("svd-matrix-free", rep, method, m, n, k, mode), nontrivial=True)
        try:
            with warnings.catch_warnings():
                warnings.simplefilter("ignore")
                u, s_, vh = svd(cls_(A, cls_ is MFR), k, mode, method=method, **({"min_eps": 1e-10} if method == "davidson" else {}))
        except Exception as ex:
            ctx.fail("oracle", "svd:matrix-free:%s:exception" % method, info, repr(ex)[:300], "singular triplets")
            continue
        check_svd(ctx, info, A, u.detach(), s_.detach(), vh.detach(), k, mode == "lowest", "svd:matrix-free:%s" % method, 1e-5 if method == "davidson" else 1e-8)
    known_svd_rank_deficient(ctx)
    operator_reuse_probe(ctx)
    slow_convergence_probe(ctx)


def operator_reuse_probe(ctx):
    """ONE operator object over an optimisation loop: symeig, backward, in-place update of the leaf the operator was built from,
    symeig again on the same object - every call returns the pairs of the operator's CURRENT matrix (round-5 seed C05/13: the
    parameter-substitution context of LinearOperator re-installed the substituted copies on exit, so the object kept the matrix of
    its first call)"""
    import xitorch as xt
    from xitorch.linalg import symeig
    MF = mf_class()
    g = torch.Generator().manual_seed(ctx.seed + 31)
    for method in ("custom_exacteig", "davidson", "exacteig"):
        for kind in ("dense", "mf"):
            for useM in (False, True):
                n, neig = 5, 2
                mat = rsym(g, n).requires_grad_()
                Mm = rspd(g, n).requires_grad_() if useM else None
                A = xt.LinearOperator.m(mat, is_hermitian=True) if kind == "dense" else MF(mat)
                M = xt.LinearOperator.m(Mm, is_hermitian=True) if useM else None
                info = {"fn": "symeig", "method": method, "operator": kind, "M": useM, "n": n, "neig": neig,
                        "sequence": "symeig; backward; in-place update of the leaf; symeig on the same object"}
                for step in range(3):
                    ctx.count(("operator-reuse", method, kind, useM, step), nontrivial=step > 0)
                    try:
                        with warnings.catch_warnings():
                            warnings.simplefilter("ignore")
                            e, X = symeig(A, neig, "lowest", M, method=method, **({"min_eps": 1e-10} if method == "davidson" else {}))
                    except Exception as ex:
                        if "positive-definite" in repr(ex):
                            ctx.stat("davidson_forward_F27")
                            break
                        ctx.fail("oracle", "symeig:operator-reuse:%s:exception" % method, dict(info, step=step), repr(ex)[:300], "pairs")
                        break
                    check_pairs(ctx, dict(info, step=step), mat.detach().clone(), Mm.detach().clone() if useM else None, e.detach(), X.detach(), neig, True,
                                "symeig:operator-reuse:%s" % method)
                    (e.sum() + (X * X).sum()).backward()
                    with torch.no_grad():
                        mat.add_(0.3 * herm_(torch.randn(n, n, dtype=DT, generator=g)))
                        if useM:
                            Mm.add_(0.05 * torch.eye(n, dtype=DT))
                    mat.grad = None


def slow_convergence_probe(ctx):
    """davidson with its DEFAULT options on a spectrum that is clustered at the requested end (1-D Laplacian, n = 500, lowest pair):
    the returned pair meets the documented residual tolerance min_eps = 1e-6 and agrees with the dense reference (round-6 seed
    C05/15: the default iteration budget was cut to a fifth; the loop ended silently far from convergence)"""
    import xitorch as xt
    from xitorch.linalg import symeig
    n = 500
    A = 2.0 * torch.eye(n, dtype=DT) - torch.diag(torch.ones(n - 1, dtype=DT), 1) - torch.diag(torch.ones(n - 1, dtype=DT), -1)
    ref = torch.linalg.eigvalsh(A)
    ctx.count(("davidson-default-budget", n), nontrivial=True)
    try:
        with warnings.catch_warnings():
            warnings.simplefilter("ignore")
            e, X = symeig(xt.LinearOperator.m(A, is_hermitian=True), neig=1, mode="lowest", method="davidson")
    except Exception as ex:
        ctx.fail("oracle", "symeig:davidson:default-budget:exception", {"n": n}, repr(ex)[:300], "the lowest pair")
        return
    res = float((A @ X - X * e).abs().max())
    rel = abs(float(e[0]) - float(ref[0])) / float(ref[1] - ref[0])
    if not (res <= 5e-6 and rel <= 1e-3):
        ctx.fail("oracle", "symeig:davidson:default-budget", {"operator": "1-D Laplacian", "n": n, "neig": 1, "options": "defaults"},
                 {"residual": res, "error_over_gap": rel, "returned": float(e[0])}, {"dense": float(ref[0]), "residual": "<= 5e-6"})


def herm_(t):
    return (t + t.transpose(-2, -1)) * 0.5


def check_svd(ctx, info, A, u, s, vh, k, lowest, key, tol, relative=False):
    m, n = A.shape[-2:]
    batch = tuple(A.shape[:-2])
    dtype = A.dtype
    if tuple(u.shape) != (*batch, m, k) or tuple(s.shape) != (*batch, k) or tuple(vh.shape) != (*batch, k, n):
        ctx.fail("oracle", key + ":shape", info, [list(u.shape), list(s.shape), list(vh.shape)], "(m,k),(k),(k,n)")
        return
    sr = torch.linalg.svdvals(A).flip(-1)
    mn = min(m, n)
    er = sr[..., :k] if lowest else sr[..., mn - k:]
    eye = torch.eye(k, dtype=dtype)
    v = vh.transpose(-2, -1).conj()
    scale = sr.max().item() if relative else 1 + sr.max().item()
    obs = {"values_vs_dense": (s - er).abs().max().item(), "min_s": s.min().item(),
           "u_orthonormal": (u.transpose(-2, -1).conj() @ u - eye).abs().max().item(),
           "v_orthonormal": (vh @ v - eye).abs().max().item(),
           "Av=su": (A @ v - u * s.unsqueeze(-2).to(dtype)).abs().max().item(),
           "reconstruct": (u @ torch.diag_embed(s.to(dtype)) @ vh - A).abs().max().item() if k == mn else 0.0}
    if obs["min_s"] < 0:
        ctx.fail("oracle", key + ":negative", info, obs, "s >= 0")
        return
    for nm in ("values_vs_dense", "u_orthonormal", "v_orthonormal", "Av=su", "reconstruct"):
        if not obs[nm] <= tol * (max(scale, 1.0) if nm.endswith("orthonormal") else scale):
            ctx.fail("oracle", key + ":" + nm, info, obs, "<= %g" % (tol * scale))
            return


def known_svd_rank_deficient(ctx):
    """F25: a zero singular value inside the requested range: the back-substituted factor u = A v / max(s, 1e-12) has a
    column that is not a unit vector"""
    import xitorch as xt
    from xitorch.linalg import svd
    g = torch.Generator().manual_seed(7)
    A = torch.randn(5, 2, dtype=DT, generator=g) @ torch.randn(2, 4, dtype=DT, generator=g)
    u, s, vh = svd(xt.LinearOperator.m(A))
    ctx.count(("svd-rank-deficient",))
    d = (u.T @ u - torch.eye(4, dtype=DT)).abs().max().item()
    if not d <= 1e-6:
        ctx.fail("oracle", "svd:rank-deficient:u-not-orthonormal", {"A": "rank-2 5x4 matrix, full k", "seed": 7},
                 {"u_orthonormal": d, "s": s.tolist()}, "orthonormal columns of u")


# ---------------------------------------------------------------- search on a broken tie
def search(ctx):
    ctx.tier = "thorough"
    oracle(ctx)

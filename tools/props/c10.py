"""C10 — functionals never leave the caller's objects modified, even on failure.

Tie (exact): Model/PureFn.v `exec` against the real PureFunction / EditableModule / torch.nn.Module /
  sibling wrappers and xitorch's debug context managers, on random well-bracketed programs with a crash
  at every evaluation index: final object store (identities), wrapper's current parameters, restore-stack
  depth, state-change permission, debug flag, whether the exception propagated, and what every evaluation
  of user code saw.
Oracle (implementation): crash-point enumeration on the public functionals: for every workload x function
  kind x {forward, backward, double backward} the user function raises at evaluation k for every k; the
  user's objects (identity, value, Parameter registration and order) and the debug flag must be unchanged."""
from __future__ import annotations
import contextlib
import io
import warnings
import torch
from vlib import cnat, clist, cbool, coq_bool_cases
import fkinds, workloads

RULE = ("(a) random programs (depth <=4, <=9 nodes) over useobjparams / disable_state_change / enable_debug / "
        "disable_debug / sequencing / evaluations on wrappers of EditableModule (aliased slots), nn.Module and "
        "siblings, each run without crash and with a crash at EVERY evaluation index; (b) 12 workloads x 8 object-holding "
        "function kinds x phases forward/backward/double-backward x every crash index (all indices when <=40 evaluations, "
        "else 40 spread indices); distinct = (program, crash index) / (workload, kind, phase, crash index); non-trivial = "
        "the crash happens while at least one substitution is active (a) / the run evaluates user code (b)")
TRUSTED = ["harness tools/props/c10.py, tools/fkinds.py (snapshot of identity/value/registration), tools/workloads.py"]
ASSUMPTIONS = ["crash points are evaluations of user code (function bodies, custom steps); asynchronous exceptions between "
               "two byte-codes are outside the quantifier",
               "the restore-stack theorems are about programs in which only the wrapper assigns the object's tensors between a "
               "substitution and its restore; a caller who assigns an attribute between a call and its backward pass is the history of "
               "finding F45, exercised by an implementation probe, not by the model"]
HEADER = "From XV Require Import Model.Packer Model.PureFn.\n"


class Interrupt(BaseException):
    """a user's exception that is not an Exception (KeyboardInterrupt-like)"""


class Boom(Exception):
    pass


def nl(xs):
    return clist([cnat(int(x)) for x in xs])


# ---------------- (a) program correspondence ----------------
def gen_prog(rng, depth, nuniq, fresh):
    r = rng.random()
    if depth == 0 or r < 0.25:
        return ("call",)
    k = rng.choice(["use", "use", "use", "seq", "seq", "disable", "debug"])
    if k == "seq":
        return ("seq", gen_prog(rng, depth - 1, nuniq, fresh), gen_prog(rng, depth - 1, nuniq, fresh))
    if k == "disable":
        return ("disable", gen_prog(rng, depth - 1, nuniq, fresh))
    if k == "debug":
        return ("debug", rng.random() < 0.5, gen_prog(rng, depth - 1, nuniq, fresh))
    mode = rng.random()
    if mode < 0.55:
        new = [fresh() for _ in range(nuniq)]
    elif mode < 0.7:
        # partial substitution: some slots get a fresh tensor, the others the object that is there now (for an nn.Module
        # that is the registered Parameter itself; seeded defect C10/3)
        new = ("mixed", [fresh() if rng.random() < 0.5 else None for _ in range(nuniq)])
    elif mode < 0.8:
        new = "current"
    elif mode < 0.9:
        new = [fresh() for _ in range(max(0, nuniq + rng.choice([-1, 1])))]      # wrong length
    else:
        new = "current-prefix"
    return ("use", new, gen_prog(rng, depth - 1, nuniq, fresh))


RESOLVED = []


def run_prog(xt, pf, getstore, p, crash, counter, trace, idof, keep):
    k = p[0]
    if k == "call":
        trace.append((getstore(), xt.is_debug_enabled()))
        n = counter[0]
        counter[0] += 1
        if crash is not None and n == crash:
            raise Boom()
    elif k == "seq":
        run_prog(xt, pf, getstore, p[1], crash, counter, trace, idof, keep)
        run_prog(xt, pf, getstore, p[2], crash, counter, trace, idof, keep)
    elif k == "disable":
        with pf.disable_state_change():
            run_prog(xt, pf, getstore, p[1], crash, counter, trace, idof, keep)
    elif k == "debug":
        with (xt.enable_debug() if p[1] else xt.disable_debug()):
            run_prog(xt, pf, getstore, p[2], crash, counter, trace, idof, keep)
    elif k == "use":
        new = p[1]
        if new == "current":
            new = list(pf.objparams())
        elif new == "current-prefix":
            new = list(pf.objparams())[:-1]
        elif isinstance(new, tuple):
            new = [f if f is not None else c for f, c in zip(new[1], list(pf.objparams()))]
        # what "current" meant at the moment this block was entered (the model gets the same list)
        RESOLVED.append((id(p), [idof[id(t)] for t in new]))
        with pf.useobjparams(new):
            run_prog(xt, pf, getstore, p[2], crash, counter, trace, idof, keep)


def prog_coq(p, resolve):
    k = p[0]
    if k == "call":
        return "PCall"
    if k == "seq":
        return "(PSeq %s %s)" % (prog_coq(p[1], resolve), prog_coq(p[2], resolve))
    if k == "disable":
        return "(PDisable %s)" % prog_coq(p[1], resolve)
    if k == "debug":
        return "(PDebug %s %s)" % (cbool(p[1]), prog_coq(p[2], resolve))
    return "(PUse %s %s)" % (nl(resolve(p[1], p)), prog_coq(p[2], resolve))


def count_calls(p):
    k = p[0]
    if k == "call":
        return 1
    if k == "seq":
        return count_calls(p[1]) + count_calls(p[2])
    return count_calls(p[-1])


def program_cases(ctx, cases, meta):
    import xitorch as xt
    from xitorch._core.pure_function import get_pure_function, make_sibling
    rng = ctx.rng
    nprog = ctx.n(60, 400)
    for pi in range(nprog):
        kind = rng.choice(["em", "em", "nn", "sibling"])
        keep = []
        idmap = {}

        def reg(t, i):
            idmap[id(t)] = i
            keep.append(t)
            return t
        if kind == "nn":
            n = rng.randrange(1, 4)
            mod = torch.nn.Module()
            for i in range(n):
                mod.register_parameter("p%d" % i, torch.nn.Parameter(torch.tensor(float(i))))
            names = ["p%d" % i for i in range(n)]
            pat = list(range(n))
            for i, nm in enumerate(names):
                reg(getattr(mod, nm), i)

            class Holder(torch.nn.Module):
                pass
            mod.forward = lambda: None
            pf = get_pure_function(mod.forward) if False else None
            # a bound method is needed: build a real subclass instance
            class M(torch.nn.Module):
                def __init__(self):
                    super().__init__()
                    for i in range(n):
                        self.register_parameter("p%d" % i, torch.nn.Parameter(torch.tensor(float(i))))

                def forward(self):
                    return None
            mod = M()
            idmap.clear()
            for i, nm in enumerate(names):
                reg(getattr(mod, nm), i)
            pf = get_pure_function(mod.forward)
            getstore = lambda: [idmap[id(getattr(mod, nm))] for nm in names]
            regsnap = lambda: [(nm, id(p), type(p).__name__) for nm, p in mod.named_parameters()]
        else:
            n = rng.randrange(1, 6)
            kk = rng.randrange(1, 4)
            pat = [rng.randrange(kk) for _ in range(n)]
            pool = {i: reg(torch.tensor(float(i)), i) for i in set(pat)}

            class EM(xt.EditableModule):
                def __init__(self):
                    self.ts = [pool[i] for i in pat]

                def run(self):
                    return None

                def getparamnames(self, methodname, prefix=""):
                    return [prefix + "ts[%d]" % i for i in range(len(self.ts))]
            em = EM()
            pf = get_pure_function(em.run)
            if kind == "sibling":
                pf = make_sibling(pf)(lambda: None)
            getstore = lambda: [idmap[id(t)] for t in em.ts]
            regsnap = lambda: None
        nuniq = len(pf.objparams())
        nxt = [100]

        def fresh():
            t = torch.tensor(float(nxt[0]))
            reg(t, nxt[0])
            nxt[0] += 1
            return t
        prog = gen_prog(rng, rng.randrange(1, 5), nuniq, fresh)
        ncalls = count_calls(prog)
        cur0 = [idmap[id(t)] for t in pf.objparams()]
        reg0 = regsnap()
        for crash in [None] + list(range(ncalls)):
            d0 = rng.random() < 0.5
            xt.set_debug_mode(d0)
            trace, counter = [], [0]
            raised = False
            try:
                run_prog(xt, pf, getstore, prog, crash, counter, trace, idmap, keep)
            except (Boom, RuntimeError, AssertionError):
                raised = True
            fstore = getstore()
            fcur = [idmap[id(t)] for t in pf.objparams()]
            fdbg = xt.is_debug_enabled()

            resolved = dict(RESOLVED)
            del RESOLVED[:]

            def resolve(new, node=None):
                if isinstance(new, tuple):
                    return resolved.get(id(node), [idmap[id(f)] if f is not None else c for f, c in zip(new[1], cur0)])
                if isinstance(new, str):
                    # blocks that were not reached in this run are not reached by the model either
                    return resolved.get(id(node), cur0 if new == "current" else cur0[:-1])
                return [idmap[id(t)] for t in new]
            cases.append("case_ok %s %s %s %s %s %s %s %s %s %s %s" % (
                nl(pat), cbool(d0), prog_coq(prog, resolve), "None" if crash is None else "(Some %d)" % crash,
                nl(fstore), nl(fcur), cnat(len(pf._restore_stack)), cbool(pf._state_change_allowed), cbool(fdbg),
                cbool(raised), clist(["(mkO %s %s)" % (nl(s), cbool(d)) for s, d in trace])))
            info = {"kind": kind, "slots": pat, "program": repr(prog_str(prog)), "crash": crash, "raised": raised}
            meta.append(info)
            ctx.count(("prog", kind, tuple(pat), prog_str(prog), crash), nontrivial=crash is not None and "use" in prog_str(prog))
            # the property itself, without the model
            if fstore != pat or fcur != cur0 or pf._restore_stack or not pf._state_change_allowed or fdbg != d0 \
                    or regsnap() != reg0:
                ctx.fail("oracle", "purefn:state-not-restored:" + kind, info,
                         {"store": fstore, "cur": fcur, "stack": len(pf._restore_stack), "dbg": fdbg, "registration": regsnap()},
                         {"store": pat, "cur": cur0, "stack": 0, "dbg": d0, "registration": reg0})
        xt.set_debug_mode(False)
        ctx.sample({"kind": kind, "slots": pat, "program": prog_str(prog), "crash_indices": ncalls}, limit=4)


def prog_str(p):
    k = p[0]
    if k == "call":
        return "call"
    if k == "seq":
        return "(%s; %s)" % (prog_str(p[1]), prog_str(p[2]))
    if k == "disable":
        return "disable{%s}" % prog_str(p[1])
    if k == "debug":
        return "debug(%s){%s}" % (p[1], prog_str(p[2]))
    new = p[1] if isinstance(p[1], str) else ("mixed" + "".join("n" if f is not None else "c" for f in p[1][1]) if isinstance(p[1], tuple)
                                              else "new%d" % len(p[1]))
    return "use(%s){%s}" % (new, prog_str(p[2]))


# ---------------- (b) crash-point enumeration on the functionals ----------------
def crash_oracle(ctx, which_workloads=None, max_k=40):
    import xitorch as xt
    for w in workloads.WORKLOADS:
        if which_workloads and w.name not in which_workloads:
            continue
        t1, t2 = workloads.leaves(0)
        tick = fkinds.Ticker()
        vs = [v for v in fkinds.variants(w.F, t1, t2, tick=tick, extra_first=w.extra_first) if v.objects]
        for v in vs:
            snap0 = fkinds.snapshot(v.objects)
            dbg0 = xt.is_debug_enabled()
            for phase in (0, 1, 2):
                # count the evaluations of this phase
                def run(crash_at):
                    tick.reset(None)
                    out = w.forward(v) if phase > 0 else None
                    n_before = tick.n
                    if phase == 0:
                        tick.reset(crash_at)
                        return w.forward(v), tick.n
                    if phase == 1:
                        tick.reset(crash_at)
                        workloads.grads(out, v.leaves, 1)
                        return None, tick.n
                    wgt = torch.cos(torch.arange(out.numel(), dtype=out.dtype)).reshape(out.shape)
                    g1 = torch.autograd.grad((out * wgt).sum(), v.leaves, create_graph=True, allow_unused=True)
                    s = sum(g.sum() for g in g1 if g is not None)
                    tick.reset(crash_at)
                    if s.requires_grad:
                        torch.autograd.grad(s, v.leaves, retain_graph=True, allow_unused=True)
                    return None, tick.n
                try:
                    _, n = run(None)
                except Exception as e:
                    ctx.fail("oracle", "crash:%s:%s:phase%d:baseline-exception" % (w.name, v.name, phase),
                             {"workload": w.name, "kind": v.name, "phase": phase}, repr(e)[:200], "no exception without a crash")
                    continue
                if fkinds.snapshot(v.objects) != snap0:
                    ctx.fail("oracle", "crash:%s:%s:phase%d:modified-without-crash" % (w.name, v.name, phase),
                             {"workload": w.name, "kind": v.name, "phase": phase}, "object changed", "object unchanged")
                    snap0 = fkinds.snapshot(v.objects)
                ks = list(range(n)) if n <= max_k else sorted(set(int(i * (n - 1) / (max_k - 1)) for i in range(max_k)))
                stop = False
                for k in ks:
                  # the user's code raises an Exception, or something that is not one (KeyboardInterrupt-like): quick alternates,
                  # thorough runs both at every crash point
                  for base in ((False, True) if ctx.thorough() else ((k + phase) % 2 == 1,)):
                    tick.base = base
                    try:
                        run(k)
                        raised = False
                    except (fkinds.Ticker.Boom, fkinds.Ticker.Interrupt):
                        raised = True
                    except Exception as e:
                        raised = True     # the user's exception may be wrapped; what matters is the state afterwards
                    finally:
                        tick.base = False
                    ctx.count(("crash", w.name, v.name, phase, k, base), nontrivial=True)
                    ctx.stat("phase%d" % phase)
                    after = fkinds.snapshot(v.objects)
                    if after != snap0 or xt.is_debug_enabled() != dbg0:
                        ctx.fail("oracle", "crash:%s:%s:phase%d" % (w.name, v.name, phase),
                                 {"workload": w.name, "kind": v.name, "phase": ["forward", "backward", "double backward"][phase],
                                  "crash_at_evaluation": k, "of": n, "raised": "BaseException subclass" if base else "Exception subclass"},
                                 {"changed": _diff(snap0, after), "debug": xt.is_debug_enabled()},
                                 "objects hold the same tensor objects (identity, value, registration, order); debug flag unchanged")
                        stop = True
                        break
                  if stop:
                    break
            tick.reset(None)


def _diff(a, b):
    out = []
    for x, y in zip(a, b):
        if x != y:
            out.append({"before": repr(x)[:300], "after": repr(y)[:300]})
    return out[:3]


def linop_crash_oracle(ctx):
    """solve / symeig with a user LinearOperator whose _mv raises at call k (uselinopparams must restore)"""
    import xitorch as xt
    from xitorch.linalg import solve, symeig
    DT = torch.float64
    calls = [0]
    crash = [None]
    crash_base = [False]           # raise a BaseException that is not an Exception

    class Op(xt.LinearOperator):
        def __init__(self, m):
            super().__init__(shape=m.shape, is_hermitian=True, dtype=m.dtype, device=m.device)
            self.m = m

        def _mv(self, x):
            k = calls[0]
            calls[0] += 1
            if crash[0] is not None and k == crash[0]:
                raise (Interrupt() if crash_base[0] else Boom())
            return torch.matmul(self.m, x.unsqueeze(-1)).squeeze(-1)

        def _getparamnames(self, prefix=""):
            return [prefix + "m"]
    g = torch.Generator().manual_seed(3)
    a = torch.randn(6, 6, dtype=DT, generator=g)
    mat = (a @ a.T + 6 * torch.eye(6, dtype=DT)).requires_grad_()
    B = torch.randn(6, 2, dtype=DT, generator=g).requires_grad_()
    for name, fwd in (("solve-cg", lambda op: solve(op, B, method="cg")),
                      ("solve-bicgstab", lambda op: solve(op, B, method="bicgstab")),
                      ("symeig-davidson", lambda op: symeig(op, neig=2, method="davidson", max_niter=30)[0])):
        op = Op(mat)
        ident = id(op.m)
        for phase in (0, 1):
            def run(k):
                calls[0] = 0
                crash[0] = None
                with warnings.catch_warnings():
                    warnings.simplefilter("ignore")
                    if phase == 0:
                        crash[0] = k
                        return fwd(op)
                    out = fwd(op)
                    calls[0] = 0
                    crash[0] = k
                    torch.autograd.grad(out.sum(), (mat,), allow_unused=True)
            try:
                run(None)
            except Exception as e:
                ctx.fail("oracle", "crash:%s:phase%d:baseline-exception" % (name, phase), {"call": name}, repr(e)[:200], "no exception")
                continue
            n = calls[0]
            for k, base in [(k_, b_) for k_ in range(min(n, 25)) for b_ in (False, True)]:
                crash_base[0] = base
                try:
                    run(k)
                except (Exception, Interrupt):
                    pass
                finally:
                    crash_base[0] = False
                ctx.count(("crash-linop", name, phase, k, base), nontrivial=True)
                if id(op.m) != ident or op.m is not mat:
                    ctx.fail("oracle", "crash:%s:phase%d" % (name, phase),
                             {"call": name, "crash_at_mv": k, "of": n, "raised": "BaseException subclass" if base else "Exception subclass"},
                             "operator holds a different tensor object", "same tensor object as before")
                    op.m = mat
                    break
    crash[0] = None
    # an operator that holds the same tensor under two names (the restore must go through the de-duplicated list, like the
    # substitution did; seeded defect C10/2): every attribute must be the same object after forward and after backward
    class Alias(xt.LinearOperator):
        def __init__(self, d, u):
            super().__init__(shape=(d.shape[0], d.shape[0]), is_hermitian=False, dtype=d.dtype, device=d.device)
            self.shift, self.d, self.u, self.v = u, d, u, d * 1.0

        def _mv(self, x):
            return self.d * x + self.u * (self.v * x).sum(-1, keepdim=True) + 0.1 * self.shift * x

        def _rmv(self, x):
            return self.d * x + self.v * (self.u * x).sum(-1, keepdim=True) + 0.1 * self.shift * x

        def _getparamnames(self, prefix=""):
            return [prefix + "shift", prefix + "d", prefix + "u", prefix + "v"]
    dvec = (torch.rand(5, dtype=DT, generator=g) + 3.0).requires_grad_()
    uvec = (0.2 * torch.randn(5, dtype=DT, generator=g)).requires_grad_()
    Bv = torch.randn(5, 2, dtype=DT, generator=g)
    for meth in ("bicgstab", "cg", "custom_exactsolve", "broyden1"):
        op = Alias(dvec, uvec)
        before = {k: id(getattr(op, k)) for k in ("shift", "d", "u", "v")}
        with warnings.catch_warnings():
            warnings.simplefilter("ignore")
            x = solve(op, Bv, method=meth)
            after_f = {k: id(getattr(op, k)) for k in before}
            torch.autograd.grad(x.sum(), (dvec, uvec), allow_unused=True)
        after_b = {k: id(getattr(op, k)) for k in before}
        ctx.count(("alias-linop", meth), nontrivial=True)
        if after_f != before or after_b != before:
            ctx.fail("oracle", "linop:aliased-parameters-not-restored", {"method": meth},
                     {"changed_after_forward": [k for k in before if after_f[k] != before[k]],
                      "changed_after_backward": [k for k in before if after_b[k] != before[k]]}, "every attribute is the same tensor object")


def debug_flag_probe(ctx):
    """enable_debug() / disable_debug(): on exit - normal or through an exception - the global flag has the value it had on entry,
    whatever it had on entry and whatever the body (or user code called by a functional inside the body) set it to (round-4 seed
    C10/12: disable_debug restored the flag only when it had been on)"""
    import xitorch as xt
    from xitorch.debug.modes import enable_debug, disable_debug, set_debug_mode, is_debug_enabled
    from xitorch.integrate import quad
    saved = is_debug_enabled()
    try:
        for initial in (False, True):
            for cmname, cm in (("enable_debug", enable_debug), ("disable_debug", disable_debug)):
                for inner in (None, True, False):
                    for how in ("normal", "raises", "inside-quad"):
                        set_debug_mode(initial)
                        try:
                            with cm():
                                if how == "inside-quad":
                                    def integrand(x):
                                        if inner is not None:
                                            set_debug_mode(inner)
                                        return x * x
                                    quad(integrand, 0.0, 1.0, n=3)
                                elif inner is not None:
                                    set_debug_mode(inner)
                                if how == "raises":
                                    raise Boom()
                        except Boom:
                            pass
                        ctx.count(("debug-flag", initial, cmname, inner, how))
                        if is_debug_enabled() != initial:
                            ctx.fail("oracle", "debug-flag:%s:not-restored" % cmname,
                                     {"flag_on_entry": initial, "body_sets_flag_to": inner, "exit": how}, is_debug_enabled(), initial)
    finally:
        set_debug_mode(saved)


def debug_mode_crash_probe(ctx):
    """debug mode: a functional called on a method of an EditableModule first runs the method once more on CLONES of the module's
    tensors (EditableModule.assertparams) to see which of them the method uses; when the user's method raises at THAT evaluation
    the caller's tensors must be back in the module like at any other crash point (finding F40)"""
    import xitorch as xt
    from xitorch.optimize import rootfinder
    from xitorch.integrate import quad, solve_ivp
    from xitorch.debug.modes import enable_debug, set_debug_mode, is_debug_enabled

    class Mod(xt.EditableModule):
        def __init__(self, a, b):
            self.a = a
            self.inner = [b]
            self.calls = 0
            self.raise_at = None

        def tick(self):
            self.calls += 1
            if self.raise_at is not None and self.calls == self.raise_at:
                raise Boom()

        def resid(self, y):
            self.tick()
            return y * y * self.a - self.inner[0] + y

        def integrand(self, x):
            self.tick()
            return self.a * x * x + self.inner[0]

        def rhs(self, t, y):
            self.tick()
            return -self.a * y + self.inner[0]

        def getparamnames(self, methodname, prefix=""):
            return [prefix + "a", prefix + "inner[0]"]

    DT = torch.float64
    runs = {"rootfinder": lambda m: rootfinder(m.resid, torch.tensor([0.5], dtype=DT)),
            "quad": lambda m: quad(m.integrand, 0.0, 1.0, n=4),
            "solve_ivp": lambda m: solve_ivp(m.rhs, torch.linspace(0, 1, 3, dtype=DT), torch.ones(1, dtype=DT), method="rk4")}
    saved = is_debug_enabled()
    try:
        for name, run in runs.items():
            for k in (None, 1, 2, 3, 4):
                for flag0 in (False, True):
                    a = torch.tensor([2.0], dtype=DT, requires_grad=True)
                    b = torch.tensor([1.0], dtype=DT, requires_grad=True)
                    m = Mod(a, b)
                    m.raise_at = k
                    set_debug_mode(flag0)
                    raised = False
                    try:
                        with warnings.catch_warnings(), contextlib.redirect_stdout(io.StringIO()):
                            warnings.simplefilter("ignore")
                            with enable_debug():
                                run(m)
                    except Boom:
                        raised = True
                    ctx.count(("debug-mode-crash", name, k, flag0, raised), nontrivial=raised)
                    info = {"functional": name, "user_method_raises_at_evaluation": k, "debug_flag_on_entry": flag0, "raised": raised}
                    if m.a is not a or m.inner[0] is not b:
                        ctx.fail("oracle", "debug-mode:%s:module-keeps-clones" % name, info,
                                 {"a_is_callers": m.a is a, "b_is_callers": m.inner[0] is b}, "the caller's tensor objects")
                    if is_debug_enabled() != flag0:
                        ctx.fail("oracle", "debug-mode:%s:flag-not-restored" % name, info, is_debug_enabled(), flag0)
    finally:
        set_debug_mode(saved)


def nn_and_editable_order_probe(ctx):
    """a class that is BOTH a torch.nn.Module and an EditableModule, whose getparamnames lists only some of its Parameters (a frozen
    one registered between them is left out): after a functional call and its backward pass the Parameters are the same objects,
    registered under the same names in the same ORDER (finding F41: the listed ones are deleted and re-set, which moves them behind
    the unlisted ones in named_parameters())"""
    import xitorch as xt
    from xitorch.optimize import rootfinder

    class Both(torch.nn.Module, xt.EditableModule):
        def __init__(self, frozen_in_the_middle):
            super().__init__()
            mk = lambda v, rg=True: torch.nn.Parameter(torch.tensor([v], dtype=torch.float64), requires_grad=rg)
            self.z0 = mk(0.0)
            self.a = mk(2.0)
            if frozen_in_the_middle:
                self.frozen = mk(1.0, False)
            self.c = mk(0.5)
            if not frozen_in_the_middle:
                self.frozen = mk(1.0, False)

        def forward(self, y):
            return y * y * self.a - self.frozen + y * self.c

        def getparamnames(self, methodname, prefix=""):
            return [prefix + "a", prefix + "c"]

    for middle in (False, True):
        m = Both(middle)
        before = [(n, id(p)) for n, p in m.named_parameters()]
        with warnings.catch_warnings():
            warnings.simplefilter("ignore")
            y = rootfinder(m.forward, torch.tensor([0.5], dtype=torch.float64))
            after_fwd = [(n, id(p)) for n, p in m.named_parameters()]
            y.sum().backward()
        after_bwd = [(n, id(p)) for n, p in m.named_parameters()]
        ctx.count(("nn-and-editable-order", middle), nontrivial=True)
        info = {"class": "Both(torch.nn.Module, xitorch.EditableModule)", "registered": [n for n, _ in before],
                "getparamnames": ["a", "c"], "functional": "rootfinder + backward"}
        if sorted(after_bwd) != sorted(before) or sorted(after_fwd) != sorted(before):
            ctx.fail("oracle", "nn-and-editable:parameters-replaced", info, [n for n, _ in after_bwd], [n for n, _ in before])
        elif after_bwd != before or after_fwd != before:
            ctx.fail("oracle", "nn-and-editable:subset-names:parameter-order-permuted", info,
                     {"after_forward": [n for n, _ in after_fwd], "after_backward": [n for n, _ in after_bwd]}, [n for n, _ in before])


def reassigned_before_recorded_backward_probe(ctx):
    """history: functional call; the caller assigns a NEW tensor to the module's attribute; backward pass through the earlier result.
    After the backward pass the module holds what it held before it - the newly assigned tensor - whether or not the backward pass is
    recorded (finding F45: a graph-recording backward substitutes the saved tensors and 'restores' the ones the wrapper remembers
    from the forward call, overwriting the caller's assignment)"""
    import xitorch as xt
    from xitorch.integrate import solve_ivp
    from xitorch.optimize import rootfinder
    DT = torch.float64

    class NN(torch.nn.Module):
        def __init__(self, a):
            super().__init__()
            self.a = torch.nn.Parameter(a)

        def rhs(self, t, y):
            return -self.a * y

        def resid(self, y):
            return y * y * self.a + y - 1.0

    class ED(xt.EditableModule):
        def __init__(self, a):
            self.a = a

        def rhs(self, t, y):
            return -self.a * y

        def resid(self, y):
            return y * y * self.a + y - 1.0

        def getparamnames(self, methodname, prefix=""):
            return [prefix + "a"]
    ts = torch.linspace(0, 1, 6, dtype=DT)
    for kind in ("nn.Module", "EditableModule"):
        for fnl in ("solve_ivp", "rootfinder"):
            for record in (False, True):
                a0 = torch.tensor([0.7, 1.3], dtype=DT)
                mod = NN(a0.clone()) if kind == "nn.Module" else ED(a0.clone().requires_grad_())
                old = mod.a
                with warnings.catch_warnings():
                    warnings.simplefilter("ignore")
                    if fnl == "solve_ivp":
                        out = solve_ivp(mod.rhs, ts, torch.tensor([1.0, 2.0], dtype=DT), method="rk4")[-1]
                    else:
                        out = rootfinder(mod.resid, torch.tensor([0.5, 0.5], dtype=DT))
                    new = torch.nn.Parameter(a0 * 2) if kind == "nn.Module" else (a0 * 2).requires_grad_()
                    mod.a = new
                    torch.autograd.grad(out.sum(), old, create_graph=record, allow_unused=True)
                ctx.count(("reassigned-before-backward", kind, fnl, record), nontrivial=True)
                if mod.a is not new:
                    ctx.fail("oracle", "history:attribute-reassigned-before-backward",
                             {"object": kind, "functional": fnl, "backward_recorded": record, "history": "call; module.a = new tensor; backward through the earlier result"},
                             {"module_holds_new": False, "module_holds_forward_time_tensor": mod.a is old}, "the tensor the caller assigned before the backward pass")


def debug_mode_dtype_probe(ctx):
    """debug mode with a module that stores tensors of SEVERAL dtypes (a bfloat16 / float16 / integer table next to float64 tensors): the
    clone-and-restore of the parameter check puts every tensor back into its own slot (round-6 seed C10/15: the reading traversal
    and the writing traversal disagreed about which dtypes count as tensors, the restore was written one slot too late)"""
    import xitorch as xt
    from xitorch.optimize import rootfinder
    from xitorch.debug.modes import enable_debug

    class Model(xt.EditableModule):
        def __init__(self, a, table, offset):
            self.a = a
            self.table = table
            self.offset = offset

        def residual(self, y):
            return y ** 3 + y - self.a

        def getparamnames(self, methodname, prefix=""):
            return [prefix + "a"]
    for tdt in (torch.bfloat16, torch.float16, torch.float32, torch.int64, torch.complex128):
        for order in ("a-table-offset", "table-a-offset"):
            a = torch.tensor([1.0, 2.0], dtype=torch.float64, requires_grad=True)
            table = torch.tensor([0.25, 0.75]).to(tdt) if tdt != torch.int64 else torch.tensor([1, 2])
            offset = torch.tensor([10.0, 20.0], dtype=torch.float64)
            m = Model.__new__(Model)
            if order == "a-table-offset":
                m.a, m.table, m.offset = a, table, offset
            else:
                m.table, m.a, m.offset = table, a, offset
            ctx.count(("debug-mode-dtypes", str(tdt), order), nontrivial=True)
            try:
                with warnings.catch_warnings(), contextlib.redirect_stdout(io.StringIO()):
                    warnings.simplefilter("ignore")
                    with enable_debug():
                        rootfinder(m.residual, torch.zeros(2, dtype=torch.float64))
            except Exception as e:
                ctx.fail("oracle", "debug-mode:dtypes:exception", {"table_dtype": str(tdt), "attribute_order": order}, repr(e)[:200], "a result")
                continue
            if m.a is not a or m.table is not table or m.offset is not offset:
                ctx.fail("oracle", "debug-mode:dtypes:module-modified", {"table_dtype": str(tdt), "attribute_order": order},
                         {"a": m.a is a, "table": m.table is table, "offset": m.offset is offset}, "every attribute is the caller's tensor")


def check(ctx):
    cases, meta = [], []
    program_cases(ctx, cases, meta)
    failed, errors = coq_bool_cases("c10", HEADER, cases, chunk=300)
    ctx.coverage["traces_validated_against_impl"] += len(cases) - len(failed)
    for e in errors:
        ctx.broken("correspondence:purefn-programs", e)
    for i in failed[:3]:
        ctx.broken("correspondence:purefn-programs", {"case": meta[i], "coq": cases[i][:1200]})
    crash_oracle(ctx, max_k=ctx.n(12, 60))
    linop_crash_oracle(ctx)
    debug_flag_probe(ctx)
    debug_mode_crash_probe(ctx)
    nn_and_editable_order_probe(ctx)
    reassigned_before_recorded_backward_probe(ctx)
    debug_mode_dtype_probe(ctx)


def search(ctx):
    crash_oracle(ctx, max_k=80)
    linop_crash_oracle(ctx)

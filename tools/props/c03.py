"""C03 — rootfinder / equilibrium / minimize return a point meeting the stopping test.

Tie (model vs implementation, decisions + 2^-30): Model/RootLoop.v at IEEE binary64 against
  linearmixing / broyden1 / broyden2 (line_search=False) through the public rootfinder, and gd through the
  public minimize: every point at which the user function is evaluated, whether a warning was raised, and
  the returned point; runs whose stopping decisions are within 2^-20 of a threshold are skipped and counted.
Oracle (implementation): silent => the RETURNED tensor re-evaluated meets the requested tolerance; shape
  and dtype of the initial guess (real and complex); early exits; all methods agree on contractive
  families; minimize: vanishing gradient and objective not above the initial one."""
from __future__ import annotations
import math, warnings
from fractions import Fraction
import torch
from vlib import cnat, clist, cbool, cfloat, coq_nat_cases
from props.c07 import gen_exp, exp_coq, exp_eval, exp_str, fvec

RULE = ("random polynomial residual maps (dim 1-3, depth<=2, contractive and non-contractive) x methods {linearmixing(alpha), "
        "broyden1, broyden2, gd} x (maxiter 0..40, f_tol, x_tol, f_rtol, x_rtol) x initial guesses; distinct = (method, map, "
        "x0, tolerances, maxiter); non-trivial = at least 2 function evaluations")
TRUSTED = ["harness tools/props/c03.py", "the Armijo line search, newton (jac + solve), anderson_acc and adam are covered by the "
           "implementation oracle only"]
ASSUMPTIONS = ["line_search=False in the model correspondence"]
HEADER = ("From XV Require Import Base.Ops Model.ExplicitRK Model.RootLoop Model.RootRun.\n"
          "From Coq Require Import QArith List PrimFloat.\nImport ListNotations.\n")
DT = torch.float64
INF = float("inf")


def mk_field(es):
    def f(y):
        return torch.stack([exp_eval(e, torch.tensor(0.0, dtype=DT), y) + 0 * y[0] for e in es])
    return f


def gen_map(rng, dim):
    """mostly contractive residuals g(y) = y - (c + small nonlinear)"""
    es = []
    for i in range(dim):
        c = ("C", Fraction(rng.randrange(-8, 9), 8))
        nl = ("Mul", ("C", Fraction(rng.choice([0, 1, 2, -1, 3]), 8)), gen_exp(rng, dim, 1))
        kind = rng.random()
        if kind < 0.75:
            es.append(("Sub", ("Y", i), ("Add", c, nl)))
        else:
            es.append(gen_exp(rng, dim, 2))
    return es


def check(ctx):
    from xitorch.optimize import rootfinder, minimize
    from xitorch._utils.exceptions import ConvergenceWarning
    rng = ctx.rng
    cases, meta = [], []
    for _ in range(ctx.n(140, 900)):
        dim = rng.randrange(1, 4)
        es = gen_map(rng, dim)
        kind = rng.choice([0, 1, 2])
        alpha = rng.choice([-1.0, -0.5, -0.75])
        maxiter = rng.choice([0, 1, 2, 3, 5, 8, 15, 40])
        f_tol = rng.choice([1e-6, 1e-3, 1e-9, 1e-1])
        x_tol = rng.choice([1e-6, 1e-3, 1e-1, 1e3])
        f_rtol = rng.choice([INF, INF, 1e-2, 1e-5])
        x_rtol = rng.choice([INF, INF, 1e-2])
        x0 = [rng.randrange(-8, 9) / 8 for _ in range(dim)]
        f = mk_field(es)
        evals = []

        def fcn(y):
            evals.append([float(v) for v in y])
            return f(y)
        name = ["linearmixing", "broyden1", "broyden2"][kind]
        kw = dict(method=name, line_search=False, maxiter=maxiter, f_tol=f_tol, x_tol=x_tol, f_rtol=f_rtol, x_rtol=x_rtol)
        if kind == 0:
            kw["alpha"] = alpha
        try:
            with warnings.catch_warnings(record=True) as w:
                warnings.simplefilter("always")
                with torch.no_grad():
                    y = rootfinder(fcn, torch.tensor(x0, dtype=DT), **kw)
            warned = any(issubclass(x.category, ConvergenceWarning) for x in w)
            raised = None
        except ValueError as e:
            raised = "zero-step"
        except Exception as e:
            ctx.fail("oracle", "root:%s:exception" % name, {"map": [exp_str(e_) for e_ in es], "x0": x0, "kw": {k: v for k, v in kw.items()}},
                     repr(e)[:200], "a value, possibly with a ConvergenceWarning")
            continue
        info = {"method": name, "map": [exp_str(e) for e in es], "x0": x0, "maxiter": maxiter, "f_tol": f_tol, "x_tol": x_tol,
                "f_rtol": f_rtol, "x_rtol": x_rtol, "alpha": alpha if kind == 0 else None, "nevals": len(evals)}
        if raised or not all(math.isfinite(v) for pt in evals for v in pt) or max(abs(v) for pt in evals for v in pt) > 1e8:
            ctx.stat("skipped_zero_step_or_divergent")
            continue
        cases.append("nonlin_code %d %s %s %d %s %s %s %s %s %s %s %s" % (
            kind, cfloat(alpha), clist([exp_coq(e) for e in es]), maxiter, cfloat(f_tol), cfloat(f_rtol), cfloat(x_tol), cfloat(x_rtol),
            fvec(x0), cbool(warned), fvec(y.tolist()), clist([fvec(p) for p in evals])))
        meta.append(info)
        ctx.count((name, tuple(info["map"]), tuple(x0), maxiter, f_tol, x_tol, f_rtol, x_rtol), nontrivial=len(evals) >= 2)
        ctx.stat("method:" + name)
        ctx.stat("warned" if warned else "silent")
        ctx.sample(info, limit=4)
        # the property on the implementation: silent => the returned tensor passes the test
        if not warned:
            r = float(f(y).norm())
            if not (r < f_tol):
                ctx.fail("oracle", "root:%s:silent-but-not-converged" % name, info, {"returned": y, "|f|": r}, "|f(y)| < f_tol")
    # gd through minimize
    for _ in range(ctx.n(50, 300)):
        dim = rng.randrange(1, 4)
        cs = [rng.randrange(-8, 9) / 8 for _ in range(dim)]
        ws = [rng.choice([1, 2, 4]) / 2 for _ in range(dim)]
        quart = rng.choice([0, 1]) / 8
        # objective sum_i w_i (y_i - c_i)^2 / 2 + quart * y_0^4 ; gradient given symbolically
        def sq(i):
            d = ("Sub", ("Y", i), ("C", Fraction(cs[i]).limit_denominator(64)))
            return ("Mul", ("C", Fraction(ws[i]).limit_denominator(64) / 2), ("Mul", d, d))
        fe = sq(0)
        for i in range(1, dim):
            fe = ("Add", fe, sq(i))
        y0sq = ("Mul", ("Y", 0), ("Y", 0))
        fe = ("Add", fe, ("Mul", ("C", Fraction(quart).limit_denominator(64)), ("Mul", y0sq, y0sq)))
        maxiter = rng.choice([0, 1, 2, 5, 20, 60])
        step = rng.choice([0.25, 0.125, 0.5])
        gamma = rng.choice([0.0, 0.5, 0.75])
        f_tol, x_tol = rng.choice([(0.0, 0.0), (1e-6, 0.0), (0.0, 1e-4), (1e-10, 1e-8)])
        f_rtol, x_rtol = rng.choice([(1e-8, 1e-8), (0.0, 0.0), (1e-3, 0.0)])
        x0 = [rng.randrange(-8, 9) / 8 for _ in range(dim)]
        evals = []

        def obj(y):
            evals.append([float(v) for v in y.detach()])
            return exp_eval(fe, torch.tensor(0.0, dtype=DT), y)
        with warnings.catch_warnings(record=True) as w:
            warnings.simplefilter("always")
            y = minimize(obj, torch.tensor(x0, dtype=DT), method="gd", step=step, gamma=gamma, maxiter=maxiter,
                         f_tol=f_tol, f_rtol=f_rtol, x_tol=x_tol, x_rtol=x_rtol)
        warned = len([x for x in w if "does not converge" in str(x.message)]) > 0
        # the gradient as autograd computes it: d/dy_i
        # (the model receives it as expressions: w_i (y_i - c_i) [+ 4 quart y_0^3])
        ge = []
        for i in range(dim):
            g = ("Mul", ("C", Fraction(ws[i]).limit_denominator(64)), ("Sub", ("Y", i), ("C", Fraction(cs[i]).limit_denominator(64))))
            if i == 0:
                g = ("Add", g, ("Mul", ("C", Fraction(4 * quart).limit_denominator(64)), ("Mul", ("Y", 0), y0sq)))
            ge.append(g)
        cases.append("gd_code %s %s %d %s %s %s %s %s %s %s %s %s %s" % (
            exp_coq(fe), clist([exp_coq(g) for g in ge]), maxiter, cfloat(step), cfloat(gamma), cfloat(f_tol), cfloat(f_rtol),
            cfloat(x_tol), cfloat(x_rtol), fvec(x0), cbool(warned), fvec(y.tolist()), clist([fvec(p) for p in evals])))
        info = {"method": "gd", "objective": exp_str(fe), "x0": x0, "maxiter": maxiter, "step": step, "gamma": gamma,
                "tols": [f_tol, f_rtol, x_tol, x_rtol], "nevals": len(evals), "warned": warned}
        meta.append(info)
        ctx.count(("gd", exp_str(fe), tuple(x0), maxiter, step, gamma, f_tol, x_tol), nontrivial=len(evals) >= 2)
        ctx.stat("method:gd")
    codes, errors = coq_nat_cases("c03", HEADER, cases, chunk=25)
    for e in errors:
        ctx.broken("correspondence:rootloop", e)
    for i, cd in enumerate(codes):
        if cd == 1:
            ctx.coverage["traces_validated_against_impl"] += 1
        elif cd == 2:
            ctx.stat("thin_margin_skipped")
        elif cd == 3:
            ctx.stat("model_zero_step")
        elif cd == 0:
            ctx.broken("correspondence:rootloop", {"case": meta[i], "coq": cases[i][:1500]})
    oracle(ctx)
    warm_start_probe(ctx)
    zero_step_probe(ctx)


def oracle(ctx):
    from xitorch.optimize import rootfinder, equilibrium, minimize
    from xitorch._utils.exceptions import ConvergenceWarning
    rng = ctx.rng

    def run(fn):
        with warnings.catch_warnings(record=True) as w:
            warnings.simplefilter("always")
            y = fn()
        return y, any(issubclass(x.category, ConvergenceWarning) or "does not converge" in str(x.message) for x in w)
    for rep in range(ctx.n(6, 40)):
        torch.manual_seed(ctx.seed * 100 + rep)
        shape = rng.choice([(3,), (2, 2), (4, 1), (1,)])
        cplx = rng.random() < 0.3
        dt = torch.complex128 if cplx else DT
        A = 0.2 * torch.randn(shape, dtype=dt).clamp(-2, 2) if not cplx else 0.15 * torch.randn(shape, dtype=dt)
        b = 0.3 * torch.randn(shape, dtype=dt)
        strength = rng.choice([0.05, 0.1])
        # contractive fixed-point map (Lipschitz constant < 0.5 on the ball that contains the iterates);
        # polynomial so that it is holomorphic for complex unknowns
        fp = lambda y, A, b: b + A * (0.5 * y - strength * y * y * y)
        g = lambda y, A, b: y - fp(y, A, b)
        y0 = torch.zeros(shape, dtype=dt)
        f_tol = rng.choice([1e-6, 1e-9])
        sols = {}
        for meth in ("newton", "broyden1", "broyden2", "linearmixing"):
            for ls in ((True, False) if meth != "newton" else (True,)):
                try:
                    y, warned = run(lambda: rootfinder(g, y0, params=(A, b), method=meth, f_tol=f_tol, x_tol=1e-6, line_search=ls))
                except Exception as e:
                    ctx.fail("oracle", "root:%s:exception" % meth, {"shape": list(shape), "complex": cplx, "line_search": ls}, repr(e)[:200], "converges")
                    continue
                ctx.count(("contractive-root", meth, ls, shape, cplx, rep))
                info = {"method": meth, "shape": list(shape), "complex": cplx, "line_search": ls, "f_tol": f_tol}
                if y.shape != y0.shape or y.dtype != y0.dtype:
                    ctx.fail("oracle", "root:%s:shape-dtype" % meth, info, [list(y.shape), str(y.dtype)], [list(shape), str(dt)])
                    continue
                res = float(g(y, A, b).norm())
                if warned:
                    ctx.fail("oracle", "root:%s:warns-on-contractive" % meth, info, res, "silent convergence on a contractive problem")
                elif not res < f_tol:
                    ctx.fail("oracle", "root:%s:silent-but-not-converged" % meth, info, res, "< %g" % f_tol)
                sols[(meth, ls)] = y
        for meth in ("anderson_acc", "broyden1", "linearmixing"):
            try:
                y, warned = run(lambda: equilibrium(fp, y0, params=(A, b), method=meth, f_tol=f_tol, x_tol=1e-6))
            except Exception as e:
                ctx.fail("oracle", "equil:%s:exception" % meth, {"shape": list(shape), "complex": cplx}, repr(e)[:200], "converges")
                continue
            ctx.count(("contractive-equil", meth, shape, cplx, rep))
            info = {"method": meth, "shape": list(shape), "complex": cplx, "f_tol": f_tol}
            res = float((fp(y, A, b) - y).norm())
            if y.shape != y0.shape or y.dtype != y0.dtype:
                ctx.fail("oracle", "equil:%s:shape-dtype" % meth, info, [list(y.shape), str(y.dtype)], [list(shape), str(dt)])
            elif warned:
                ctx.fail("oracle", "equil:%s:warns-on-contractive" % meth, info, res, "silent")
            elif not res < f_tol:
                ctx.fail("oracle", "equil:%s:silent-but-not-converged" % meth, info, res, "< %g" % f_tol)
            sols[("eq-" + meth, None)] = y
        ref = sols.get(("newton", True))
        for k, v in sols.items():
            if ref is not None and not (v - ref).abs().max() <= 1e-4:
                ctx.fail("oracle", "root:methods-disagree", {"pair": ["newton", str(k)], "shape": list(shape)}, float((v - ref).abs().max()), "same point")
        # minimize (real only)
        if not cplx:
            w = torch.rand(shape, dtype=DT) + 0.5
            c = torch.randn(shape, dtype=DT)
            obj = lambda y, w, c: (0.5 * w * (y - c) ** 2).sum() + 0.05 * (y ** 4).sum()
            for meth, kw in (("broyden1", {}), ("newton", {}), ("gd", dict(step=0.2, maxiter=3000, f_rtol=1e-14, x_rtol=1e-12)),
                             ("adam", dict(step=0.05, maxiter=6000, f_rtol=1e-14, x_rtol=1e-12))):
                try:
                    y, warned = run(lambda: minimize(obj, torch.zeros(shape, dtype=DT), params=(w, c), method=meth, **kw))
                except Exception as e:
                    ctx.fail("oracle", "min:%s:exception" % meth, {"shape": list(shape)}, repr(e)[:200], "converges")
                    continue
                ctx.count(("minimize", meth, shape, rep))
                yy = y.detach().clone().requires_grad_()
                val = obj(yy, w, c)
                grad, = torch.autograd.grad(val, yy)
                info = {"method": meth, "shape": list(shape)}
                if y.shape != shape:
                    ctx.fail("oracle", "min:%s:shape" % meth, info, list(y.shape), list(shape))
                if not warned:
                    if float(val) > float(obj(torch.zeros(shape, dtype=DT), w, c)) + 1e-12:
                        ctx.fail("oracle", "min:%s:objective-increased" % meth, info, float(val), "<= objective at the initial guess")
                    tol = 1e-5 if meth in ("broyden1", "newton") else 1e-3
                    if not float(grad.norm()) <= tol:
                        ctx.fail("oracle", "min:%s:gradient-not-vanishing" % meth, info, float(grad.norm()), "< %g" % tol)
    # gd / adam stopped by a tiny iteration budget with an overshooting step: either a ConvergenceWarning, or the returned
    # point is no worse than the initial guess (seeded defect C03/6: the best-point fallback skipped for maxiter=1)
    wq = torch.tensor([1.0, 2.0, 0.5], dtype=DT)
    cq = torch.tensor([0.5, -1.0, 2.0], dtype=DT)
    objq = lambda y, w, c: (0.5 * w * (y - c) ** 2).sum() + 0.05 * (y ** 4).sum()
    for meth in ("gd", "adam"):
        for maxiter in (1, 2, 3):
            for step in (3.0, 8.0):
                try:
                    y, warned = run(lambda: minimize(objq, torch.zeros(3, dtype=DT), params=(wq, cq), method=meth, step=step, maxiter=maxiter))
                except Exception as e:
                    ctx.fail("oracle", "min:%s:tiny-budget:exception" % meth, {"maxiter": maxiter, "step": step}, repr(e)[:200], "a point or a warning")
                    continue
                ctx.count(("min-tiny-budget", meth, maxiter, step))
                v0, v1 = float(objq(torch.zeros(3, dtype=DT), wq, cq)), float(objq(y, wq, cq))
                if not warned and not v1 <= v0 + 1e-12:
                    ctx.fail("oracle", "min:%s:silent-but-objective-increased" % meth, {"method": meth, "maxiter": maxiter, "step": step},
                             {"objective_at_result": v1, "objective_at_initial_guess": v0}, "a ConvergenceWarning, or an objective no larger than at the initial guess")
    # far initial guesses on a globally contractive map: the stopping test must be the ABSOLUTE f_tol the caller asked
    # for, not a tolerance relative to the first residual (seeded defect C03/2: arguments of the termination object swapped)
    gen = torch.Generator().manual_seed(ctx.seed + 5)
    nfar = 12
    Af = torch.randn(nfar, nfar, dtype=DT, generator=gen)
    Af = 0.9 * Af / torch.linalg.matrix_norm(Af, 2)
    bf = torch.randn(nfar, dtype=DT, generator=gen)
    fmap = lambda y, A, b: y @ A.T + b + 0.05 * torch.sin(y)
    for scale in (1.0, 1e2, 1e4):
        for f_tol in (1e-9, 1e-10):
            y0f = scale * torch.randn(nfar, dtype=DT, generator=gen)
            for fn_name, meth in (("equilibrium", "anderson_acc"), ("equilibrium", "broyden1"), ("rootfinder", "broyden1"), ("rootfinder", "linearmixing")):
                try:
                    if fn_name == "equilibrium":
                        y, warned = run(lambda: equilibrium(fmap, y0f, params=(Af, bf), method=meth, f_tol=f_tol))
                    else:
                        y, warned = run(lambda: rootfinder(lambda y, A, b: y - fmap(y, A, b), y0f, params=(Af, bf), method=meth, f_tol=f_tol))
                except Exception as e:
                    ctx.fail("oracle", "far-guess:%s:%s:exception" % (fn_name, meth), {"scale": scale, "f_tol": f_tol}, repr(e)[:200], "a point or a warning")
                    continue
                ctx.count(("far-guess", fn_name, meth, scale, f_tol))
                res = float((fmap(y, Af, bf) - y).norm())
                if not warned and not res < f_tol:
                    ctx.fail("oracle", "%s:%s:silent-but-not-converged:far-initial-guess" % (fn_name, meth),
                             {"initial_guess_scale": scale, "f_tol": f_tol, "n": nfar}, res, "< %g" % f_tol)
    # early exits
    one = torch.tensor([1.0, -2.0], dtype=DT)
    y, warned = run(lambda: rootfinder(lambda y: y - one, one.clone()))
    if warned or not torch.equal(y, one):
        ctx.fail("oracle", "root:early-exit-real", {}, y, one)
    z = torch.tensor([1 + 2j, -0.5j], dtype=torch.complex128)
    try:
        y, warned = run(lambda: rootfinder(lambda y: y - z, z.clone()))
        if warned or y.shape != z.shape or not torch.equal(y, z):
            ctx.fail("oracle", "root:early-exit-complex", {}, y, z)
    except Exception as e:
        ctx.fail("oracle", "root:early-exit-complex", {}, repr(e)[:200], "the complex root itself")
    y, warned = run(lambda: equilibrium(lambda y: 0.5 * torch.ones_like(y), torch.zeros(2, dtype=DT), method="anderson_acc"))
    if warned or not (y - 0.5).abs().max() <= 1e-6:
        ctx.fail("oracle", "equil:anderson-early-exit", {}, y, [0.5, 0.5])
    # an iterate that hits the root exactly before the x test passes
    try:
        y, warned = run(lambda: minimize(lambda y: ((y - 1) ** 2).sum(), torch.zeros(2, dtype=DT), method="broyden1"))
        if warned or not (y - 1).abs().max() <= 1e-6:
            ctx.fail("oracle", "min:exact-root-hit", {}, y, [1.0, 1.0])
    except Exception as e:
        ctx.fail("oracle", "min:exact-root-hit", {}, repr(e)[:200], "silent convergence")
    # penultimate-iterate probe
    for m in ("broyden1", "broyden2", "newton", "linearmixing"):
        fq = lambda y: y ** 3 + 1.3 * y - 1
        y, warned = run(lambda: rootfinder(fq, torch.zeros(1, dtype=DT), method=m, f_tol=1e-9, x_tol=1e-3))
        ctx.count(("penultimate", m))
        if not warned and not float(fq(y).abs().max()) < 1e-9:
            ctx.fail("oracle", "root:%s:silent-but-not-converged" % m, {"probe": "y^3+1.3y-1"}, float(fq(y).abs().max()), "< 1e-9")

    # ---- round-3 probes ----
    # (a) restart from an exact solution with a multi-dimensional unknown: the early exits must hand back a tensor of the
    #     shape and dtype of the initial guess (seeded C03/7: anderson_acc returned the flattened iterate)
    for shape in ((3, 4), (2, 3, 4), (1, 2, 1)):
        cst = torch.linspace(-1.0, 2.0, int(torch.tensor(shape).prod()), dtype=DT).reshape(shape)
        probes = [("equil:anderson_acc", lambda: equilibrium(lambda y, c: c + 0.0 * y, cst.clone(), params=(cst,), method="anderson_acc")),
                  ("equil:anderson_acc:feat_ndims=2", lambda: equilibrium(lambda y, c: c + 0.0 * y, cst.clone(), params=(cst,),
                                                                          method="anderson_acc", feat_ndims=2)),
                  ("equil:anderson_acc:feat_ndims=all", lambda: equilibrium(lambda y, c: c + 0.0 * y, cst.clone(), params=(cst,),
                                                                            method="anderson_acc", feat_ndims=len(shape))),
                  ("equil:anderson_acc:feat_ndims=2:generic-start", lambda: equilibrium(lambda y, c: c + 0.25 * (y - c), torch.zeros(shape, dtype=DT),
                                                                                        params=(cst,), method="anderson_acc", feat_ndims=2)),
                  ("equil:broyden1", lambda: equilibrium(lambda y, c: c + 0.0 * y, cst.clone(), params=(cst,), method="broyden1")),
                  ("root:broyden1", lambda: rootfinder(lambda y, c: y - c, cst.clone(), params=(cst,), method="broyden1")),
                  ("root:newton", lambda: rootfinder(lambda y, c: y - c, cst.clone(), params=(cst,), method="newton")),
                  ("root:linearmixing", lambda: rootfinder(lambda y, c: y - c, cst.clone(), params=(cst,), method="linearmixing")),
                  ("min:broyden1", lambda: minimize(lambda y, c: ((y - c) ** 2).sum(), cst.clone(), params=(cst,), method="broyden1")),
                  ("min:gd", lambda: minimize(lambda y, c: ((y - c) ** 2).sum(), cst.clone(), params=(cst,), method="gd", step=0.1))]
        for nm, fn in probes:
            try:
                y, warned = run(fn)
            except Exception as e:
                ctx.fail("oracle", "%s:restart-at-solution:exception" % nm, {"shape": list(shape)}, repr(e)[:200], "the solution")
                continue
            ctx.count(("restart-at-solution", nm, shape))
            if tuple(y.shape) != shape or y.dtype != DT:
                ctx.fail("oracle", "%s:restart-at-solution:shape-dtype" % nm, {"shape": list(shape), "initial_guess": "the exact solution"},
                         [list(y.shape), str(y.dtype)], [list(shape), str(DT)])
            elif not warned and not (y - cst).abs().max() <= 1e-6:
                ctx.fail("oracle", "%s:restart-at-solution:silent-but-wrong" % nm, {"shape": list(shape)}, float((y - cst).abs().max()), "<= 1e-6")
    # (b) a zero (or denormal) absolute tolerance is a tolerance, not "use the default": a silent return then carries an
    #     exactly zero residual (seeded C03/8: `if not f_tol` replaced `if f_tol is None`)
    bz = torch.tensor([0.3, -0.7, 1.1], dtype=DT)
    cub = lambda y, b: y ** 3 + 1.3 * y - b
    for f_tol in (0.0, 1e-300):
        for nm, fn, resid in (
                ("root:newton", lambda: rootfinder(cub, torch.zeros(3, dtype=DT), params=(bz,), method="newton", f_tol=f_tol, maxiter=60), lambda y: cub(y, bz)),
                ("root:broyden1", lambda: rootfinder(cub, torch.zeros(3, dtype=DT), params=(bz,), method="broyden1", f_tol=f_tol, maxiter=60), lambda y: cub(y, bz)),
                ("root:linearmixing", lambda: rootfinder(cub, torch.zeros(3, dtype=DT), params=(bz,), method="linearmixing", f_tol=f_tol, maxiter=60), lambda y: cub(y, bz)),
                ("equil:anderson_acc", lambda: equilibrium(lambda y, b: b - 0.3 * y ** 3, torch.zeros(3, dtype=DT), params=(bz,), method="anderson_acc", f_tol=f_tol, maxiter=60),
                 lambda y: bz - 0.3 * y ** 3 - y),
                ("equil:broyden1", lambda: equilibrium(lambda y, b: b - 0.3 * y ** 3, torch.zeros(3, dtype=DT), params=(bz,), method="broyden1", f_tol=f_tol, maxiter=60),
                 lambda y: bz - 0.3 * y ** 3 - y)):
            try:
                y, warned = run(fn)
            except Exception as e:
                ctx.fail("oracle", "%s:zero-tolerance:exception" % nm, {"f_tol": f_tol}, repr(e)[:200], "a point or a warning")
                continue
            ctx.count(("zero-tolerance", nm, f_tol))
            r = float(resid(y).norm())
            if not warned and not r <= f_tol:
                ctx.fail("oracle", "%s:zero-tolerance:silent-but-not-converged" % nm, {"f_tol": f_tol, "maxiter": 60}, r,
                         "a ConvergenceWarning, or a residual below the tolerance the caller asked for")
    # (c) gd / adam on an objective that is exactly zero at the initial guess, with an absolute f_tol and a diverging step:
    #     a warning, or a point no worse than the initial guess (seeded C03/9: the test on |f - fprev| with the placeholder
    #     fprev = 0 marked the run as converged at iteration 0)
    cz = torch.tensor([1.0, -2.0, 0.5, 3.0], dtype=DT)
    energy = lambda y, c: ((y - c) ** 2).sum() - (c ** 2).sum()
    for meth, kws in (("gd", dict(step=1.2, gamma=0.0)), ("gd", dict(step=1.2, gamma=0.9)), ("adam", dict(step=40.0))):
        for f_tol in (1e-14, 1e-3):
            for maxiter in (15, 60):
                try:
                    y, warned = run(lambda: minimize(energy, torch.zeros(4, dtype=DT), params=(cz,), method=meth, f_tol=f_tol, f_rtol=0.0,
                                                     x_rtol=0.0, maxiter=maxiter, **kws))
                except Exception as e:
                    ctx.fail("oracle", "min:%s:zero-objective-at-guess:exception" % meth, {"f_tol": f_tol, **kws}, repr(e)[:200], "a point or a warning")
                    continue
                ctx.count(("min-zero-objective", meth, f_tol, maxiter, tuple(sorted(kws.items()))))
                e1 = float(energy(y, cz))
                if not warned and not e1 <= 1e-12:
                    ctx.fail("oracle", "min:%s:silent-but-objective-increased" % meth,
                             {"objective": "sum((y-c)^2) - sum(c^2), zero at the initial guess", "f_tol": f_tol, "maxiter": maxiter, **kws},
                             {"objective_at_result": e1, "objective_at_initial_guess": 0.0},
                             "a ConvergenceWarning, or an objective no larger than at the initial guess")

    # ---- round-4 probes ----
    # (d) method names in any letter case select the same algorithm AND the same function handed to it (round-4 seed C03/10:
    #     equilibrium chose between f and y - f(y) before lower-casing the name)
    Ac = torch.tensor([[0.3, -0.2], [0.1, 0.25]], dtype=DT)
    bc = torch.tensor([0.7, -0.4], dtype=DT)
    fmapc = lambda y, A, b: y @ A.T + b + 0.05 * torch.sin(y)
    for fn_name, names in (("equilibrium", ["anderson_acc", "Anderson_Acc", "ANDERSON_ACC", "Broyden1", "LinearMixing"]),
                           ("rootfinder", ["Broyden1", "NEWTON", "linearMixing"]), ("minimize", ["Broyden1", "GD", "Adam"])):
        for nm in names:
            try:
                if fn_name == "equilibrium":
                    y, warned = run(lambda: equilibrium(fmapc, torch.zeros(2, dtype=DT), params=(Ac, bc), method=nm, f_tol=1e-9))
                    r = float((fmapc(y, Ac, bc) - y).norm())
                elif fn_name == "rootfinder":
                    y, warned = run(lambda: rootfinder(lambda y, A, b: y - fmapc(y, A, b), torch.zeros(2, dtype=DT), params=(Ac, bc), method=nm, f_tol=1e-9))
                    r = float((fmapc(y, Ac, bc) - y).norm())
                else:
                    kwm = dict(step=0.2, maxiter=4000) if nm.lower() in ("gd", "adam") else {}
                    y, warned = run(lambda: minimize(lambda y, b: ((y - b) ** 2).sum() + 0.1 * (y ** 4).sum(), torch.zeros(2, dtype=DT), params=(bc,), method=nm, **kwm))
                    yy = y.detach().clone().requires_grad_()
                    r = float(torch.autograd.grad(((yy - bc) ** 2).sum() + 0.1 * (yy ** 4).sum(), yy)[0].norm()) * (1e-9 / 1e-3 if nm.lower() in ("gd", "adam") else 1e-9 / 1e-5)
            except Exception as e:
                ctx.fail("oracle", "%s:method-name-case:exception" % fn_name, {"method": nm}, repr(e)[:200], "names are matched case-insensitively")
                continue
            ctx.count(("name-case", fn_name, nm))
            if warned or not r < 1e-9:
                ctx.fail("oracle", "%s:method-name-case" % fn_name, {"method": nm}, {"warned": warned, "scaled_residual": r},
                         "the same silent convergence as with the lower-case name")
    # (e) anderson_acc with a mixing parameter other than the default (round-4 seed C03/11: sign of the (1 - beta) term)
    for beta in (0.5, 0.8, 1.2):
        for msize in (2, 5):
            try:
                y, warned = run(lambda: equilibrium(fmapc, torch.zeros(2, dtype=DT), params=(Ac, bc), method="anderson_acc", f_tol=1e-9, beta=beta, msize=msize))
            except Exception as e:
                ctx.fail("oracle", "equil:anderson_acc:beta:exception", {"beta": beta, "msize": msize}, repr(e)[:200], "converges")
                continue
            ctx.count(("anderson-beta", beta, msize))
            r = float((fmapc(y, Ac, bc) - y).norm())
            if warned or not r < 1e-9:
                ctx.fail("oracle", "equil:anderson_acc:beta", {"beta": beta, "msize": msize, "map": "contractive affine + 0.05 sin"},
                         {"warned": warned, "residual": r}, "silent convergence on a contractive map for any mixing parameter near 1")
    # (f) gd / adam with an absolute f_tol: the stopping test is on the CHANGE of the objective, so adding a constant to the
    #     objective changes nothing (round-4 seed C03/12: the test applied to |f| itself)
    for meth, kwm in (("gd", dict(step=0.1, gamma=0.0)), ("adam", dict(step=0.05))):
        outs = []
        for shift in (0.0, -2.0, 1.0, 50.0):
            try:
                y, warned = run(lambda: minimize(lambda y, c: (y ** 2).sum() + c, torch.tensor([4.0, 4.0], dtype=DT), params=(torch.tensor(shift, dtype=DT),),
                                                 method=meth, f_tol=1e-6, f_rtol=0.0, x_tol=0.0, x_rtol=0.0, maxiter=3000, **kwm))
            except Exception as e:
                ctx.fail("oracle", "min:%s:objective-shift:exception" % meth, {"shift": shift}, repr(e)[:200], "a point")
                continue
            outs.append((shift, y.detach(), warned))
        ctx.count(("objective-shift", meth))
        if outs and any(w != outs[0][2] or not torch.allclose(y_, outs[0][1], rtol=0, atol=1e-9) for _, y_, w in outs):
            ctx.fail("oracle", "min:%s:depends-on-a-constant-added-to-the-objective" % meth, {"objective": "|y|^2 + c from (4, 4)", "f_tol": 1e-6, "f_rtol": 0.0},
                     [{"c": sh, "returned": y_.tolist(), "warned": w} for sh, y_, w in outs], "the same point and the same warning status for every c")


def warm_start_probe(ctx):
    """a warm start whose residual is tiny but ABOVE the requested tolerance is iterated on, not returned as is: solve, move a parameter
    by 1e-9, solve again from the previous solution with f_tol = 1e-12 (round-5 seed C03/13: the exact-root early exit |f| == 0
    became allclose(f, 0), i.e. |f| < 1e-8)"""
    from xitorch.optimize import rootfinder, equilibrium
    from xitorch._utils.exceptions import ConvergenceWarning
    y0 = torch.tensor([0.3, -0.2, 0.5], dtype=DT)
    for nm in ("broyden1", "broyden2", "linearmixing"):
        for fn_name in ("rootfinder", "equilibrium"):
            c0 = torch.tensor([0.4, 0.1, -0.3], dtype=DT)
            resid = lambda y, c: y + 0.1 * torch.tanh(y) - c
            fixed = lambda y, c: c - 0.1 * torch.tanh(y)
            call = (lambda start, c: rootfinder(resid, start, params=(c,), method=nm, f_tol=1e-13, x_tol=1e-13, maxiter=200)) if fn_name == "rootfinder" \
                else (lambda start, c: equilibrium(fixed, start, params=(c,), method=nm, f_tol=1e-13, x_tol=1e-13, maxiter=200))
            with warnings.catch_warnings(record=True) as w:
                warnings.simplefilter("always")
                y1 = call(y0, c0)
                c1 = c0 + 3e-9
                y2 = call(y1.detach(), c1)
            warned = any(issubclass(x.category, ConvergenceWarning) or "does not converge" in str(x.message) for x in w)
            ctx.count(("warm-start-tiny-residual", fn_name, nm), nontrivial=True)
            r_start = float(resid(y1.detach(), c1).abs().max())
            r_end = float(resid(y2.detach(), c1).abs().max())
            if not warned and not r_end <= 1e-12:
                ctx.fail("oracle", "%s:warm-start:silent-above-tolerance" % fn_name, {"method": nm, "f_tol": 1e-13, "residual_of_the_initial_guess": r_start},
                         {"residual_of_the_result": r_end}, "|f| <= 1e-12 or a ConvergenceWarning")


def zero_step_probe(ctx):
    """a method whose step vanishes exactly at a point that is NOT a root (mixing parameter alpha = 0) does not return that point
    silently as if it had converged: an error, a ConvergenceWarning, or a residual within the tolerance (round-6 seed C03/16: a zero
    step set converge = True whatever the residual)"""
    from xitorch.optimize import rootfinder, equilibrium
    from xitorch._utils.exceptions import ConvergenceWarning
    y0 = torch.tensor([0.3, -0.2], dtype=DT)
    c = torch.tensor([1.0, 0.5], dtype=DT)
    for fn_name in ("rootfinder", "equilibrium"):
        for nm in ("linearmixing", "broyden1", "broyden2"):
            ctx.count(("zero-step", fn_name, nm), nontrivial=True)
            raised = False
            with warnings.catch_warnings(record=True) as w:
                warnings.simplefilter("always")
                try:
                    y = rootfinder(lambda y, c: y ** 3 + y - c, y0, params=(c,), method=nm, alpha=0.0, f_tol=1e-9) if fn_name == "rootfinder" \
                        else equilibrium(lambda y, c: c - y ** 3, y0, params=(c,), method=nm, alpha=0.0, f_tol=1e-9)
                except Exception:
                    raised = True
            warned = any(issubclass(x.category, ConvergenceWarning) or "does not converge" in str(x.message) for x in w)
            if not raised and not warned:
                r = float((y ** 3 + y - c).abs().max())
                if not r <= 1e-8:
                    ctx.fail("oracle", "%s:zero-step:silent-but-not-converged" % fn_name, {"method": nm, "alpha": 0.0, "f_tol": 1e-9},
                             {"residual": r, "returned_the_initial_guess": bool(torch.equal(y, y0))}, "an error, a ConvergenceWarning or |f| <= 1e-8")


def search(ctx):
    oracle(ctx)

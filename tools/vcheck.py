"""./vcheck <property> [--tier quick|thorough] [--replay file]

Uniform pipeline (DESIGN section 3):
 1 regenerate coq/Gen/*.v from /repo's working tree (translators, fail-closed)
 2 build the property's proof file and everything it depends on; collect Print Assumptions
 3 run the property's correspondence / specification harnesses and implementation oracles
 4 replay known findings
 5 on a broken tie: search the implementation for a concrete failing input
 6 write evidence/<property>.json
"""
from __future__ import annotations
import argparse, importlib, json, os, sys, time, traceback

HERE = os.path.dirname(os.path.abspath(__file__))
sys.path.insert(0, HERE)
import vlib
from vlib import Ctx, VERIF

sys.path.insert(0, vlib.REPO)


# functions of tools/pycorr.py (translated code vs CPython) per property
PYCORR = {
    "C01": ["normalize_bcast_dims", "get_bcasted_dims"], "C11": ["normalize_bcast_dims", "get_bcasted_dims"],
    "C14": ["normalize_bcast_dims", "get_bcasted_dims"],
    "C04": ["separator"], "C08": ["separator", "tensorpacker"], "C07": ["tensorpacker"],
    "C09": ["uniquifier", "purefunction", "editable_module"], "C10": ["uniquifier", "purefunction", "editable_module"],
    "C18": ["set_default_option", "get_and_pop_keys", "get_method", "solve_prelude", "symeig_prelude", "equilibrium_prelude", "minimize_prelude"],
    "C20": ["packer_unique_idxs"],
}


def write_replay(ctx, idx, payload):
    d = os.path.join(VERIF, "replay")
    os.makedirs(d, exist_ok=True)
    path = os.path.join(d, "%s-%s-seed%d-%d.json" % (ctx.prop, ctx.tier, ctx.seed, idx))
    with open(path, "w") as f:
        json.dump(vlib.jsonable(payload), f, indent=1, default=str)
    return path


def main():
    ap = argparse.ArgumentParser()
    ap.add_argument("prop")
    ap.add_argument("--tier", default=os.environ.get("VERIF_TIER", "quick"))
    ap.add_argument("--replay", default=None)
    ap.add_argument("--no-coq", action="store_true", help="development only: skip the proof build")
    args = ap.parse_args()
    prop = args.prop.upper()
    tier = args.tier if args.tier in ("quick", "thorough") else "quick"
    seed = int(os.environ.get("VERIF_SEED", "0") or 0)
    ctx = Ctx(prop, tier, seed)
    mod = importlib.import_module("props." + prop.lower())

    if args.replay:
        data = json.load(open(args.replay))
        if hasattr(mod, "replay"):
            rc = mod.replay(ctx, data)
            sys.exit(rc or 0)
        print(json.dumps(data, indent=1)[:4000])
        sys.exit(0)

    import glob
    for old in glob.glob(os.path.join(VERIF, "replay", "%s-%s-seed%d-*.json" % (prop, tier, seed))):
        os.remove(old)
    import torch
    torch.manual_seed(seed)
    torch.set_num_threads(2)

    proof = {"obligations": 0, "discharged": 0, "axioms": [], "per_theorem": {}, "theorems": []}
    checker_cmd = "make -C coq Props/%s.vo && coqc -Q . XV Props/%s.v  (full .vo build)" % (prop, prop)

    # ---- 1. translators ----
    try:
        import gen_all
        gen_info = gen_all.regenerate(prop)
        ctx.notes["generated"] = gen_info
    except Exception as e:
        ctx.broken("translator", "translator failed (fail-closed): %s\n%s" % (e, traceback.format_exc()[-2000:]))

    # ---- 2. proofs ----
    if not args.no_coq:
        hits = vlib.scan_forbidden()
        if hits:
            ctx.broken("forbidden-construct", hits)
        # everything the generated case files import (the executable drivers) is rebuilt with the theorems
        import re as _re
        hdr_text = getattr(mod, "HEADER", "")
        if prop in PYCORR:
            import pycorr
            hdr_text += pycorr.HEADER
        hdr_mods = sorted(set(_re.findall(r"\b((?:Base|Model|Gen|Proofs)\.\w+)", hdr_text)))
        ok, log, dt = vlib.coq_make(["Props/%s.vo" % prop] + [m.replace(".", "/") + ".vo" for m in hdr_mods]
                                    + list(getattr(mod, "EXTRA_TARGETS", [])))
        ctx.notes["make_s"] = round(dt, 1)
        if not ok:
            ctx.broken("proof-build", log[-4000:])
            # the obligations are still the theorems stated in the property file; none of them is discharged
            try:
                import re as _re2
                src = open(os.path.join(VERIF, "coq", "Props", "%s.v" % prop)).read()
                names = _re2.findall(r"^Theorem (\w+)", src, flags=_re2.M)
                proof.update(obligations=len(names), discharged=0, theorems=names)
            except OSError:
                pass
        else:
            okp, theorems, discharged, axioms, per, plog = vlib.coq_prop_file(prop)
            proof.update(obligations=len(theorems), discharged=discharged, axioms=axioms,
                         per_theorem=per, theorems=theorems)
            if not okp:
                ctx.broken("proof-check", plog[-4000:])

    # ---- 3. correspondence + oracles ----
    try:
        mod.check(ctx)
    except Exception as e:
        ctx.broken("harness-exception", "%s\n%s" % (e, traceback.format_exc()[-4000:]))
    # the translated plumbing code this property's theorems are stated over: generated definitions vs CPython
    if prop in PYCORR:
        try:
            import pycorr
            pycorr.check(ctx, PYCORR[prop], ctx.n(40, 300))
        except Exception as e:
            ctx.broken("translated-model-correspondence", "%s\n%s" % (e, traceback.format_exc()[-3000:]))

    # ---- 4. findings ----
    findings = vlib.load_findings(prop)
    open_keys = {f["key"]: f for f in findings if f.get("status") == "open"}
    new_failures, known_hit = [], {}
    for fl in ctx.failures:
        if fl["key"] in open_keys:
            known_hit.setdefault(fl["key"], fl)
        else:
            new_failures.append(fl)
    for k, f in open_keys.items():
        if k in known_hit:
            print("KNOWN-FINDING: property=%s %s [%s]" % (prop, f.get("what", k), k))
        else:
            print("note: listed finding %s did not reproduce in this run (%s)" % (k, f.get("what", "")))

    # ---- 5. verdict ----
    violation_lines = []
    if ctx.broken_ties and not new_failures and hasattr(mod, "search"):
        try:
            mod.search(ctx)
        except Exception as e:
            ctx.notes["search_exception"] = "%s" % e
        new_failures = [fl for fl in ctx.failures if fl["key"] not in open_keys]

    # de-duplicate failures by key, keep first (smallest) witnesses
    seen = {}
    for fl in new_failures:
        seen.setdefault(fl["key"], fl)
    uniq = list(seen.values())
    idx = 0
    for fl in uniq[:5]:
        path = write_replay(ctx, idx, {"property": prop, "kind": "failing-input", **fl,
                                       "broken_ties": [b["what"] for b in ctx.broken_ties],
                                       "how_to_replay": "./vcheck %s --replay <this file>" % prop})
        violation_lines.append("VIOLATION property=%s replay=%s" % (prop, path))
        idx += 1
    if not uniq and ctx.broken_ties:
        path = write_replay(ctx, 0, {"property": prop, "kind": "broken-tie",
                                     "broken": ctx.broken_ties,
                                     "note": "the theorem / correspondence named here no longer checks; "
                                             "the search on the implementation found no failing input"})
        violation_lines.append("VIOLATION property=%s replay=%s no-failing-input-found" % (prop, path))

    # ---- 6. evidence ----
    cov = ctx.coverage
    cov["distinct_nontrivial"] = len(ctx.distinct)
    cov.setdefault("rule", getattr(mod, "RULE", ""))
    cov.update(obligations=proof["obligations"], discharged=proof["discharged"],
               checker_cmd=checker_cmd,
               trusted_base=["Coq 8.16.1 kernel + vm_compute (no native_compute)"] +
                            ["axiom: " + a for a in proof["axioms"]] +
                            list(getattr(mod, "TRUSTED", [])) +
                            (["translator tools/translate_py.py with the Python semantics of coq/Base/PyLib.v (generated definitions "
                              "validated against CPython on this run by tools/pycorr.py: %d cases, %d mismatches; functions: %s)"
                              % (ctx.notes.get("pycorr_cases", 0), ctx.notes.get("pycorr_mismatches", 0), ", ".join(PYCORR[prop]))]
                             if prop in PYCORR else []),
               theorems=proof["theorems"], axioms_per_theorem=proof["per_theorem"],
               stats=ctx.notes, known_findings_reproduced=sorted(known_hit),
               broken_ties=[b["what"] for b in ctx.broken_ties])
    if not cov["samples"]:
        cov["samples"] = [{"theorems": proof["theorems"][:5]}]
    ev = {"property_id": prop, "tier": tier, "seed": seed, "level": "proof", "coverage": cov,
          "assumptions": list(getattr(mod, "ASSUMPTIONS", [])) + ctx.assumptions,
          "wall_s": round(time.time() - ctx.t0, 2), "violations": len(violation_lines)}
    os.makedirs(os.path.join(VERIF, "evidence"), exist_ok=True)
    with open(os.path.join(VERIF, "evidence", "%s.json" % prop), "w") as f:
        json.dump(vlib.jsonable(ev), f, indent=1, default=str)

    print("%s tier=%s seed=%d: obligations %d/%d, evaluations %d (distinct non-trivial %d), "
          "failures %d, broken ties %d, %.1fs" %
          (prop, tier, seed, proof["discharged"], proof["obligations"], cov["evaluations"],
           cov["distinct_nontrivial"], len(uniq), len(ctx.broken_ties), time.time() - ctx.t0))
    for b in ctx.broken_ties:
        print("BROKEN-TIE %s: %s" % (b["what"], str(b["detail"])[:1500]))
    for l in violation_lines:
        print(l)
    sys.exit(1 if violation_lines else 0)


if __name__ == "__main__":
    main()

"""Shared machinery of ./vcheck: Coq build / evaluation, evidence, findings, violations."""
from __future__ import annotations
import json, os, re, subprocess, sys, time, random, hashlib, shutil
from concurrent.futures import ThreadPoolExecutor

VERIF = os.path.dirname(os.path.dirname(os.path.abspath(__file__)))
COQ = os.path.join(VERIF, "coq")
REPO = os.environ.get("XV_REPO", "/repo")
NPROC = int(os.environ.get("XV_JOBS", "16"))
COQ_ARGS = ["-Q", ".", "XV", "-w",
            "-notation-overridden,-deprecated-hint-without-locality,-ambiguous-paths,"
            "-redundant-canonical-projection,-projection-no-head-constant,-deprecated-syntactic-definition"]

FORBIDDEN = re.compile(r"\b(Admitted|admit|Axiom|Axioms|Parameter|Parameters|Conjecture|Conjectures|"
                       r"Admit Obligations|Unset Guard Checking|Unset Positivity Checking|"
                       r"Unset Universe Checking|bypass_check|type-in-type|impredicative-set)\b")


def sh(cmd, timeout=600, cwd=None, env=None):
    t0 = time.time()
    try:
        p = subprocess.run(cmd, cwd=cwd, env=env, timeout=timeout, stdout=subprocess.PIPE,
                           stderr=subprocess.STDOUT, text=True, shell=isinstance(cmd, str))
        return p.returncode, p.stdout, time.time() - t0
    except subprocess.TimeoutExpired as e:
        out = e.stdout if isinstance(e.stdout, str) else (e.stdout or b"").decode("utf8", "replace")
        return 124, out + "\n[timeout after %ss]" % timeout, time.time() - t0


# ----------------------------------------------------------------------------------------
# Coq project
# ----------------------------------------------------------------------------------------
def coq_sources():
    res = []
    for d in ("Base", "Model", "Gen", "Proofs", "Props"):
        dd = os.path.join(COQ, d)
        if os.path.isdir(dd):
            for f in sorted(os.listdir(dd)):
                if f.endswith(".v"):
                    res.append(os.path.join(d, f))
    return res


def scan_forbidden():
    """grep the development for anything that would declare an axiom or switch a check off"""
    hits = []
    for rel in coq_sources():
        txt = open(os.path.join(COQ, rel)).read()
        # strip comments (non-nested is enough for our sources; nested handled by loop)
        prev = None
        while prev != txt:
            prev = txt
            txt = re.sub(r"\(\*[^*(]*(?:\*(?!\))[^*(]*|\((?!\*)[^*(]*)*\*\)", " ", txt)
        for m in FORBIDDEN.finditer(txt):
            hits.append("%s: %s" % (rel, m.group(0)))
    return hits


def write_if_changed(path, text):
    if os.path.exists(path) and open(path).read() == text:
        return False
    os.makedirs(os.path.dirname(path), exist_ok=True)
    with open(path, "w") as f:
        f.write(text)
    return True


def coq_makefile():
    srcs = coq_sources()
    proj = open(os.path.join(COQ, "_CoqProject")).read().rstrip("\n").split("\n")
    proj = [l for l in proj if not l.endswith(".v")]
    text = "\n".join(proj + srcs) + "\n"
    changed = write_if_changed(os.path.join(COQ, "_CoqProject.gen"), text)
    if changed or not os.path.exists(os.path.join(COQ, "Makefile")):
        rc, out, _ = sh(["coq_makefile", "-f", "_CoqProject.gen", "-o", "Makefile"], cwd=COQ, timeout=60)
        if rc != 0:
            raise RuntimeError("coq_makefile failed:\n" + out)


def coq_make(targets, timeout=1500):
    """full .vo build (never -vos) of the given targets and everything they depend on"""
    coq_makefile()
    cmd = ["timeout", str(timeout), "make", "-j%d" % NPROC] + list(targets)
    rc, out, dt = sh(cmd, cwd=COQ, timeout=timeout + 30)
    return rc == 0, out, dt


def coq_prop_file(prop, timeout=600):
    """re-run coqc on Props/<prop>.v (after make built its dependencies): this is the
    checker command whose success means every obligation of the property is discharged.
    Returns (ok, n_theorems, discharged, axioms(set of str), per_theorem(dict), log)"""
    rel = "Props/%s.v" % prop
    src = open(os.path.join(COQ, rel)).read()
    theorems = re.findall(r"^\s*Theorem\s+([A-Za-z0-9_']+)", src, flags=re.M)
    rc, out, dt = sh(["timeout", str(timeout), "coqc"] + COQ_ARGS + [rel], cwd=COQ, timeout=timeout + 30)
    # parse Print Assumptions blocks in order
    blocks = []
    cur = None
    for line in out.split("\n"):
        if line.startswith("Closed under the global context"):
            blocks.append([])
            cur = None
        elif line.startswith("Axioms:"):
            cur = []
            blocks.append(cur)
        elif cur is not None:
            m = re.match(r"^([A-Za-z_][A-Za-z0-9_.']*)\s*:", line)
            if m:
                cur.append(m.group(1))
            elif line and not line.startswith(" "):
                cur = None
    printed = re.findall(r"^\s*Print Assumptions\s+([A-Za-z0-9_']+)", src, flags=re.M)
    per = {}
    for name, b in zip(printed, blocks):
        per[name] = b
    axioms = sorted({a for b in blocks for a in b})
    ok = (rc == 0) and len(blocks) == len(printed) and set(theorems) <= set(printed)
    return ok, theorems, (len(theorems) if ok else 0), axioms, per, out


def _parse_nat_list(out):
    m = re.search(r"=\s*\[(.*?)\]\s*:\s*list nat", out, flags=re.S)
    if not m:
        return None
    body = m.group(1).strip()
    if not body:
        return []
    return [int(x.replace("%nat", "")) for x in re.split(r"[;\s]+", body) if x]


def coq_eval_file(name, text, timeout=600):
    d = os.path.join(COQ, "Cases")
    os.makedirs(d, exist_ok=True)
    path = os.path.join(d, name + ".v")
    with open(path, "w") as f:
        f.write(text)
    rc, out, dt = sh(["timeout", str(timeout), "coqc"] + COQ_ARGS + ["Cases/%s.v" % name], cwd=COQ,
                     timeout=timeout + 30)
    return rc, out


def coq_bool_cases(tag, header, cases, chunk=250, timeout=900, keep=False):
    """cases: list of Coq terms of type bool.  Returns (failed_indices, errors).
    Each chunk file evaluates the list with vm_compute and prints the indices that are false."""
    files = []
    for ci in range(0, len(cases), chunk):
        part = cases[ci:ci + chunk]
        name = "%s_%d_%d" % (tag, os.getpid(), ci // chunk)
        body = ["From Coq Require Import List Bool.", "Import ListNotations.", header,
                "Definition xv_cases : list bool := ["]
        body.append(";\n".join("(%s)" % c for c in part))
        body.append("].")
        body.append("Fixpoint xv_bad (i : nat) (l : list bool) : list nat := match l with [] => [] "
                    "| b :: r => if b then xv_bad (S i) r else i :: xv_bad (S i) r end.")
        body.append("Eval vm_compute in (xv_bad 0 xv_cases).")
        files.append((ci, name, "\n".join(body)))
    failed, errors = [], []

    def run(item):
        ci, name, text = item
        rc, out = coq_eval_file(name, text, timeout)
        return ci, name, rc, out

    with ThreadPoolExecutor(max_workers=NPROC) as ex:
        for ci, name, rc, out in ex.map(run, files):
            lst = _parse_nat_list(out) if rc == 0 else None
            if lst is None:
                errors.append("chunk %d: coqc rc=%d\n%s" % (ci, rc, out[-3000:]))
            else:
                failed.extend(ci + i for i in lst)
            if not keep:
                for ext in (".v", ".vo", ".vok", ".vos", ".glob"):
                    try:
                        os.remove(os.path.join(COQ, "Cases", name + ext))
                    except OSError:
                        pass
                try:
                    os.remove(os.path.join(COQ, "Cases", "." + name + ".aux"))
                except OSError:
                    pass
    return failed, errors


def coq_nat_cases(tag, header, cases, chunk=100, timeout=900):
    """cases: list of Coq terms of type nat. Returns (list of ints or None per case, errors)."""
    files = []
    for ci in range(0, len(cases), chunk):
        part = cases[ci:ci + chunk]
        name = "%s_%d_n%d" % (tag, os.getpid(), ci // chunk)
        body = ["From Coq Require Import List.", "Import ListNotations.", header,
                "Definition xv_cases : list nat := [", ";\n".join("(%s)" % c for c in part), "]%nat.",
                "Eval vm_compute in xv_cases."]
        files.append((ci, len(part), name, "\n".join(body)))
    res = [None] * len(cases)
    errors = []

    def run(item):
        ci, n, name, text = item
        rc, out = coq_eval_file(name, text, timeout)
        return ci, n, name, rc, out

    with ThreadPoolExecutor(max_workers=NPROC) as ex:
        for ci, n, name, rc, out in ex.map(run, files):
            lst = None
            if rc == 0:
                m = re.search(r"=\s*\[(.*?)\]\s*:\s*list nat", out, flags=re.S)
                if m:
                    lst = [int(x.replace("%nat", "")) for x in re.split(r"[;\s]+", m.group(1).strip()) if x]
            if lst is None or len(lst) != n:
                errors.append("chunk %d: coqc rc=%d\n%s" % (ci, rc, out[-3000:]))
            else:
                res[ci:ci + n] = lst
            for ext in (".v", ".vo", ".vok", ".vos", ".glob"):
                try:
                    os.remove(os.path.join(COQ, "Cases", name + ext))
                except OSError:
                    pass
            try:
                os.remove(os.path.join(COQ, "Cases", "." + name + ".aux"))
            except OSError:
                pass
    return res, errors


def coq_show(tag, header, term, timeout=120):
    """evaluate one term and return Coq's printed answer (diagnostics in replays)"""
    name = "%s_show_%d" % (tag, os.getpid())
    rc, out = coq_eval_file(name, header + "\nEval vm_compute in (%s).\n" % term, timeout)
    for ext in (".v", ".vo", ".vok", ".vos", ".glob"):
        try:
            os.remove(os.path.join(COQ, "Cases", name + ext))
        except OSError:
            pass
    try:
        os.remove(os.path.join(COQ, "Cases", "." + name + ".aux"))
    except OSError:
        pass
    return out.strip()


# ----------------------------------------------------------------------------------------
# Coq term printers
# ----------------------------------------------------------------------------------------
def cnat(n):
    assert isinstance(n, int) and 0 <= n < 5000, n
    return "%d" % n


def cZ(n):
    n = int(n)
    return "(%d)%%Z" % n


def clist(items):
    return "[" + "; ".join(items) + "]"


def cbool(b):
    return "true" if b else "false"


def cQ(fr):
    """a fractions.Fraction as a Coq Q literal"""
    return "(%d # %d)%%Q" % (fr.numerator, fr.denominator)


def cfloat(x):
    """exact PrimFloat literal from a python float"""
    import math
    if x != x:
        return "nan"
    if x == math.inf:
        return "infinity"
    if x == -math.inf:
        return "neg_infinity"
    return "(%s)%%float" % float(x).hex()


# ----------------------------------------------------------------------------------------
# Findings
# ----------------------------------------------------------------------------------------
def load_findings(prop):
    path = os.path.join(VERIF, "known_findings.json")
    if not os.path.exists(path):
        return []
    data = json.load(open(path))
    return [f for f in data.get("findings", []) if f.get("property") == prop]


# ----------------------------------------------------------------------------------------
# Check context
# ----------------------------------------------------------------------------------------
class Ctx:
    def __init__(self, prop, tier, seed):
        self.prop, self.tier, self.seed = prop, tier, seed
        self.rng = random.Random((hash_str(prop) * 1000003 + seed) & 0xFFFFFFFF)
        self.t0 = time.time()
        self.failures = []          # dicts: kind, key, input, observed, expected, detail
        self.broken_ties = []       # dicts: what, detail
        self.coverage = {"evaluations": 0, "distinct_nontrivial": 0, "samples": [],
                         "traces_validated_against_impl": 0}
        self.assumptions = []
        self.distinct = set()
        self.notes = {}
        self.known_printed = []

    def thorough(self):
        return self.tier == "thorough"

    def n(self, quick, thorough):
        return thorough if self.tier == "thorough" else quick

    def count(self, key=None, nontrivial=True, n=1):
        self.coverage["evaluations"] += n
        if nontrivial and key is not None:
            self.distinct.add(key if isinstance(key, (str, int, tuple)) else json.dumps(key, sort_keys=True, default=str))

    def sample(self, s, limit=6):
        if len(self.coverage["samples"]) < limit:
            self.coverage["samples"].append(s)

    def fail(self, kind, key, input, observed, expected, detail=None):
        self.failures.append({"kind": kind, "key": key, "input": input, "observed": observed,
                              "expected": expected, "detail": detail})

    def broken(self, what, detail):
        self.broken_ties.append({"what": what, "detail": detail})

    def stat(self, name, inc=1):
        self.notes[name] = self.notes.get(name, 0) + inc


def hash_str(s):
    return int(hashlib.sha256(s.encode()).hexdigest()[:8], 16)


def jsonable(x):
    try:
        import torch
        if isinstance(x, torch.Tensor):
            if x.is_complex():
                return {"complex": [[float(v.real), float(v.imag)] for v in x.detach().reshape(-1)],
                        "shape": list(x.shape)}
            return {"tensor": x.detach().reshape(-1).tolist(), "shape": list(x.shape), "dtype": str(x.dtype)}
    except Exception:
        pass
    if isinstance(x, dict):
        return {str(k): jsonable(v) for k, v in x.items()}
    if isinstance(x, (list, tuple)):
        return [jsonable(v) for v in x]
    if isinstance(x, (int, float, str, bool)) or x is None:
        return x
    if isinstance(x, complex):
        return [x.real, x.imag]
    return repr(x)

"""writes MANIFEST.json from the table below (kept in one place so it is always valid)"""
import json, os
VERIF = os.path.dirname(os.path.dirname(os.path.abspath(__file__)))
ALL = ["C%02d" % i for i in range(1, 21)]

CLAIMS = {
 "C19": dict(
    text="Coq theorems on a reference-graph model of CPython's reference counting (any finite graph): a graph that admits a rank "
         "increasing along every reference (checked by an executable certificate) and has no outside reference is reclaimed "
         "completely without a cyclic collector; a set of objects each referenced by a member of the set (an output stored on its own "
         "autograd context, an object holding a closure over itself) survives for ever; whatever the caller references survives; and the "
         "complete characterisation: a node survives exactly when it belongs to a supported set (every member referenced by a root or "
         "by another member), so with nothing held by the caller something survives iff the references contain such a set. "
         "The model runs on the reference graphs extracted from the library's helper objects after each call (exact agreement with "
         "the objects that are really still alive), and every graph without survivors passes the certificate.",
    note="Partial: references held on the C++ side (autograd nodes, saved tensors) are invisible to the extraction; they are covered "
         "by the project's own criterion - live torch.Tensor count before / after k calls with the cyclic collector disabled - for "
         "every functional x method x function kind x history, as an implementation oracle. Trusted: Coq kernel + vm_compute; "
         "gc.get_referents / weak references; capture hooks of the harness.",
    technique="Coq proof (reference-count reclamation on reference graphs, rank certificate) + extracted-graph model correspondence + live-tensor oracle",
    ref="DESIGN.md section 7, C19"),
 "C08": dict(
    text="TRANSLATED CODE (TensorNonTensorSeparator regenerated from /repo on every run, validated against CPython): for EVERY parameter list split-then-reconstruct_params is the identity, new tensor arguments land at the tensor positions in order, wrong counts are rejected. "
         "MathComp theorems (any number of segments, any sizes, any commutative ring): the segment loop of _SolveIVP.backward over "
         "linear adjoint flows computes lam_i = g_i + P_i lam_{i+1}, q_i = q_{i+1} + Q_i lam_{i+1}; the result is additive in the "
         "cotangents and a cotangent at one output time gives the composed pull-back - re-seeding segment by segment equals one "
         "independent adjoint solve per output time; the symbolic partial derivatives used for the augmented dynamics are the "
         "derivative. The executable model (augmented dynamics with the source's signs, re-seeding, time-gradient terms, assembly; "
         "the nested solves as an oracle tape recorded through a callable step solver) runs at binary64 against the implementation.",
    note="Partial: the continuous adjoint-sensitivity theorem (Pontryagin) is cited, not formalised; agreement with closed-form "
         "sensitivities (matrix exponential, logistic, time-dependent decay) for every method, direction, function kind, tuple "
         "states, requires-grad subsets, first and second order is an implementation oracle within integrator accuracy. Trusted: Coq "
         "kernel + vm_compute + PrimFloat; the step solvers (C07); autograd's vector-Jacobian products.",
    technique="Coq/MathComp proof (superposition of the adjoint segment loop) + oracle-tape model correspondence of the backward pass",
    ref="DESIGN.md section 7, C08"),
 "C06": dict(
    text="MathComp theorems (any size, any commutative ring, any derivation D, A and M symmetric, one non-degenerate kept column of a "
         "partial spectrum with M): Hellmann-Feynman de = x^T (dA - e dM) x; the tangent of the vector solves the shifted system and its "
         "M-parallel part is fixed by the normalisation; the cotangents accumulated by symeig_torchfcn.backward (value, projected "
         "right-hand side + shifted solve + re-orthogonalisation, M-value, M-vector and parallel terms) satisfy <g, dx> + g_e de = "
         "<accA, dA x> + <accM, dM x> for EVERY tangent; the dense-path backward (full spectrum, distinct eigenvalues: "
         "Y (F o Y^T G) Y^T + Y diag(g_e) Y^T, symmetrised) is the adjoint of the tangent of the eigendecomposition. Both formulas are also "
         "proved for COINCIDING eigenvalues (any degeneracy map that masks the exactly degenerate pairs, cotangent with Y^T G symmetric on "
         "the masked pairs - shown to be first-order gauge invariance; k kept columns with the coupled parallel term on the implicit path) "
         "and in the COMPLEX Hermitian case (conjugation cj, derivation commuting with it, real-part pairing, phase gauge), dense and "
         "implicit, distinct and coinciding. The executable model of the implicit backward (degeneracy map, _ortho, solve "
         "as an oracle) and of the dense-path backward runs at binary64 / complex binary64 against autograd (2^-26).",
    note="Partial: the theorems assume a solution of the (singular) shifted systems; their numerical solution (findings F30, F39), svd "
         "through symeig of A^H A and the agreement with a dense reference at finite precision are covered by the model correspondence "
         "and the oracle (torch.linalg.eigh / svd autograd; finite differences at exact degeneracies), not by a theorem. "
         "Trusted: Coq kernel + vm_compute + PrimFloat; autograd's pull-backs; solve (C01, C02).",
    technique="Coq/MathComp proof (adjoint of the eigenpair tangent under a derivation) + backward-formula model correspondence",
    ref="DESIGN.md section 7, C06"),
 "C05": dict(
    text="MathComp theorems (any size, any field with an involutive conjugation): the Cholesky-reduced dense path returns X = L^-H Y with "
         "A X = M X diag(e) and X^H M X = I; tallqr M-orthonormalises; Ritz vectors of an M-orthonormal basis are M-orthonormal, their "
         "residual is orthogonal to the basis, and on the full space they are exact; the svd factors built from the eigenpairs of "
         "B^H B are orthonormal with B v = s u, B^H u = s v and U diag(s) V^H = B for full k. List theorems: the slice keeps exactly "
         "the neig extreme values of an ascending list (both modes); davidson returns the visited Ritz pair of least residual and the "
         "residual exit implies it is below min_eps. The executable model (LAPACK answers on a tape) runs at binary64 / complex "
         "binary64 against symeig and svd: eigh / cholesky arguments, Rayleigh matrices, exits, iteration counts, returned pairs.",
    note="Trusted: Coq kernel + vm_compute + PrimFloat; torch.linalg.eigh / cholesky / inverse as oracles whose answers are checked "
         "against their specifications on every case; convergence of davidson in floating point (oracle over spectra, operator kinds, "
         "batches). Open findings F26 (svd of rank-deficient operators) and F27 (davidson normalising a noise direction).",
    technique="Coq/MathComp proof (generalised eigenproblem and svd algebra, slice and best-iterate theorems) + oracle-tape model correspondence",
    ref="DESIGN.md section 7, C05"),
 "C04": dict(
    text="TRANSLATED CODE (TensorNonTensorSeparator regenerated from /repo on every run, validated against CPython): for EVERY parameter list split-then-reconstruct_params is the identity, new tensor arguments land at the tensor positions in order, wrong counts are rejected. "
         "[complex unknowns: the conjugate version J^H g = -G, P^H g is proved too] MathComp theorems: for every tangent of f(y(theta), theta) = 0 the two steps of the backward pass (solve J^T g = -G, pull g "
         "back through theta |-> f(y*, theta)) give <G, dy> = <P^T g, dtheta> (any size, any commutative ring); the gradient is "
         "determined by (y*, theta) alone - no forward method, y0 or backward solver enters; the tensor / non-tensor separation "
         "round-trips for every pattern of length <= 10 (by computation) and rejects wrong lengths. The executable Gallina model "
         "(symbolic Jacobians at the returned point, Gauss-Jordan) runs at IEEE binary64 against autograd through the public "
         "rootfinder / equilibrium / minimize for every forward method and backward solver (2^-22).",
    note="Trusted: Coq kernel + vm_compute + PrimFloat; autograd's pull-back through the user function; jac and solve (C17, C02). "
         "Second order, independence from y0 / method, no gradient to y0 and non-tensor parameters are implementation oracles "
         "against a Newton-polished differentiable reference.",
    technique="Coq/MathComp proof (adjoint of the implicit-function tangent) + symbolic-Jacobian model correspondence",
    ref="DESIGN.md section 7, C04"),
 "C17": dict(
    text="MathComp theorems: the symbolic Jacobian of the expression language is the derivative under any derivation; mixed second "
         "partials commute (Hessian symmetric, so rmv = mv is sound); mv (double-backward trick) and rmv (plain backward) are "
         "adjoint; a Jacobian operator (mv + rmv leaf) has mm / rmm / fullmatrix / .H consistent with the same matrix (instance of "
         "C11). The symbolic Jacobian / Hessian model runs at IEEE binary64 against xitorch.grad.jac / hess (mv, rmv, fullmatrix) "
         "to 2^-40.",
    note="Trusted: Coq kernel + vm_compute + PrimFloat; autograd on polynomial maps. Shapes, index selections, rejection of "
         "non-differentiable arguments, batched operands, differentiability of the products and cache freshness are implementation "
         "oracles. Known finding F24: an argument the function ignores raises instead of giving the zero operator.",
    technique="Coq/MathComp proof (symbolic differentiation correctness, symmetry of second partials) + model correspondence",
    ref="DESIGN.md section 7, C17"),
 "C02": dict(
    text="[complex case: the same identity for the sesquilinear pairing tr(G^H dX) with the adjoint system (A - E M)^H V = G, any field with an involutive conjugation] MathComp theorems over any commutative ring, any derivation (any differentiable parametrisation; applied twice: second "
         "order), any size and number of columns: the tangent of A X - M X E = B; the four outputs of the backward pass (grad_B = V, "
         "-V X^T, V (XE)^T, diag(V^T M X)) with V solving the transposed system pair with every tangent to <G, dX> (adjoint identity); "
         "inputs that do not influence X get zero; the branch without E/M is the instance M=1, E=0. The executable Gallina model of "
         "the backward formulas runs at IEEE binary64 (Gauss-Jordan) against autograd through the public solve for all forward x "
         "backward method combinations (2^-24).",
    note="Trusted: Coq kernel + vm_compute + PrimFloat; autograd's chain rule through A.mm/M.mm; harness. Second order, matrix-free / "
         "composed / shared-parameter operators, batches, complex128 (conjugation placement) and unused inputs are compared on the "
         "implementation with a dense differentiable reference graph.",
    technique="Coq/MathComp proof (matrix algebra under an arbitrary derivation) + executable backward-formula correspondence",
    ref="DESIGN.md section 7, C02"),
 "C01": dict(
    text="TRANSLATED CODE (regenerated from /repo on every run, validated against CPython): get_bcasted_dims IS the broadcast shape of the model for any two or more shapes. "
         "Coq theorems: for any carrier / operator / number of columns / options, a silent return of cg and bicgstab carries "
         "residual norms of the RETURNED iterate below max(rtol|b_j|, atol) for every column; MathComp (any field, any size): one "
         "step of each recurrence preserves r = b - A x (so the test is on the true residual in exact arithmetic), the "
         "normal-equation fallback solves the original system, the adjoint of A - eM is A^H - conj(e)M^H, the Cholesky reduction "
         "for M and the per-column shifted solve are sound; broadcast-shape and default-method facts. The Gallina loops run at "
         "IEEE binary64 against cg / bicgstab with a counting operator (warned, operator applications, returned block; decisions "
         "unstable under a factor 2-4 of the thresholds are skipped and counted).",
    note="Trusted: Coq kernel + vm_compute + PrimFloat; harness. Convergence in floating point, torch.linalg.solve/cholesky/lstsq, "
         "broyden1 and the agreement clauses are implementation oracles (operator kinds x methods x E/M x batches x dtypes) with a "
         "corpus of recorded witnesses. gmres: known findings F12a/F12b (no E, < 2 batch dims) - printed as KNOWN-FINDING.",
    technique="Coq proof (loop invariants; MathComp matrix identities) + float model correspondence + dense-reference oracle",
    ref="DESIGN.md section 7, C01"),
 "C03": dict(
    text="Coq theorems for ANY carrier, residual function, quasi-Newton strategy, tolerances and budget: a silent return of the "
         "root loop hands back the very iterate on which the four-way stopping test succeeded (evaluated on func of that point) "
         "or an exact root; what the test implies; on the warning path the returned point is the initial point or a visited "
         "iterate; at most maxiter evaluations after the first; gd returns x0 silently for maxiter=0 and, with a warning, one of "
         "the evaluated points; MathComp: both Broyden updates satisfy the secant condition, LowRankMatrix products, equilibrium "
         "reduction. The Gallina loop with LinearMixing / Broyden (LowRank->FullRank) matrices and gd runs at IEEE binary64 "
         "against the public rootfinder / minimize: every evaluation point, warned or not, returned point (2^-30; thin margins skipped).",
    note="Trusted: Coq kernel + vm_compute + PrimFloat; harness. The Armijo line search, newton, anderson_acc, adam and the "
         "convergence of all methods on contractive families (silent, agreeing, right shape/dtype, complex unknowns, minimize "
         "clauses) are implementation oracles, not theorems.",
    technique="Coq proof (loop invariant by induction on fuel; MathComp matrix algebra) + float model correspondence",
    ref="DESIGN.md section 7, C03"),
 "C14": dict(
    text="TRANSLATED CODE (regenerated from /repo on every run, validated against CPython): get_bcasted_dims IS the broadcast shape of the model for any two or more shapes. "
         "MathComp theorems over any ordered field with the code's own coefficients: the two evaluation formulas of each "
         "method coincide; sample values are reproduced at the knots; every cubic piece has the spline's k values as end slopes "
         "(C1); an interior row of the code's linear system holds iff the second derivatives of adjacent pieces agree (C2); the "
         "natural / not-a-knot / periodic boundary rows are exactly (second derivative zero) / (third derivative continuous) / "
         "(second derivative periodic); the bracket search returns an interval of the sorted grid containing the query (Z carrier); "
         "the periodic / mirror / bound position maps land in range with the documented symmetry. The Gallina model of the whole "
         "pipeline runs at IEEE binary64 against the public Interp1D (linear 2^-44, cspline 2^-26, extrapolated positions bit for bit).",
    note="Trusted: Coq kernel + vm_compute + PrimFloat; torch.linalg.solve modelled by Gauss-Jordan; sort/searchsorted/gather "
         "contracts; floor oracle validated by the model. Sorting, y at init/call, batches, extrapolation values and gradients are "
         "implementation oracles. The clamped boundary rows are covered by the tie and the oracle only.",
    technique="Coq/MathComp field identities on the code's coefficients + float model correspondence",
    ref="DESIGN.md section 7, C14"),
 "C15": dict(
    text="MathComp theorems: the trapz piece, the cubic-Hermite piece ((yl+yr)dx/2 + (kl-kr)dx^2/12) and the irregular-spacing "
         "Simpson weights (even double-interval weights and odd-index correction integrate 1, s, s^2 exactly) are the exact "
         "integrals of the respective interpolants; the trapz weight matrix has a zero first row and consecutive rows differ by the "
         "next interval's trapezoid. The Gallina model of the three weight builders runs at IEEE binary64 against the public SQuad: "
         "trapz and simpson matrices and the cspline gradient weights bit for bit, cspline cumsum to 2^-26.",
    note="Trusted: Coq kernel + vm_compute + PrimFloat; harness. The cumulative structure of the simpson and cspline matrices "
         "beyond their piece weights, dim/keepdim handling, linearity and rejections are implementation oracles.",
    technique="Coq/MathComp field identities + bit-exact weight-matrix correspondence",
    ref="DESIGN.md section 7, C15"),
 "C12": dict(
    text="MathComp theorems over any ordered field, any number of nodes: a reference rule whose moments are exact up to degree d "
         "gives, after the affine map the code applies, a rule that integrates every monomial of degree <= d exactly on [xl, xu] "
         "for all xl, xu in any order (binomial identity proved); linearity in the integrand; sign change under swapped limits "
         "for node-symmetric rules; additivity over adjacent intervals; exactness for EVERY polynomial of degree <= d. The Gallina model of leggauss (fed with numpy's table) "
         "and of the tan transform is run at IEEE binary64 bit for bit against the public quad: every abscissa and the value.",
    note="Trusted: Coq kernel + vm_compute + PrimFloat; numpy's leggauss table (its moment defect <= 1e-13 up to degree 2n-1 is "
         "measured with exact rationals - a test of the oracle, not a theorem); torch.tan/cos/atan; the change of variables for "
         "infinite limits is cited calculus.",
    technique="Coq/MathComp proof (bigop + binomial identity) + bit-exact float model correspondence",
    ref="DESIGN.md section 7, C12"),
 "C13": dict(
    text="MathComp theorems for any derivation (any parametrisation, any order): the derivative of the quadrature is the same "
         "quadrature of the differentiated integrand; tensors that do not influence the integrand get zero; the symbolic "
         "derivative used by the executable gradient model is the derivative; the backward quadrature's options are the forward "
         "options updated by bck_options; for exactly integrated polynomial integrands the Leibniz limit gradient f(xu) D xu - f(xl) D xl is "
         "the derivative of the forward value. The gradient model (rule applied to d f/d theta, second order, Leibniz terms) is "
         "evaluated by vm_compute and compared with autograd through the public quad to 2^-36; the option flow is compared exactly.",
    note="Trusted: Coq kernel + vm_compute + PrimFloat; autograd's pull-back through the user function; harness. Number / infinite "
         "limits, unused and object-held tensors, linear integrands at second order are implementation oracles.",
    technique="Coq/MathComp proof under an arbitrary derivation + symbolic-derivative model correspondence + exact option-flow tie",
    ref="DESIGN.md section 7, C13"),
 "C16": dict(
    text="Coq theorems: mh draws exactly nsamples samples after nburnout steps and accepts by the documented rule; mhcustom "
         "returns nsamples samples continuing from the burned-in state (any carrier, any step function); MathComp theorems over "
         "any field and any derivation: uniform and normalised weights sum to one, constants are reproduced, the mean is "
         "linear, the gradient w.r.t. parameters of f is the mean of df, the general derivative of the normalised weighted "
         "mean is the mean of df plus the covariance (score-function) term - the two integrals of the backward pass - and "
         "unused parameters get zero. The sampler model runs at IEEE binary64 bit for bit against the public mcquad (mhcustom "
         "steps; mh with injected random streams): sample sequence and value.",
    note="Trusted: Coq kernel + vm_compute + PrimFloat; harness (stream injection). Gradient values (1st/2nd order, object-held "
         "and unused parameters, deterministic 1-D sampler) are compared with explicit autograd of the same weighted sums on the "
         "implementation; the statistical quality of Metropolis sampling is not claimed.",
    technique="Coq/MathComp proof (lists; bigop algebra under an arbitrary derivation) + bit-exact float model correspondence",
    ref="DESIGN.md section 7, C16"),
 "C09": dict(
    text="TRANSLATED CODE (Uniquifier, PureFunction.set_objparams/restore_objparams/_check_identical_objs, EditableModule unique-parameter search and setuniqueparams scatter: regenerated from /repo on every run, validated against CPython on real objects): the Uniquifier constructor computes the model's first-occurrence de-duplication for every list; set_objparams / restore_objparams ARE the model's transitions and set-then-restore gives back store, current parameters and stack; setuniqueparams = map_unique and setuniqueparams(getuniqueparams()) = id for all aliasing patterns up to 7 slots. "
         "Coq theorems over the model of the parameter de-duplication and substitution machinery: mapping the unique "
         "parameters back gives every slot its own tensor, the unique list has each distinct tensor once, aliasing is "
         "preserved under substitution, user code inside useobjparams sees in every named slot the tensor supplied for that "
         "slot's class, multi-sibling parameter splitting inverts concatenation - for all aliasing patterns and lengths. "
         "Exact correspondence of the model with Uniquifier / EditableModule unique maps / PureFunction substitution; and an "
         "implementation oracle: 12 functional workloads x 9 function kinds give the same values and 1st/2nd-order gradients "
         "as the pure form.",
    note="Trusted: Coq kernel + vm_compute; harness. The equality of results across function kinds is checked on the "
         "implementation (pairwise, tolerance of the iterative solvers), it is not a theorem; the attribute-path tokenizer of "
         "_utils/attr.py is exercised (list, dict, nested module paths) but not modelled.",
    technique="Coq proof (lists / first-occurrence de-duplication) + exact correspondence + pairwise function-kind oracle",
    ref="DESIGN.md section 7, C09"),
 "C10": dict(
    text="TRANSLATED CODE (Uniquifier, PureFunction.set_objparams/restore_objparams/_check_identical_objs, EditableModule unique-parameter search and setuniqueparams scatter: regenerated from /repo on every run, validated against CPython on real objects): the Uniquifier constructor computes the model's first-occurrence de-duplication for every list; set_objparams / restore_objparams ARE the model's transitions and set-then-restore gives back store, current parameters and stack; setuniqueparams = map_unique and setuniqueparams(getuniqueparams()) = id for all aliasing patterns up to 7 slots. "
         "Coq theorems: every well-bracketed program of parameter substitutions, state-change locks, debug switches and "
         "user-code evaluations, with a crash at ANY evaluation or none, returns the object store, the wrapper's current "
         "parameters, the restore stack, the permission flag and the debug flag to exactly their initial values (induction on "
         "programs); LIFO unwinding; refused substitution touches nothing; nn.Module parameter registration (objects and "
         "order) is preserved by substitute-then-restore. The executable model is compared exactly with the real wrappers on "
         "random programs x every crash index; the public functionals are subjected to crash-point enumeration (every "
         "evaluation index, forward / backward / double backward, 8 object-holding function kinds, LinearOperator products).",
    note="Trusted: Coq kernel + vm_compute; harness snapshots (identity, value, Parameter registration and order). Crash "
         "points are evaluations of user code, not asynchronous exceptions.",
    technique="Coq proof by induction over bracketed programs with crash points + exact correspondence + crash-point enumeration",
    ref="DESIGN.md section 7, C10"),
 "C11": dict(
    text="TRANSLATED CODE (regenerated from /repo on every run, validated against CPython): get_bcasted_dims IS the broadcast shape of the model for any two or more shapes. "
         "Coq/MathComp theorems for every operator expression tree, every size, operand width and commutative ring with "
         "involution: mv/mm apply the expression's matrix, rmv/rmm its conjugate transpose, fullmatrix returns it; no product "
         "reaches a NotImplementedError stub for any subset of optional methods; the simplifying constructors preserve the "
         "matrix; capability flags are those of the class itself for every class table and instantiation history. The "
         "dispatch model (plain Gallina) is run by vm_compute against the implementation: the structure the operators build "
         "and the exact sequence of user-level products each of the five operations calls, plus the flag state machine.",
    note="Trusted: Coq kernel + vm_compute; tracing harness. Modelled: torch.matmul, autograd adjoint = conjugate transpose, "
         "user's optional methods agree with _mv. Values/batch broadcasting/shape errors are an exact dense-reference oracle "
         "on the implementation (integers / Gaussian integers).",
    technique="Coq/MathComp proof by induction on operator expressions + exact call-trace correspondence of the dispatch model",
    ref="DESIGN.md section 7, C11"),
 "C07": dict(
    text="Coq theorems: every Runge-Kutta order condition (all rooted trees up to the declared order, enumeration "
         "proved complete) for the five tableaux as regenerated from /repo on every run - rk4/rk38 order exactly 4, "
         "euler 1, rk23 3(2), rk45 5(4) with FSAL rows, estimator orders, exponents and method-name bindings; "
         "structure theorems of the fixed-step driver for any carrier/field/tableau (y(ts0)=y0, one output per time, "
         "prefix independence, exactly s evaluations per interval) and of the adaptive controller (committed steps "
         "have scaled error < 1, clipped steps land on the target, step-factor bounds). The Gallina models are run at "
         "IEEE binary64 by vm_compute against the implementation: fixed-step bit for bit (trajectory and every fcn "
         "call), adaptive on decisions and to 2^-30.",
    note="Trusted: Coq kernel + vm_compute incl. PrimFloat primitives; tableau translator; harness. Butcher's theorem "
         "(order conditions <=> local error) is cited, not formalised; accuracy/reversal/tuple clauses are additionally "
         "exercised on closed-form problems as an implementation oracle.",
    technique="Coq proof over translator-regenerated tableaux (order conditions by complete tree enumeration) + float-instance model correspondence",
    ref="DESIGN.md section 7, C07"),
 "C18": dict(
    text="TRANSLATED CODE (get_method, set_default_option, get_and_pop_keys regenerated from /repo on every run, validated against CPython): get_method refines the dispatch model and never returns a silent default; get_and_pop_keys hands over exactly the requested keys and removes them; "
         "Coq theorems over a model of get_method and of the code in front of it in all ten functionals: "
         "dispatch is case-insensitive for every string, unknown names are rejected (never defaulted), callables are "
         "passed through, custom callables receive the caller's options minus `method`; the name tables are "
         "regenerated from /repo by a translator on every run and table facts (keys lower-case/distinct, every key, "
         "documented name and default dispatches) are re-proved by computation. Exact spy-based correspondence of "
         "the dispatch outcome through the public API; gradient-independence from the forward method is checked "
         "on the implementation with closed-form callables (1st and 2nd order).",
    note="Trusted: Coq kernel + vm_compute; translator (ast+reflection); spy harness. ASCII names. The clause "
         "'gradients identical for any forward method' is an implementation oracle, not a theorem (it follows from the "
         "backward models of C02/C04/C08/C13 having no data path from the method).",
    technique="Coq proof over translator-regenerated tables + exact dispatch correspondence + closed-form-callable gradient oracle",
    ref="DESIGN.md section 7, C18"),
 "C20": dict(
    text="TRANSLATED CODE (packer._get_unique_idxs regenerated from /repo on every run, validated against CPython) computes the model's get_unique_idxs for every tensor list. "
         "Coq theorems over a Gallina model of Packer (extract/put round-trip, unique index spec, aliasing, "
         "flat round-trip, state = function of structure and of which get_* occurred, rejections) for all "
         "structures, aliasing patterns and operation sequences; model tied to /repo by exact differential "
         "correspondence (vm_compute) on random and exhaustively enumerated structures x op sequences.",
    note="Trusted: Coq kernel + vm_compute; harness canonicalisation; deepcopy/cat/reshape modelled. No axioms.",
    technique="Coq proof (induction on nested structures / op lists) + exact model-vs-code correspondence",
    ref="DESIGN.md section 7, C20"),
}

def main():
    checks = []
    for p in ALL:
        if p not in CLAIMS:
            continue
        c = CLAIMS[p]
        checks.append({
            "property_id": p,
            "quick_cmd": "./vcheck %s --tier quick" % p,
            "thorough_cmd": "./vcheck %s --tier thorough" % p,
            "evidence_file": "/verif/evidence/%s.json" % p,
            "replay_cmd_template": "./vcheck %s --replay {path}" % p,
            "engine": "coq-vcheck",
            "level_claimed": {"category": "proof", "text": c["text"], "design_ref": c["ref"]},
            "level_note": c["note"],
            "technique": c["technique"],
        })
    na = [{"property_id": p, "reason": "not claimed yet: its model/proofs/correspondence are not built in "
           "this state of /verif (design in DESIGN.md section 7); no check is registered rather than a weaker technique"}
          for p in ALL if p not in CLAIMS]
    m = {
        "version": 1,
        "setup_cmd": "bash tools/setup.sh",
        "hooks": {"guard": "XITORCH_VERIF", "enable": "export XITORCH_VERIF=1 (set by ./vcheck); no hook is compiled in: /repo is pure Python and is imported from its working tree",
                  "baseline_off_cmd": "bash /verif/tools/baseline.sh", "source_commits": [], "add_only": True},
        "engines": [{"name": "coq-vcheck", "path": "/verif/vcheck", "serves_properties": sorted(CLAIMS),
                     "kind_free_text": "Coq 8.16.1 development under /verif/coq (models, proofs, per-property theorem files) + "
                                       "Python harnesses that regenerate Gen/*.v from /repo, run the models by vm_compute against the "
                                       "implementation, and search the implementation for failing inputs"}],
        "checks": checks,
        "not_applicable": na,
        "notes": "See DESIGN.md. Known findings: known_findings.json.",
    }
    with open(os.path.join(VERIF, "MANIFEST.json"), "w") as f:
        json.dump(m, f, indent=1)
    print("claimed:", sorted(CLAIMS))

if __name__ == "__main__":
    main()

"""Translator: first-order plumbing code of xitorch (Python)  ->  Gallina over coq/Base/PyLib.v  (coq/Gen/Py*.v)

A *shallow* embedding: every listed Python function becomes one Gallina definition returning `res T`
(exceptions are the `Raise` case).  Python ints are Z, lists are lists, dicts are insertion-ordered association
lists, opaque objects (tensors, callables, None, method names) are `obj`.  Imperative code is put in state-passing
form: an assignment is a `let`, a `for` loop is `for_each` over the tuple of the variables it updates, `continue`
ends the loop body with the current state, an `if` duplicates the continuation, `raise`/failed `assert` is `Raise`.

Fail-closed: any syntactic form, built-in, method or type that is not in the table below aborts the run (the check
then reports a broken tie).  The translator is in the trusted base; what it emits is validated on every run against
CPython by tools/props (the generated definitions are evaluated by vm_compute on the same inputs as the real
functions) and the theorems of Proofs/Py*.v are re-checked against the regenerated text."""
from __future__ import annotations
import ast, os, hashlib, textwrap
import vlib


class Fail(Exception):
    pass


Z, B, S, O, U = "Z", "bool", "string", "obj", "unit"


def L(t):
    return ("list", t)


def D(k, v):
    return ("dict", k, v)


def T(*ts):
    return ("tuple",) + tuple(ts)


def coq_type(t):
    if isinstance(t, str):
        return t
    if t[0] == "list":
        return "(list %s)" % coq_type(t[1])
    if t[0] == "dict":
        return "(list (%s * %s))" % (coq_type(t[1]), coq_type(t[2]))
    if t[0] == "opt":
        return "(option %s)" % coq_type(t[1])
    if t[0] == "tuple":
        return "(" + " * ".join(coq_type(x) for x in t[1:]) + ")"
    raise Fail("type %r" % (t,))


def eqb_of(t):
    return {Z: "Z.eqb", S: "String.eqb", B: "Bool.eqb"}.get(t) or _fail("no decidable equality for %r" % (t,))


def _fail(msg):
    raise Fail(msg)


def vname(n):
    return n + "_"


def tuple_pat(names):
    if not names:
        return "_"
    if len(names) == 1:
        return names[0]
    return "'(" + ", ".join(names) + ")"


def tuple_val(names):
    if not names:
        return "tt"
    if len(names) == 1:
        return names[0]
    return "(" + ", ".join(names) + ")"


class FnCompiler:
    def __init__(self, unit, spec, fdef):
        self.unit, self.spec, self.fdef = unit, spec, fdef
        self.counter = 0
        self.ret_type = None
        self.inout = spec.get("inout", [])
        self.is_init = spec["qual"].endswith(".__init__")
        self.self_fields = []          # (name, type) in order of first assignment (only for __init__)

    def fresh(self, p="t"):
        self.counter += 1
        return "%s%d" % (p, self.counter)

    # ---------------------------------------------------------------- expressions
    def combine(self, parts, build, result_pure=True):
        names, binds = [], []
        for c, p in parts:
            if p:
                names.append(c)
            else:
                v = self.fresh()
                binds.append((v, c))
                names.append(v)
        body = build(*names)
        if not binds:
            return body, result_pure
        if result_pure:
            body = "Ok (%s)" % body
        for v, c in reversed(binds):
            body = "(%s <- %s ;; %s)" % (v, c, body)
        return body, False

    def expr(self, e, env):
        """-> (code, type, pure)"""
        subst = self.spec.get("subst")
        if subst and not isinstance(e, (ast.Constant, ast.Name)):
            txt = ast.unparse(e)
            if txt in subst:
                # a sub-expression about objects outside the first-order fragment (an operator's class, its shape, its flags)
                # is an INPUT of the translated fragment
                nm = subst[txt]
                return vname(nm), env[nm], True
        if isinstance(e, ast.Constant):
            v = e.value
            if v is None:
                return "ONone", O, True
            if isinstance(v, bool):
                return ("true" if v else "false"), B, True
            if isinstance(v, int):
                return ("%d" % v if v >= 0 else "(%d)" % v), Z, True
            if isinstance(v, str):
                if '"' in v or "\\" in v:
                    raise Fail("string literal %r" % v)
                return '"%s"%%string' % v, S, True
            raise Fail("constant %r" % (v,))
        if isinstance(e, ast.Name):
            if e.id not in env:
                raise Fail("unknown variable %s (line %d)" % (e.id, e.lineno))
            return vname(e.id), env[e.id], True
        if isinstance(e, ast.Attribute) and isinstance(e.value, ast.Name) and e.value.id == "self":
            key = "self." + e.attr
            if key not in env:
                raise Fail("unknown attribute %s (line %d)" % (key, e.lineno))
            return vname("self_" + e.attr), env[key], True
        if isinstance(e, ast.Attribute) and e.attr == "shape" and isinstance(e.value, ast.Name) and env.get(e.value.id) == L(Z) \
                and e.value.id in self.spec.get("shape_modelled", []):
            return vname(e.value.id), L(Z), True           # a tensor that the unit models by its shape
        if isinstance(e, ast.Attribute) and e.attr == "requires_grad":
            c, t, p = self.expr(e.value, env)
            if t != O:
                raise Fail(".requires_grad on %r" % (t,))
            code, pure = self.combine([(c, p)], lambda a: "obj_requires_grad %s" % a, result_pure=False)
            return code, B, False
        if isinstance(e, ast.UnaryOp):
            c, t, p = self.expr(e.operand, env)
            if isinstance(e.op, ast.Not) and t == B:
                code, pure = self.combine([(c, p)], lambda a: "(negb %s)" % a)
                return code, B, pure
            if isinstance(e.op, ast.USub) and t == Z:
                code, pure = self.combine([(c, p)], lambda a: "(- %s)" % a)
                return code, Z, pure
            raise Fail("unary op at line %d" % e.lineno)
        if isinstance(e, ast.BinOp):
            (c1, t1, p1), (c2, t2, p2) = self.expr(e.left, env), self.expr(e.right, env)
            op = type(e.op).__name__
            if t1 == Z and t2 == Z and op in ("Add", "Sub", "Mult"):
                sym = {"Add": "+", "Sub": "-", "Mult": "*"}[op]
                code, pure = self.combine([(c1, p1), (c2, p2)], lambda a, b: "(%s %s %s)" % (a, sym, b))
                return code, Z, pure
            if op == "Add" and isinstance(t1, tuple) and t1[0] == "list" and t1 == t2:
                code, pure = self.combine([(c1, p1), (c2, p2)], lambda a, b: "(%s ++ %s)" % (a, b))
                return code, t1, pure
            if op == "Mult" and isinstance(t1, tuple) and t1[0] == "list" and t2 == Z:
                code, pure = self.combine([(c1, p1), (c2, p2)], lambda a, b: "(py_repeat %s %s)" % (a, b))
                return code, t1, pure
            raise Fail("binary op %s on %r, %r (line %d)" % (op, t1, t2, e.lineno))
        if isinstance(e, ast.BoolOp):
            vals = [self.expr(v, env) for v in e.values]
            if any(t != B for _, t, _ in vals):
                raise Fail("and/or on non-bool (line %d)" % e.lineno)
            is_and = isinstance(e.op, ast.And)
            code, _, pure = vals[-1]
            for c, _, p in reversed(vals[:-1]):            # short-circuit, right-nested
                if pure and p:
                    code = "(%s %s %s)" % (c, "&&" if is_and else "||", code)
                else:
                    rest = code if not pure else "Ok (%s)" % code
                    stop = "Ok false" if is_and else "Ok true"
                    if p:
                        code = "(if %s then %s else %s)" % ((c, rest, stop) if is_and else (c, stop, rest))
                    else:
                        v = self.fresh()
                        code = "(%s <- %s ;; if %s then %s else %s)" % ((v, c, v, rest, stop) if is_and else (v, c, v, stop, rest))
                    pure = False
            return code, B, pure
        if isinstance(e, ast.Compare):
            if len(e.ops) != 1:
                raise Fail("chained comparison (line %d)" % e.lineno)
            op = type(e.ops[0]).__name__
            right = e.comparators[0]
            c1, t1, p1 = self.expr(e.left, env)
            if op in ("Is", "IsNot") and isinstance(right, ast.Constant) and right.value is None:
                if t1 != O:
                    raise Fail("`is None` on %r" % (t1,))
                f = "is_none %s" if op == "Is" else "negb (is_none %s)"
                code, pure = self.combine([(c1, p1)], lambda a: "(" + f % a + ")")
                return code, B, pure
            c2, t2, p2 = self.expr(right, env)
            if op in ("In", "NotIn"):
                if isinstance(t2, tuple) and t2[0] == "dict" and t2[1] == S and t1 == O:
                    # an object that may or may not be a string, looked up among string keys
                    code, pure = self.combine([(c2, p2), (c1, p1)], lambda d, k: "(obj_in_dict %s %s)" % (d, k))
                elif isinstance(t2, tuple) and t2[0] == "dict" and t2[1] == t1:
                    f = "d_mem %s" % eqb_of(t1)
                    code, pure = self.combine([(c2, p2), (c1, p1)], lambda d, k: "(%s %s %s)" % (f, d, k))
                elif t2 == L(Z) and t1 == Z:
                    code, pure = self.combine([(c1, p1), (c2, p2)], lambda x, l: "(mem_Z %s %s)" % (x, l))
                else:
                    raise Fail("`in` on %r (line %d)" % (t2, e.lineno))
                if op == "NotIn":
                    code = "(negb %s)" % code if pure else _fail("impure not in")
                return code, B, pure
            if t1 != t2:
                raise Fail("comparison of %r with %r (line %d)" % (t1, t2, e.lineno))
            if t1 == Z:
                sym = {"Eq": "=?", "NotEq": None, "Lt": "<?", "LtE": "<=?", "Gt": ">?", "GtE": ">=?"}.get(op, 0)
                if sym == 0:
                    raise Fail("comparison %s" % op)
                if sym is None:
                    code, pure = self.combine([(c1, p1), (c2, p2)], lambda a, b: "(negb (%s =? %s))" % (a, b))
                else:
                    code, pure = self.combine([(c1, p1), (c2, p2)], lambda a, b: "(%s %s %s)" % (a, sym, b))
                return code, B, pure
            if t1 in (S, B) and op in ("Eq", "NotEq"):
                f = eqb_of(t1)
                wrap = "(%s %s %s)" if op == "Eq" else "(negb (%s %s %s))"
                code, pure = self.combine([(c1, p1), (c2, p2)], lambda a, b: wrap % (f, a, b))
                return code, B, pure
            raise Fail("comparison %s on %r (line %d)" % (op, t1, e.lineno))
        if isinstance(e, ast.IfExp):
            (cc, tc, pc), (ca, ta, pa), (cb, tb, pb) = (self.expr(x, env) for x in (e.test, e.body, e.orelse))
            if tc != B or ta != tb:
                raise Fail("conditional expression types (line %d)" % e.lineno)
            if pa and pb:
                code, pure = self.combine([(cc, pc)], lambda c: "(if %s then %s else %s)" % (c, ca, cb))
                return code, ta, pure
            ra = ca if not pa else "Ok (%s)" % ca
            rb = cb if not pb else "Ok (%s)" % cb
            code, _ = self.combine([(cc, pc)], lambda c: "(if %s then %s else %s)" % (c, ra, rb), result_pure=False)
            return code, ta, False
        if isinstance(e, ast.Tuple):
            parts = [self.expr(x, env) for x in e.elts]
            code, pure = self.combine([(c, p) for c, _, p in parts], lambda *a: "(" + ", ".join(a) + ")")
            return code, T(*[t for _, t, _ in parts]), pure
        if isinstance(e, ast.List):
            parts = [self.expr(x, env) for x in e.elts]
            if not parts:
                raise Fail("empty list literal needs a declared type (line %d)" % e.lineno)
            ts = {t for _, t, _ in parts}
            if len(ts) != 1:
                raise Fail("heterogeneous list literal (line %d)" % e.lineno)
            code, pure = self.combine([(c, p) for c, _, p in parts], lambda *a: "[" + "; ".join(a) + "]")
            return code, L(ts.pop()), pure
        if isinstance(e, ast.Subscript):
            c1, t1, p1 = self.expr(e.value, env)
            if isinstance(e.slice, ast.Slice):
                raise Fail("slice (line %d)" % e.lineno)
            c2, t2, p2 = self.expr(e.slice, env)
            if isinstance(t1, tuple) and t1[0] == "list" and t2 == Z:
                code, _ = self.combine([(c1, p1), (c2, p2)], lambda a, b: "list_get %s %s" % (a, b), result_pure=False)
                return code, t1[1], False
            if isinstance(t1, tuple) and t1[0] == "dict" and t2 == t1[1]:
                f = eqb_of(t2)
                code, _ = self.combine([(c1, p1), (c2, p2)], lambda a, b: "d_get %s %s %s" % (f, a, b), result_pure=False)
                return code, t1[2], False
            raise Fail("subscript of %r by %r (line %d)" % (t1, t2, e.lineno))
        if isinstance(e, ast.ListComp):
            if len(e.generators) != 1 or e.generators[0].ifs or e.generators[0].is_async:
                raise Fail("comprehension shape (line %d)" % e.lineno)
            g = e.generators[0]
            ci, ti, pi, pat, env2 = self.iterable(g.iter, g.target, env)
            ce, te, pe = self.expr(e.elt, env2)
            if pe:
                code, pure = self.combine([(ci, pi)], lambda it: "(map (fun %s => %s) %s)" % (pat, ce, it))
            else:
                code, pure = self.combine([(ci, pi)], lambda it: "mapM (fun %s => %s) %s" % (pat, ce, it), result_pure=False)
            return code, L(te), pure
        if isinstance(e, ast.Call):
            return self.call(e, env)
        raise Fail("expression %s (line %d)" % (type(e).__name__, getattr(e, "lineno", 0)))

    def iterable(self, it, target, env):
        """-> (code, type, pure, binder pattern, env extended by the target)"""
        env2 = dict(env)
        if isinstance(it, ast.Call) and isinstance(it.func, ast.Name) and it.func.id == "enumerate" and len(it.args) == 1:
            c, t, p = self.expr(it.args[0], env)
            if not (isinstance(t, tuple) and t[0] == "list"):
                raise Fail("enumerate of %r" % (t,))
            code, pure = self.combine([(c, p)], lambda a: "(py_enumerate %s)" % a)
            et = T(Z, t[1])
        elif isinstance(it, ast.Call) and isinstance(it.func, ast.Name) and it.func.id == "zip" and len(it.args) == 2 \
                and not any(isinstance(a, ast.Starred) for a in it.args):
            (c1, t1, p1), (c2, t2, p2) = self.expr(it.args[0], env), self.expr(it.args[1], env)
            if not all(isinstance(t, tuple) and t[0] == "list" for t in (t1, t2)):
                raise Fail("zip of %r, %r" % (t1, t2))
            code, pure = self.combine([(c1, p1), (c2, p2)], lambda a, b: "(py_zip2 %s %s)" % (a, b))
            et = T(t1[1], t2[1])
        else:
            code, t, pure = self.expr(it, env)
            if not (isinstance(t, tuple) and t[0] == "list"):
                raise Fail("iteration over %r (line %d)" % (t, it.lineno))
            et = t[1]
        if isinstance(target, ast.Name):
            env2[target.id] = et
            pat = vname(target.id) if target.id != "_" else "_"
            if isinstance(et, tuple) and et[0] == "tuple":
                pat = "(%s : %s)" % (pat, coq_type(et)) if pat != "_" else "_"
        elif isinstance(target, ast.Tuple) and all(isinstance(x, ast.Name) for x in target.elts):
            if not (isinstance(et, tuple) and et[0] == "tuple" and len(et) - 1 == len(target.elts)):
                raise Fail("tuple target against %r (line %d)" % (et, target.lineno))
            for x, tx in zip(target.elts, et[1:]):
                env2[x.id] = tx
            pat = "'(" + ", ".join(vname(x.id) if x.id != "_" else "_" for x in target.elts) + ")"
        else:
            raise Fail("loop target (line %d)" % target.lineno)
        return code, L(et), pure, pat, env2

    def call(self, e, env):
        f = e.func
        if e.keywords:
            raise Fail("keyword arguments in a call (line %d)" % e.lineno)
        if isinstance(f, ast.Name):
            name = f.id
            star = [a for a in e.args if isinstance(a, ast.Starred)]
            if name == "len" and len(e.args) == 1 and not star:
                c, t, p = self.expr(e.args[0], env)
                if not (isinstance(t, tuple) and t[0] in ("list", "dict")):
                    raise Fail("len of %r" % (t,))
                code, pure = self.combine([(c, p)], lambda a: "(py_len %s)" % a)
                return code, Z, pure
            if name == "list" and len(e.args) == 1 and not star:
                c, t, p = self.expr(e.args[0], env)
                if not (isinstance(t, tuple) and t[0] == "list"):
                    raise Fail("list() of %r" % (t,))
                return c, t, p
            if name == "dict" and len(e.args) == 1 and not star:          # a shallow copy: values of the model are immutable
                c, t, p = self.expr(e.args[0], env)
                if not (isinstance(t, tuple) and t[0] == "dict"):
                    raise Fail("dict() of %r" % (t,))
                return c, t, p
            if name == "range" and len(e.args) == 1 and not star:
                c, t, p = self.expr(e.args[0], env)
                if t != Z:
                    raise Fail("range of %r" % (t,))
                code, pure = self.combine([(c, p)], lambda a: "(py_range %s)" % a)
                return code, L(Z), pure
            if name == "id" and len(e.args) == 1 and not star:
                c, t, p = self.expr(e.args[0], env)
                if t != O:
                    raise Fail("id of %r" % (t,))
                code, pure = self.combine([(c, p)], lambda a: "(obj_id %s)" % a)
                return code, Z, pure
            if name == "max" and len(e.args) == 1:
                a = e.args[0]
                c, t, p = self.expr(a.value if star else a, env)
                if t != L(Z):
                    raise Fail("max of %r" % (t,))
                fn = "py_max_star" if star else "py_max"
                code, _ = self.combine([(c, p)], lambda x: "%s %s" % (fn, x), result_pure=False)
                return code, Z, False
            if name == "zip" and len(e.args) == 1 and star:
                c, t, p = self.expr(e.args[0].value, env)
                if not (isinstance(t, tuple) and t[0] == "list" and isinstance(t[1], tuple) and t[1][0] == "list"):
                    raise Fail("zip(*x) of %r" % (t,))
                code, pure = self.combine([(c, p)], lambda a: "(py_zip_star %s)" % a)
                return code, t, pure
            if name == "isinstance" and len(e.args) == 2 and not star:
                c, t, p = self.expr(e.args[0], env)
                cls = ast.unparse(e.args[1])
                pred = {"str": "is_str", "torch.Tensor": "is_tensor"}.get(cls)
                if t != O or pred is None:
                    raise Fail("isinstance(%r, %s)" % (t, cls))
                code, pure = self.combine([(c, p)], lambda a: "(%s %s)" % (pred, a))
                return code, B, pure
            if name == "hasattr" and len(e.args) == 2 and isinstance(e.args[1], ast.Constant) and e.args[1].value == "__call__":
                c, t, p = self.expr(e.args[0], env)
                if t != O:
                    raise Fail("hasattr on %r" % (t,))
                code, pure = self.combine([(c, p)], lambda a: "(is_callable %s)" % a)
                return code, B, pure
            if name in self.unit.done:                       # a function translated earlier in this unit
                spec, rtype, ptypes = self.unit.done[name]
                if spec.get("vararg"):
                    if len(e.args) != 1 or not star:
                        raise Fail("call of vararg %s without *args" % name)
                    args = [self.expr(e.args[0].value, env)]
                else:
                    if star:
                        raise Fail("starred call of %s" % name)
                    args = [self.expr(a, env) for a in e.args]
                if [t for _, t, _ in args] != ptypes:
                    raise Fail("argument types of %s: %r vs %r" % (name, [t for _, t, _ in args], ptypes))
                code, _ = self.combine([(c, p) for c, _, p in args], lambda *a: "%s %s" % (spec["coq"], " ".join(a)),
                                       result_pure=False)
                return code, rtype, False
            raise Fail("call of %s (line %d)" % (name, e.lineno))
        if isinstance(f, ast.Attribute):
            xcalls = self.spec.get("calls", {})
            if ast.unparse(f) in xcalls:
                # a method of another translated class, called on an object held in a field (the field is the tuple of that
                # object's own fields)
                coqfn, fld, ptypes, rtype = xcalls[ast.unparse(f)]
                ftype = env.get(fld) or _fail("unknown field %s" % fld)
                args = [self.expr(a, env) for a in e.args]
                if [t for _, t, _ in args] != ptypes:
                    raise Fail("argument types of %s" % ast.unparse(f))
                us = ["u%d_" % i for i in range(len(ftype) - 1)]
                code, _ = self.combine([(c, p) for c, _, p in args],
                                       lambda *a: "(let '(%s) := %s in %s %s %s)" % (", ".join(us), self.key_var(fld), coqfn, " ".join(us), " ".join(a)),
                                       result_pure=False)
                return code, rtype, False
            if ast.unparse(f) == "torch.numel" and len(e.args) == 1:
                c, t, p = self.expr(e.args[0], env)
                if t != L(Z):
                    raise Fail("torch.numel of %r (tensors are modelled by their shapes here)" % (t,))
                code, pure = self.combine([(c, p)], lambda a: "(py_numel %s)" % a)
                return code, Z, pure
            if ast.unparse(f) == "copy.copy" and len(e.args) == 1:
                return self.expr(e.args[0], env)              # values of the model are immutable
            if f.attr == "keys" and not e.args:                             # only ever used for membership tests here
                c, t, p = self.expr(f.value, env)
                if isinstance(t, tuple) and t[0] == "dict":
                    return c, t, p
            if f.attr == "copy" and not e.args:                             # x.copy() of a list / dict
                c, t, p = self.expr(f.value, env)
                if isinstance(t, tuple) and t[0] in ("list", "dict"):
                    return c, t, p
            if f.attr == "lower" and not e.args:
                c, t, p = self.expr(f.value, env)
                if t == S:
                    code, pure = self.combine([(c, p)], lambda a: "(str_lower %s)" % a)
                    return code, S, pure
                if t == O:
                    code, _ = self.combine([(c, p)], lambda a: "(s0 <- obj_str %s ;; Ok (str_lower s0))" % a, result_pure=False)
                    return code, S, False
        raise Fail("call %s (line %d)" % (ast.unparse(f), e.lineno))

    # ---------------------------------------------------------------- statements
    def target_key(self, t):
        if isinstance(t, ast.Name):
            return t.id
        if isinstance(t, ast.Attribute) and isinstance(t.value, ast.Name) and t.value.id == "self":
            return "self." + t.attr
        raise Fail("assignment target %s (line %d)" % (ast.unparse(t), t.lineno))

    def key_var(self, key):
        return vname(key.replace(".", "_"))

    def assigned(self, stmts):
        """keys (variables / self attributes) a statement list may update"""
        out = []

        def add(k):
            if k not in out:
                out.append(k)
        for s in stmts:
            for node in ast.walk(s):
                if isinstance(node, ast.Assign):
                    for t in node.targets:
                        add(self.target_key(t.value if isinstance(t, ast.Subscript) else t))
                elif isinstance(node, ast.AnnAssign):
                    add(self.target_key(node.target))
                elif isinstance(node, ast.AugAssign):
                    add(self.target_key(node.target))
                elif isinstance(node, ast.Call) and isinstance(node.func, ast.Attribute) and \
                        node.func.attr in ("append", "update", "pop", "extend"):
                    base = node.func.value
                    add(self.target_key(base.value if isinstance(base, ast.Subscript) else base))
                elif isinstance(node, (ast.For,)):
                    for x in ast.walk(node.target):
                        if isinstance(x, ast.Name):
                            add(x.id)
        return out

    def bind_stmt(self, var, code, pure, rest):
        if pure:
            return "let %s := %s in\n%s" % (var, code, rest)
        return "%s <- %s ;;\n%s" % (var, code, rest)

    def set_var(self, key, ty, env):
        if key in env and env[key] != ty and env[key] != ("opt", ty):
            raise Fail("variable %s changes type %r -> %r" % (key, env[key], ty))
        env[key] = ty
        if self.is_init and key.startswith("self.") and key not in [k for k, _ in self.self_fields]:
            self.self_fields.append((key, ty))

    def annotation_type(self, ann):
        txt = ast.unparse(ann)
        table = {"Dict[int, int]": D(Z, Z), "List[int]": L(Z), "List": L(O), "Dict": D(S, O), "List[List[int]]": L(L(Z))}
        if txt not in table:
            raise Fail("annotation %s" % txt)
        return table[txt]

    def block(self, stmts, env, k, in_loop=None):
        """code (of type res R) for the statements followed by the continuation k(env)"""
        if not stmts:
            return k(env)
        s, rest = stmts[0], stmts[1:]

        def cont(env2):
            return self.block(rest, env2, k, in_loop)
        if isinstance(s, ast.Expr) and isinstance(s.value, ast.Constant) and isinstance(s.value.value, str):
            return cont(env)                                   # docstring
        if isinstance(s, ast.Pass):
            return cont(env)
        if isinstance(s, (ast.Assign, ast.AnnAssign)):
            if isinstance(s, ast.AnnAssign):
                target, value = s.target, s.value
                declared = self.annotation_type(s.annotation)
            else:
                if len(s.targets) != 1:
                    raise Fail("multiple assignment (line %d)" % s.lineno)
                target, value, declared = s.targets[0], s.value, None
            # x[i] = v  /  d[k] = v
            if isinstance(target, ast.Subscript):
                key = self.target_key(target.value)
                if key not in env:
                    raise Fail("unknown %s" % key)
                tc = env[key]
                var = self.key_var(key)
                ci, ti, pi = self.expr(target.slice, env)
                # the value may be `d.pop(k)` of another variable
                if self.is_pop(value):
                    return self.pop_stmt(value, env, lambda vcode, env2: self.store_item(key, var, tc, (ci, ti, pi), (vcode, tc[-1] if tc[0] == "dict" else tc[1], True), env2, cont))
                cv, tv, pv = self.expr(value, env)
                return self.store_item(key, var, tc, (ci, ti, pi), (cv, tv, pv), env, cont)
            if isinstance(target, ast.Tuple) and all(isinstance(x, ast.Name) for x in target.elts):
                names = [x.id for x in target.elts]
                if self.is_list_pop_last(value, env):
                    lkey = self.target_key(value.func.value)
                    lvar = self.key_var(lkey)
                    et = env[lkey][1]
                    pv = self.fresh("p")
                    head = "'(%s, %s) <- list_pop_last %s ;;\n" % (pv, lvar, lvar)
                    cv, tv, pvp = pv, et, True
                else:
                    head = ""
                    cv, tv, pvp = self.expr(value, env)
                if not (isinstance(tv, tuple) and tv[0] == "tuple" and len(tv) - 1 == len(names)):
                    raise Fail("tuple assignment from %r (line %d)" % (tv, s.lineno))
                env2 = dict(env)
                for nm_, t_ in zip(names, tv[1:]):
                    self.set_var(nm_, t_, env2)
                pat_ = "'(" + ", ".join(vname(nm_) for nm_ in names) + ")"
                if pvp:
                    return head + "let %s := %s in\n%s" % (pat_, cv, cont(env2))
                return head + "%s <- %s ;;\n%s" % (pat_, cv, cont(env2))
            key = self.target_key(target)
            var = self.key_var(key)
            if self.is_pop(value) and env.get(self.target_key(value.func.value), ("",))[0] == "dict":
                def after(vcode, env2):
                    env3 = dict(env2)
                    self.set_var(key, self.pop_type(value, env2), env3)
                    return "let %s := %s in\n%s" % (var, vcode, cont(env3))
                return self.pop_stmt(value, env, after)
            if isinstance(value, (ast.List, ast.Dict)) and not (value.elts if isinstance(value, ast.List) else value.keys):
                ty = self.spec.get("locals", {}).get(key) or declared
                if ty is None:
                    raise Fail("empty literal for %s needs a type (line %d)" % (key, s.lineno))
                code, pure = "[]", True
            else:
                code, ty, pure = self.expr(value, env)
                if declared is not None and declared != ty and key not in self.spec.get("locals", {}):
                    raise Fail("annotation of %s: %r vs %r" % (key, declared, ty))
            if env.get(key) == O and ty == S:
                # a variable that holds "a method name, a callable or None": a string stored in it is the string object
                code, pure = self.combine([(code, pure)], lambda a: "(OStr %s)" % a)
                ty = O
            env2 = dict(env)
            self.set_var(key, ty, env2)
            code = "(%s : %s)" % (code, coq_type(ty)) if pure else code
            return self.bind_stmt(var, code, pure, cont(env2))
        if isinstance(s, ast.AugAssign):
            key = self.target_key(s.target)
            var = self.key_var(key)
            cv, tv, pv = self.expr(s.value, env)
            if env.get(key) != Z or tv != Z or not isinstance(s.op, (ast.Add, ast.Sub)):
                raise Fail("augmented assignment (line %d)" % s.lineno)
            sym = "+" if isinstance(s.op, ast.Add) else "-"
            code, pure = self.combine([(cv, pv)], lambda a: "(%s %s %s)" % (var, sym, a))
            return self.bind_stmt(var, code, pure, cont(env))
        if isinstance(s, ast.Expr) and isinstance(s.value, ast.Call):
            c = s.value
            if isinstance(c.func, ast.Attribute) and c.func.attr == "append" and len(c.args) == 1 and isinstance(c.func.value, ast.Subscript):
                # X[i].append(v)  ==  X[i] = X[i] + [v]
                key = self.target_key(c.func.value.value)
                var = self.key_var(key)
                tc = env.get(key) or _fail("unknown %s" % key)
                ci, ti, pi = self.expr(c.func.value.slice, env)
                cv, tv, pv = self.expr(c.args[0], env)
                if not (tc[0] == "list" and isinstance(tc[1], tuple) and tc[1] == L(tv) and ti == Z):
                    raise Fail("%s[...].append(%r) on %r (line %d)" % (key, tv, tc, s.lineno))
                code, _ = self.combine([(ci, pi), (cv, pv)],
                                       lambda a, b: "(row_ <- list_get %s %s ;; list_set %s %s (row_ ++ [%s]))" % (var, a, var, a, b), result_pure=False)
                return self.bind_stmt(var, code, False, cont(env))
            if isinstance(c.func, ast.Attribute) and c.func.attr in ("append", "update", "extend") and len(c.args) == 1:
                key = self.target_key(c.func.value)
                var = self.key_var(key)
                tc = env.get(key) or _fail("unknown %s" % key)
                cv, tv, pv = self.expr(c.args[0], env)
                if c.func.attr == "append" and tc == L(tv):
                    code, pure = self.combine([(cv, pv)], lambda a: "(%s ++ [%s])" % (var, a))
                elif c.func.attr == "extend" and tc == tv and tc[0] == "list":
                    code, pure = self.combine([(cv, pv)], lambda a: "(%s ++ %s)" % (var, a))
                elif c.func.attr == "update" and tc == tv and tc[0] == "dict":
                    code, pure = self.combine([(cv, pv)], lambda a: "(d_update %s %s %s)" % (eqb_of(tc[1]), var, a))
                else:
                    raise Fail("%s.%s(%r) (line %d)" % (key, c.func.attr, tv, s.lineno))
                return self.bind_stmt(var, code, pure, cont(env))
            hooks = self.spec.get("hooks", {})
            if ast.unparse(c.func) in hooks and len(c.args) == 1:
                # an abstract method of the class, modelled by what it does to the object: `self._set_all_obj_params(v)` stores v
                kind_, fld = hooks[ast.unparse(c.func)]
                if kind_ != "assign":
                    raise Fail("hook kind %s" % kind_)
                cv, tv, pv = self.expr(c.args[0], env)
                if env.get(fld) != tv:
                    raise Fail("hook %s stores %r into %r" % (ast.unparse(c.func), tv, env.get(fld)))
                return self.bind_stmt(self.key_var(fld), cv, pv, cont(env))
            if isinstance(c.func, ast.Name) and c.func.id == "assert_runtime" and len(c.args) == 2:
                cc, tcnd, pc = self.expr(c.args[0], env)
                if tcnd != B:
                    raise Fail("assert_runtime condition")
                code, _ = self.combine([(cc, pc)], lambda a: "if %s then\n%s\nelse Raise \"RuntimeError\"%%string" % (a, cont(env)),
                                       result_pure=False)
                return code
            raise Fail("expression statement %s (line %d)" % (ast.unparse(c)[:40], s.lineno))
        if isinstance(s, ast.If) and isinstance(s.test, ast.Compare) and isinstance(s.test.left, ast.Name) and \
                isinstance(env.get(s.test.left.id), tuple) and env[s.test.left.id][0] == "opt":
            x = s.test.left.id
            if not (len(s.test.ops) == 1 and isinstance(s.test.ops[0], ast.Is) and
                    isinstance(s.test.comparators[0], ast.Constant) and s.test.comparators[0].value is None):
                raise Fail("test on the optional parameter %s (line %d)" % (x, s.lineno))
            env_none = dict(env)
            del env_none[x]                                   # in this branch the name is None: any use fails closed
            env_none["#none:" + x] = env[x]
            a = self.block(s.body + rest, env_none, k, in_loop)
            env_some = dict(env)
            env_some[x] = env[x][1]
            b = self.block(s.orelse + rest, env_some, k, in_loop)
            return "match %s with\n| None => (\n%s\n)\n| Some %s => (\n%s\n)\nend" % (vname(x), a, vname(x), b)
        if isinstance(s, ast.If):
            cc, tcnd, pc = self.expr(s.test, env)
            if tcnd != B:
                raise Fail("if on %r (line %d)" % (tcnd, s.lineno))
            a = self.block(s.body + rest, dict(env), k, in_loop)
            b = self.block(s.orelse + rest, dict(env), k, in_loop)
            code, _ = self.combine([(cc, pc)], lambda c: "if %s then (\n%s\n) else (\n%s\n)" % (c, a, b), result_pure=False)
            return code
        if isinstance(s, ast.For):
            if s.orelse:
                raise Fail("for-else (line %d)" % s.lineno)
            ci, ti, pi, pat, envb = self.iterable(s.iter, s.target, env)
            targets = [x.id for x in ast.walk(s.target) if isinstance(x, ast.Name)]
            state = [kk for kk in self.assigned(s.body) if kk in env and kk not in targets]
            svars = [self.key_var(kk) for kk in state]
            # a `return` inside the loop: the state carries `Some <the function's result>` once it has been reached, the remaining
            # iterations do nothing and the code after the loop is skipped
            has_ret = any(isinstance(x, ast.Return) for b_ in s.body for x in ast.walk(b_))
            if has_ret and in_loop is not None:
                raise Fail("return inside nested loops (line %d)" % s.lineno)
            rv = self.fresh("ret") + "_"
            allvars = ([rv] if has_ret else []) + svars

            def body_k(env2, ret=None):
                for kk in state:
                    if env2.get(kk) != env[kk]:
                        raise Fail("loop changes the type of %s" % kk)
                if not has_ret:
                    return "Ok %s" % tuple_val(svars)
                if ret is None:
                    return "Ok %s" % tuple_val(["None"] + svars)
                code, pure = ret
                if pure:
                    return "Ok %s" % tuple_val(["(Some (%s))" % code] + svars)
                v = self.fresh()
                return "(%s <- %s ;; Ok %s)" % (v, code, tuple_val(["(Some %s)" % v] + svars))
            body = self.block(s.body, envb, body_k, in_loop=body_k)
            env_after = {kk: v for kk, v in env.items()}          # loop-local variables do not survive in the model
            # the state is destructured INSIDE the function (fun st x => let '(a, b) := st in ...): a pattern in the first
            # binder would elaborate to a match returning a function, which is awkward to reason about
            stv = self.fresh("st") + "_"
            if has_ret:
                body = "match %s with\n| Some _ => Ok %s\n| None => (\n%s\n)\nend" % (rv, stv if len(allvars) > 1 else rv, body)
            if len(allvars) > 1:
                body = "let %s := %s in\n%s" % (tuple_pat(allvars), stv, body)
                st_pat = stv
            else:
                st_pat = allvars[0] if allvars else "(_ : unit)"
            init = tuple_val((["(@None %s)" % coq_type(self.ret_type)] if has_ret else []) + svars)
            loop = "for_each %%s (fun %s %s =>\n%s) %s" % (st_pat, pat, body, init)
            code, _ = self.combine([(ci, pi)], lambda it: loop % it, result_pure=False)
            after = cont(env_after)
            if has_ret:
                after = "match %s with\n| Some r_ => Ok r_\n| None => (\n%s\n)\nend" % (rv, after)
            if len(allvars) <= 1:
                return "%s <- %s ;;\n%s" % (allvars[0] if allvars else "_", code, after)
            return "%s <- %s ;;\n%s" % (tuple_pat(allvars), code, after)
        if isinstance(s, ast.Try):
            # try: j = l.index(v); <stmts> except ValueError: pass      (the search either finds the element or falls through)
            ok = (len(s.handlers) == 1 and isinstance(s.handlers[0].type, ast.Name) and s.handlers[0].type.id == "ValueError"
                  and all(isinstance(x, ast.Pass) for x in s.handlers[0].body) and not s.orelse and not s.finalbody and s.body
                  and isinstance(s.body[0], ast.Assign) and len(s.body[0].targets) == 1 and isinstance(s.body[0].targets[0], ast.Name)
                  and isinstance(s.body[0].value, ast.Call) and isinstance(s.body[0].value.func, ast.Attribute)
                  and s.body[0].value.func.attr == "index" and len(s.body[0].value.args) == 1)
            if not ok:
                raise Fail("try statement of an unsupported shape (line %d)" % s.lineno)
            jname = s.body[0].targets[0].id
            cl, tl, pl = self.expr(s.body[0].value.func.value, env)
            cv, tv, pv = self.expr(s.body[0].value.args[0], env)
            if tl != L(Z) or tv != Z:
                raise Fail("list.index on %r (line %d)" % (tl, s.lineno))
            # nothing else in the try body may raise ValueError in the model (only Raise "IndexError"/"KeyError" exist there)
            env_found = dict(env)
            self.set_var(jname, Z, env_found)
            found = self.block(s.body[1:] + rest, env_found, k, in_loop)
            missing = self.block(rest, dict(env), k, in_loop)
            code, _ = self.combine([(cl, pl), (cv, pv)],
                                   lambda a, b: "match list_index %s %s with\n| Some %s => (\n%s\n)\n| None => (\n%s\n)\nend" % (a, b, vname(jname), found, missing),
                                   result_pure=False)
            return code
        if isinstance(s, ast.Continue):
            if in_loop is None:
                raise Fail("continue outside a loop")
            return in_loop(env)
        if isinstance(s, ast.Return):
            if in_loop is not None:
                code, ty, pure = self.finish_value(None if s.value is None else self.expr(s.value, env), env)
                return in_loop(env, ret=(code, pure))
            if s.value is None:
                return self.finish(None, env)
            return self.finish(self.expr(s.value, env), env)
        if isinstance(s, ast.Raise):
            exc = s.exc
            name = exc.func.id if isinstance(exc, ast.Call) and isinstance(exc.func, ast.Name) else \
                (exc.id if isinstance(exc, ast.Name) else None)
            if name is None:
                raise Fail("raise (line %d)" % s.lineno)
            return 'Raise "%s"%%string' % name
        if isinstance(s, ast.Assert):
            if isinstance(s.test, ast.Constant) and s.test.value is False:
                return 'Raise "AssertionError"%string'
            cc, tcnd, pc = self.expr(s.test, env)
            code, _ = self.combine([(cc, pc)], lambda a: "if %s then\n%s\nelse Raise \"AssertionError\"%%string" % (a, cont(env)),
                                   result_pure=False)
            return code
        raise Fail("statement %s (line %d)" % (type(s).__name__, s.lineno))

    def store_item(self, key, var, tc, idx, val, env, cont):
        (ci, ti, pi), (cv, tv, pv) = idx, val
        if tc[0] == "list" and ti == Z and tv == tc[1]:
            code, _ = self.combine([(ci, pi), (cv, pv)], lambda a, b: "list_set %s %s %s" % (var, a, b), result_pure=False)
            return self.bind_stmt(var, code, False, cont(env))
        if tc[0] == "dict" and ti == tc[1] and tv == tc[2]:
            code, pure = self.combine([(ci, pi), (cv, pv)], lambda a, b: "(d_set %s %s %s %s)" % (eqb_of(ti), var, a, b))
            return self.bind_stmt(var, code, pure, cont(env))
        raise Fail("item assignment %s[%r] = %r with %r" % (key, ti, tv, tc))

    def is_list_pop_last(self, v, env):
        """x.pop() / x.pop(-1) on a list variable"""
        if not (isinstance(v, ast.Call) and isinstance(v.func, ast.Attribute) and v.func.attr == "pop" and not v.keywords):
            return False
        try:
            t = env.get(self.target_key(v.func.value))
        except Fail:
            return False
        if not (isinstance(t, tuple) and t[0] == "list"):
            return False
        if len(v.args) == 0:
            return True
        a = v.args[0]
        return len(v.args) == 1 and isinstance(a, ast.UnaryOp) and isinstance(a.op, ast.USub) and isinstance(a.operand, ast.Constant) \
            and a.operand.value == 1

    def is_pop(self, v):
        return isinstance(v, ast.Call) and isinstance(v.func, ast.Attribute) and v.func.attr == "pop" and len(v.args) == 1 \
            and not v.keywords

    def pop_type(self, v, env):
        t = env[self.target_key(v.func.value)]
        return t[2]

    def pop_stmt(self, v, env, after):
        key = self.target_key(v.func.value)
        tc = env.get(key) or _fail("unknown %s" % key)
        if tc[0] != "dict":
            raise Fail("pop on %r" % (tc,))
        var = self.key_var(key)
        ck, tk, pk = self.expr(v.args[0], env)
        if tk != tc[1]:
            raise Fail("pop key type")
        pv = self.fresh("p")
        code, _ = self.combine([(ck, pk)], lambda a: "d_pop %s %s %s" % (eqb_of(tk), var, a), result_pure=False)
        return "'(%s, %s) <- %s ;;\n%s" % (pv, var, code, after(pv, env))

    def finish_value(self, compiled, env):
        """-> (code, type, pure) of the function's result: the returned value, then the final values of the in-out parameters and
        of the object fields the method mutates; a method that returns nothing returns the mutated fields only"""
        if self.is_init:
            if compiled is not None:
                raise Fail("__init__ returns a value")
            names = [self.key_var(kk) for kk, _ in self.self_fields]
            ty = T(*[t for _, t in self.self_fields])
            self.note_ret(ty)
            return tuple_val(names), ty, True
        extras_k = list(self.inout) + list(self.spec.get("mutates", []))
        if compiled is None:
            if not self.spec.get("mutates"):
                raise Fail("bare return")
            ty = T(*[env[x] for x in extras_k]) if len(extras_k) > 1 else env[extras_k[0]]
            self.note_ret(ty)
            return tuple_val([self.key_var(x) for x in extras_k]), ty, True
        code, ty, pure = compiled
        if self.spec.get("ret") == O and ty == S:
            code, pure = self.combine([(code, pure)], lambda a: "(OStr %s)" % a)
            ty = O
        if extras_k:
            ty = T(ty, *[env[x] for x in extras_k])
            extras = [self.key_var(x) for x in extras_k]
            code, pure = self.combine([(code, pure)], lambda a: "(" + ", ".join([a] + extras) + ")")
        self.note_ret(ty)
        return code, ty, pure

    def finish(self, compiled, env):
        code, ty, pure = self.finish_value(compiled, env)
        return "Ok (%s)" % code if pure else code

    def note_ret(self, ty):
        if self.ret_type is None:
            self.ret_type = ty
        elif self.ret_type != ty:
            raise Fail("%s: return types %r and %r" % (self.spec["qual"], self.ret_type, ty))

    def compile(self):
        spec, fdef = self.spec, self.fdef
        a = fdef.args
        if (a.kwonlyargs or a.kwarg or a.posonlyargs) and not spec.get("fragment"):
            raise Fail("%s: unsupported parameter kinds" % spec["qual"])
        pnames = [x.arg for x in a.args]
        is_method = bool(pnames) and pnames[0] == "self"
        if is_method:
            pnames = pnames[1:]
        if a.vararg and not spec.get("fragment"):
            if not spec.get("vararg"):
                raise Fail("%s: *args not declared" % spec["qual"])
            pnames.append(a.vararg.arg)
        if not spec.get("fragment") and pnames != [n for n, _ in spec["params"]]:
            raise Fail("%s: parameters are %r, expected %r" % (spec["qual"], pnames, [n for n, _ in spec["params"]]))
        ndefaults = len(a.defaults)
        env = {n: t for n, t in spec["params"]}
        binders = []
        if is_method and not self.is_init and not spec.get("fragment"):
            cls = spec["qual"].split(".")[0]
            for kk, t in (spec.get("fields") or self.unit.fields[cls]):
                env[kk] = t
                binders.append("(%s : %s)" % (self.key_var(kk), coq_type(t)))
        binders += ["(%s : %s)" % (vname(n), coq_type(t)) for n, t in spec["params"]]
        for gname, gt in spec.get("globals", []):
            env[gname] = gt
            binders.append("(%s : %s)" % (vname(gname), coq_type(gt)))

        def end(env2):
            if self.is_init or spec.get("mutates"):
                return self.finish(None, env2)
            raise Fail("%s: control reaches the end without return" % spec["qual"])
        stmts = fdef.body
        frag = spec.get("fragment")
        if frag:
            # a slice of the function body (the rest - caches keyed by the method name, the final call of the abstract setter -
            # is outside the first-order fragment): from the statement `from` up to, not including, the statement `until`;
            # the fragment's result is the tuple of the variables `outputs`
            texts = [ast.unparse(x).split("\n")[0] for x in stmts]
            try:
                i0 = texts.index(frag["from"])
                i1 = texts.index(frag["until"])
            except ValueError:
                raise Fail("%s: fragment boundaries not found (%r .. %r)" % (spec["qual"], frag["from"], frag["until"]))
            if not i0 < i1:
                raise Fail("%s: empty fragment" % spec["qual"])
            stmts = [x for x in stmts[i0:i1] if ast.unparse(x).split("\n")[0] not in spec.get("skip", [])]
            env = {n: t for n, t in frag["inputs"] + spec.get("globals", [])}
            binders = ["(%s : %s)" % (vname(n), coq_type(t)) for n, t in frag["inputs"] + spec.get("globals", [])]

            def end(env2):                                   # noqa: F811
                outs = frag["outputs"]
                for o in outs:
                    if o not in env2:
                        raise Fail("%s: fragment output %s undefined" % (spec["qual"], o))
                ty = T(*[env2[o] for o in outs]) if len(outs) > 1 else env2[outs[0]]
                self.note_ret(ty)
                return "Ok %s" % tuple_val([vname(o) for o in outs])
        body = self.block(stmts, env, end)
        if self.is_init:
            self.unit.fields[spec["qual"].split(".")[0]] = list(self.self_fields)
        src = ast.get_source_segment(self.unit.src, fdef) or ""
        head = "(* %s  %s  L%d-%d  sha1 %s%s *)" % (self.unit.relpath, spec["qual"], fdef.lineno, fdef.end_lineno,
                                                      hashlib.sha1(src.encode()).hexdigest()[:12],
                                                      ("; fields: " + ", ".join(k for k, _ in self.self_fields)) if self.is_init else "")
        text = "%s\nDefinition %s %s : res %s :=\n%s.\n" % (head, spec["coq"], " ".join(binders), coq_type(self.ret_type),
                                                         textwrap.indent(body, "  "))
        return text, self.ret_type, [t for _, t in spec["params"]], ndefaults


class Unit:
    def __init__(self, relpath, specs, imports=""):
        self.relpath, self.specs, self.imports = relpath, specs, imports
        self.src = open(os.path.join(vlib.REPO, relpath), newline=None).read()
        self.done, self.fields = {}, {}

    def functions(self):
        res = {}

        def visit(node, prefix):
            for ch in ast.iter_child_nodes(node):
                if isinstance(ch, (ast.FunctionDef, ast.ClassDef)):
                    q = prefix + ch.name
                    if isinstance(ch, ast.FunctionDef):
                        res[q] = ch
                    visit(ch, q + ".")
        visit(ast.parse(self.src), "")
        return res

    def translate(self):
        funs = self.functions()
        out = []
        for spec in self.specs:
            if spec["qual"] not in funs:
                raise Fail("%s: %s not found" % (self.relpath, spec["qual"]))
            fdef = funs[spec["qual"]]
            if fdef.decorator_list and not spec.get("fragment"):
                raise Fail("%s: decorated" % spec["qual"])
            text, rtype, ptypes, _ = FnCompiler(self, spec, fdef).compile()
            out.append(text)
            self.done[spec["qual"]] = (spec, rtype, ptypes)
        return "\n".join(out)


UNITS = {
    "PyBcast": ("xitorch/_utils/bcast.py", [
        dict(qual="normalize_bcast_dims", coq="normalize_bcast_dims", params=[("shapes", L(L(Z)))], vararg=True),
        dict(qual="get_bcasted_dims", coq="get_bcasted_dims", params=[("shapes", L(L(Z)))], vararg=True),
    ]),
    "PyMisc": ("xitorch/_utils/misc.py", [
        dict(qual="set_default_option", coq="set_default_option", params=[("defopt", D(S, O)), ("opt", D(S, O))]),
        dict(qual="get_and_pop_keys", coq="get_and_pop_keys", params=[("dct", D(S, O)), ("keys", L(S))], inout=["dct"],
             locals={"res": D(S, O)}),
        dict(qual="get_method", coq="get_method", params=[("algname", S), ("methods", D(S, O)), ("method", O)]),
        dict(qual="TensorNonTensorSeparator.__init__", coq="separator_init", params=[("params", L(O)), ("varonly", B)],
             locals={"self.tensor_idxs": L(Z), "self.tensor_params": L(O), "self.nontensor_idxs": L(Z),
                     "self.nontensor_params": L(O)}),
        dict(qual="TensorNonTensorSeparator.reconstruct_params", coq="separator_reconstruct",
             params=[("tensor_params", L(O)), ("nontensor_params", ("opt", L(O)))]),
    ]),
    "PyUnique": ("xitorch/_utils/unique.py", [
        dict(qual="Uniquifier.__init__", coq="uniquifier_init", params=[("allobjs", L(O))], locals={"unique_objs": L(O)}),
        dict(qual="Uniquifier.get_unique_objs", coq="uniquifier_get_unique_objs", params=[("allobjs", ("opt", L(O)))]),
        dict(qual="Uniquifier.map_unique_objs", coq="uniquifier_map_unique_objs", params=[("uniqueobjs", L(O))]),
    ]),
    "PyPackerIdx": ("xitorch/_core/packer.py", [
        dict(qual="_get_unique_idxs", coq="packer_get_unique_idxs", params=[("b", L(O))]),
    ]),
    # PureFunction: the object is the tuple of its fields; `_store` stands for the tensors held by the wrapped object's parameter
    # slots (what the abstract _set_all_obj_params writes); `_uniq` is the tuple of the Uniquifier's fields
    "PyPureFn": ("xitorch/_core/pure_function.py", [
        dict(qual="_check_identical_objs", coq="check_identical_objs", params=[("objs1", L(O)), ("objs2", L(O))]),
        dict(qual="PureFunction.set_objparams", coq="purefn_set_objparams", params=[("objparams", L(O))],
             fields="PF_FIELDS", mutates=["self._store", "self._cur_objparams", "self._restore_stack"],
             hooks={"self._set_all_obj_params": ("assign", "self._store")},
             calls={"self._uniq.map_unique_objs": ("uniquifier_map_unique_objs", "self._uniq", [L(O)], L(O))}),
        dict(qual="PureFunction.restore_objparams", coq="purefn_restore_objparams", params=[],
             fields="PF_FIELDS", mutates=["self._store", "self._cur_objparams", "self._restore_stack"],
             hooks={"self._set_all_obj_params": ("assign", "self._store")},
             calls={"self._uniq.map_unique_objs": ("uniquifier_map_unique_objs", "self._uniq", [L(O)], L(O))}),
    ], "From XV Require Import Gen.PyUnique.\n"),
}
_OPSUB = {"isinstance(A, MatrixLinearOperator)": "a_dense", "M is None or isinstance(M, MatrixLinearOperator)": "m_absent_or_dense",
          "A.shape[-1]": "n", "A.is_hermitian": "a_hermitian", "M is None or M.is_hermitian": "m_absent_or_hermitian"}
_OPIN = [("a_dense", B), ("m_absent_or_dense", B), ("n", Z), ("a_hermitian", B), ("m_absent_or_hermitian", B), ("method", O)]
UNITS["PyDispatch"] = ("xitorch/linalg/solve.py", [
    # solve(): the choice of the default method and the lower-casing of names, in front of the dispatch
    dict(qual="solve", coq="solve_method_prelude", params=[],
         fragment={"from": "if method is None:", "until": "if method == 'exactsolve':", "inputs": _OPIN, "outputs": ["method"]},
         subst=_OPSUB),
])
UNITS["PyDispatchEig"] = ("xitorch/linalg/symeig.py", [
    dict(qual="symeig", coq="symeig_method_prelude", params=[],
         fragment={"from": "if method is None:", "until": "if method == 'exacteig':", "inputs": _OPIN, "outputs": ["method"]},
         subst=_OPSUB, skip=["if neig is None:", "if is_debug_enabled():"]),
])
UNITS["PyDispatchRF"] = ("xitorch/optimize/rootfinder.py", [
    dict(qual="_get_rootfinder_default_method", coq="rf_default_method", params=[("method", O)], ret=O),
    dict(qual="_get_equilibrium_default_method", coq="equil_default_method", params=[("method", O)], ret=O),
    dict(qual="_get_minimizer_default_method", coq="min_default_method", params=[("method", O)], ret=O),
    # equilibrium(): default, lower-casing, and the choice between the fixed-point methods and the root finders
    dict(qual="equilibrium", coq="equilibrium_method_prelude", params=[],
         fragment={"from": "method = _get_equilibrium_default_method(method)", "until": "return _RootFinder.apply(new_fcn, y0, fwd_fcn, alg_type, fwd_options, bck_options, len(params), *params, *pfunc.objparams())",
                   "inputs": [("method", O), ("pfunc", O), ("new_fcn", O)], "outputs": ["method", "alg_type", "fwd_fcn"]},
         skip=["fwd_options['method'] = method"],
         globals=[("_EQUIL_METHODS", D(S, O))]),
    # minimize(): default, lower-casing, optimiser or root finder
    dict(qual="minimize", coq="minimize_method_prelude", params=[],
         fragment={"from": "fwd_options['method'] = _get_minimizer_default_method(method)", "until": "@make_sibling(pfunc)",
                   "inputs": [("method", O), ("fwd_options", D(S, O))], "outputs": ["method", "opt_method"]},
         globals=[("_RF_METHODS", D(S, O))]),
])
UNITS["PyTensorPacker"] = ("xitorch/_utils/misc.py", [
    # tensors are modelled by their shapes: torch.numel(p) is the product of the shape, p.shape the shape itself
    dict(qual="TensorPacker.__init__", coq="tensorpacker_init", params=[("tensors", L(L(Z)))], shape_modelled=["p"],
         locals={"self.idx_shapes": L(T(Z, Z, L(Z)))}),
])
UNITS["PyEditable"] = ("xitorch/_core/editable_module.py", [
    # the search loop of _get_unique_params_idxs (between the cache look-up and the cache update)
    dict(qual="EditableModule._get_unique_params_idxs", coq="editable_unique_params_idxs", params=[],
         fragment={"from": "ids = []", "until": "self._number_of_params[methodname] = len(allparams)",
                   "inputs": [("allparams", L(O))], "outputs": ["idxs", "idx_map"]},
         locals={"ids": L(Z), "idxs": L(Z), "idx_map": L(L(Z))}),
    # the scatter of setuniqueparams (between the cache reads and the final setparams(methodname, *allparams))
    dict(qual="EditableModule.setuniqueparams", coq="editable_setuniqueparams_scatter", params=[],
         fragment={"from": "allparams = [None for _ in range(nparams)]", "until": "return self.setparams(methodname, *allparams)",
                   "inputs": [("nparams", Z), ("maps", L(L(Z))), ("uniqueparams", L(O))], "outputs": ["allparams"]},
         skip=["maps = self._unique_params_maps[methodname]"]),
])
TU = T(Z, L(O), L(Z), L(Z), Z, B)          # the fields of a Uniquifier, in the order of Gen/PyUnique.v
PF_FIELDS = [("self._state_change_allowed", B), ("self._store", L(O)), ("self._uniq", TU), ("self._cur_objparams", L(O)),
             ("self._restore_stack", L(T(L(O), B)))]
for _u in UNITS.values():
    for _sp in _u[1]:
        if _sp.get("fields") == "PF_FIELDS":
            _sp["fields"] = PF_FIELDS

HEADER = """(* GENERATED by tools/translate_py.py from /repo's working tree (%s) -- do not edit *)
From Coq Require Import ZArith List Bool.
From Coq Require String.
Import String.StringSyntax.
Import ListNotations.
From XV Require Import Base.PyLib.
Open Scope Z_scope.

"""


# which properties' theorems are stated over which generated unit: a unit that cannot be translated any more breaks the
# tie of these properties (and only of these)
RELEVANT = {
    "PyBcast": ["C01", "C11", "C14"],
    "PyMisc": ["C18", "C04", "C08"],
    "PyUnique": ["C09", "C10"],
    "PyPackerIdx": ["C20"],
    "PyPureFn": ["C09", "C10"],
    "PyEditable": ["C09", "C10"],
    "PyTensorPacker": ["C07", "C08"],
    "PyDispatch": ["C18"],
    "PyDispatchEig": ["C18"],
    "PyDispatchRF": ["C18"],
}
LAST_INFO = {}


def generate(prop=None):
    """-> {relative path: text}; fail-closed for the units the property depends on"""
    out = {}
    LAST_INFO.clear()
    for name, uspec in UNITS.items():
        relpath, specs, imports = (uspec + ("",))[:3]
        try:
            text = HEADER % relpath + imports + Unit(relpath, specs, imports).translate()
        except (Fail, SyntaxError, OSError) as e:
            if prop is None or prop in RELEVANT[name]:
                raise Fail("%s (%s): %s" % (name, relpath, e))
            LAST_INFO[name] = "not translatable on this tree (irrelevant for %s): %s" % (prop, e)
            continue
        out["Gen/%s.v" % name] = text
        LAST_INFO[name] = hashlib.sha1(text.encode()).hexdigest()[:12]
    return out


if __name__ == "__main__":
    import sys
    for rel, text in generate().items():
        print(rel, len(text))

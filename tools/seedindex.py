#!/usr/bin/env python3
"""regenerate seeded/INDEX.md (one row per kept seeded defect) from seeded/*/*/meta.json"""
import glob, json, os
rows = []
for f in sorted(glob.glob('/verif/seeded/*/*/meta.json'), key=lambda p: (p.split('/')[-3], int(p.split('/')[-2]))):
    m = json.load(open(f))
    pid, n = f.split('/')[-3:-1]
    ag = m.get('agent', {})
    caught = []
    for t, r in m.get('vcheck', {}).items():
        for tier, v in r.items():
            if v.get('exit'):
                k = v.get('first_key')
                if isinstance(k, list):
                    k = "broken tie: " + str(k[0])
                nf = any('no-failing-input-found' in x for x in v.get('violations', []))
                caught.append("%s %s: `%s`%s" % (t, tier, k, " (no failing input)" if nf else ""))
    files = ", ".join(os.path.basename(x) for x in ag.get('files', []))[:60]
    rows.append("| %s/%s | %s | %s | %s |" % (pid, n, ag.get('summary', '')[:170].replace('|', '/').replace('\n', ' '), files, "; ".join(caught[-2:])))
txt = ("# Seeded defects kept under /verif/seeded (patch.diff, demo.py, meta.json each)\n\n"
       "Rounds: entries 1-3 of each property come from the first round of sub-agents, 4-6 (C19: 3-5) from the second, 7-9 from the third "
       "(told to look for changes that need a specific sequence, input or pair of edits to manifest; C04 has two), 10-12 from the "
       "fourth (code none of the earlier changes touched, rarely used documented options, helper modules; C09 has two, C19 one), 13-14 from the "
       "fifth (two per property, C06 and C19 excluded; same brief as the fourth with the round-4 summaries added to the do-not-repeat list), 15-16 "
       "from the sixth (all twenty properties, two each).\n\n"
       "| Seed | Change (sub-agent's summary) | File | Caught by (check tier: first failure key) |\n|---|---|---|---|\n" + "\n".join(rows) + "\n")
open('/verif/seeded/INDEX.md', 'w').write(txt)
print(len(rows))

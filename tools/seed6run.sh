#!/bin/bash
# confirm + check the round-3 seeded changes of one property: seed3run.sh C03 [n...]
# (development aid; scratch worktrees / scratch copies of /verif only, /repo is never touched)
ID=$1; shift
NS=${@:-"1 2"}
export SEED_SRC=/tmp/seed6 SEED_OFFSET=14 SEED_SCRATCH=1
for n in $NS; do
  [ -f /tmp/seed6/$ID/out/patch_$n.diff ] || continue
  /venv/bin/python /verif/tools/seedcheck.py suite $ID $n
  /venv/bin/python /verif/tools/seedcheck.py check $ID $n
done

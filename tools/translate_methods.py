"""Translator: method-name tables of every functional  ->  coq/Gen/MethodTables.v

Reads /repo's working tree with `ast` (the dictionaries that are built locally inside
forward()/__init__) and by reflection (module-level tables and default-name helpers).
Fail-closed: any site that is not found in the expected shape aborts the run."""
from __future__ import annotations
import ast, os, importlib
import vlib

SITES = {
    # functional : (file, enclosing function qualname, variable name)
    "solve": ("xitorch/linalg/solve.py", "solve_torchfcn.forward", "methods"),
    "symeig": ("xitorch/linalg/symeig.py", "symeig_torchfcn.forward", "methods"),
    "solve_ivp": ("xitorch/integrate/solve_ivp.py", "_SolveIVP.forward", "methods"),
    "quad": ("xitorch/integrate/quad.py", "_Quadrature.forward", "methods"),
    "mcquad": ("xitorch/integrate/mcquad.py", "_MCQuad.forward", "methods"),
    "interp1d": ("xitorch/interpolate/interp1.py", "Interp1D.__init__", "methods"),
    "squad": ("xitorch/integrate/squad.py", "SQuad.__init__", "all_clss"),
    "rootfinder_family": ("xitorch/optimize/rootfinder.py", "_RootFinder.forward", "methods"),
}
# `if method is None: method = "<name>"` defaults that are literal in the source
DEFAULT_SITES = {
    "quad": ("xitorch/integrate/quad.py", "quad"),
    "interp1d": ("xitorch/interpolate/interp1.py", "Interp1D.__init__"),
    "squad": ("xitorch/integrate/squad.py", "SQuad.__init__"),
    "solve_ivp": ("xitorch/integrate/solve_ivp.py", "solve_ivp"),
    "mcquad": ("xitorch/integrate/mcquad.py", "mcquad"),
}


class Fail(Exception):
    pass


def _functions(tree):
    """qualname -> FunctionDef"""
    res = {}

    def visit(node, prefix):
        for ch in ast.iter_child_nodes(node):
            if isinstance(ch, (ast.FunctionDef, ast.ClassDef)):
                q = prefix + ch.name
                if isinstance(ch, ast.FunctionDef):
                    res[q] = ch
                visit(ch, q + ".")
    visit(tree, "")
    return res


def _dict_literal(node):
    """Dict of constant-string keys -> list of (key, value-name)"""
    if not isinstance(node, ast.Dict):
        return None
    out = []
    for k, v in zip(node.keys, node.values):
        if not (isinstance(k, ast.Constant) and isinstance(k.value, str)):
            raise Fail("non-literal key in a method table")
        if isinstance(v, ast.Name):
            out.append((k.value, v.id))
        elif isinstance(v, ast.Attribute):
            out.append((k.value, v.attr))
        else:
            raise Fail("unexpected table value %s" % ast.dump(v)[:80])
    return out


def local_table(relpath, qual, var):
    src = open(os.path.join(vlib.REPO, relpath)).read()
    funs = _functions(ast.parse(src))
    if qual not in funs:
        raise Fail("%s: function %s not found" % (relpath, qual))
    found = []
    for node in ast.walk(funs[qual]):
        if isinstance(node, ast.Assign) and len(node.targets) == 1 and \
                isinstance(node.targets[0], ast.Name) and node.targets[0].id == var:
            v = node.value
            if isinstance(v, ast.Subscript):      # methods = {...}[alg_type]
                d = _dict_literal(v.value)
                if d is None:
                    raise Fail("%s.%s: subscripted value is not a dict literal" % (qual, var))
                found.append(("indirect", d))
            else:
                d = _dict_literal(v)
                if d is None:
                    raise Fail("%s.%s is not a dict literal" % (qual, var))
                found.append(("direct", d))
    if len(found) != 1:
        raise Fail("%s: expected exactly one assignment to %s in %s, found %d" % (relpath, var, qual, len(found)))
    return found[0]


def literal_default(relpath, qual):
    src = open(os.path.join(vlib.REPO, relpath)).read()
    funs = _functions(ast.parse(src))
    if qual not in funs:
        raise Fail("%s: function %s not found" % (relpath, qual))
    res = []
    for node in ast.walk(funs[qual]):
        if isinstance(node, ast.If) and isinstance(node.test, ast.Compare) and \
                isinstance(node.test.left, ast.Name) and node.test.left.id == "method" and \
                len(node.test.ops) == 1 and isinstance(node.test.ops[0], ast.Is) and \
                isinstance(node.test.comparators[0], ast.Constant) and node.test.comparators[0].value is None:
            for st in node.body:
                if isinstance(st, ast.Assign) and isinstance(st.targets[0], ast.Name) and \
                        st.targets[0].id == "method" and isinstance(st.value, ast.Constant) and \
                        isinstance(st.value.value, str):
                    res.append(st.value.value)
    if len(res) != 1:
        raise Fail("%s.%s: expected one literal default for method, found %r" % (relpath, qual, res))
    return res[0]


def cstr(s):
    assert '"' not in s and all(32 <= ord(c) < 127 for c in s), s
    return '"%s"' % s


def ctable(name, pairs):
    return "Definition %s : list (string * string) :=\n  [%s].\n" % (
        name, "; ".join("(%s, %s)" % (cstr(k), cstr(v)) for k, v in pairs))


def cnames(name, keys):
    return "Definition %s : list string := [%s].\n" % (name, "; ".join(cstr(k) for k in keys))


def reflect_tables():
    """returns dict name -> list[(key, implname)] for every table, plus defaults and doc tables"""
    T = {}
    for fnl, (rel, qual, var) in SITES.items():
        kind, d = local_table(rel, qual, var)
        if fnl == "rootfinder_family":
            if kind != "indirect":
                raise Fail("_RootFinder.forward: methods is expected to be {..}[alg_type]")
            mod = importlib.import_module("xitorch.optimize.rootfinder")
            for alg, dictname in d:
                tbl = getattr(mod, dictname, None)
                if not isinstance(tbl, dict):
                    raise Fail("rootfinder: %s is not a module-level dict" % dictname)
                T["alg_" + alg] = [(k, getattr(v, "__name__", repr(v))) for k, v in tbl.items()]
        else:
            if kind != "direct":
                raise Fail("%s: unexpected indirect table" % fnl)
            T[fnl] = d
    for need in ("alg_minimizer", "alg_rootfinder", "alg_equilibrium"):
        if need not in T:
            raise Fail("rootfinder: algorithm family %s missing" % need)
    # what the pre-dispatch code of equilibrium / minimize consults
    rfmod = importlib.import_module("xitorch.optimize.rootfinder")
    T["pre_equil"] = [(k, getattr(v, "__name__", "?")) for k, v in rfmod._EQUIL_METHODS.items()]
    T["pre_rf"] = [(k, getattr(v, "__name__", "?")) for k, v in rfmod._RF_METHODS.items()]
    defaults = {fnl: literal_default(rel, qual) for fnl, (rel, qual) in DEFAULT_SITES.items()}
    defaults["rootfinder"] = rfmod._get_rootfinder_default_method(None)
    defaults["equilibrium"] = rfmod._get_equilibrium_default_method(None)
    defaults["minimize"] = rfmod._get_minimizer_default_method(None)
    for k, v in defaults.items():
        if not isinstance(v, str):
            raise Fail("default method of %s is not a string: %r" % (k, v))
    # documented tables (module level): every documented name must be dispatchable
    docs = {}
    docs["solve"] = list(importlib.import_module("xitorch.linalg.solve")._solve_methods.keys())
    docs["symeig"] = list(importlib.import_module("xitorch.linalg.symeig")._symeig_methods.keys())
    docs["solve_ivp"] = list(importlib.import_module("xitorch.integrate.solve_ivp").ivp_methods.keys())
    docs["interp1d"] = list(importlib.import_module("xitorch.interpolate.interp1").interp1d_methods.keys())
    docs["squad"] = list(importlib.import_module("xitorch.integrate.squad")._squad_methods.keys())
    return T, defaults, docs


def generate():
    T, defaults, docs = reflect_tables()
    out = ["(* GENERATED by tools/translate_methods.py from /repo's working tree -- do not edit *)",
           "From Coq Require Import String List.", "Import ListNotations.", "Open Scope string_scope.", ""]
    for name in sorted(T):
        out.append(ctable("tbl_" + name, T[name]))
    for name in sorted(defaults):
        out.append("Definition default_%s : string := %s.\n" % (name, cstr(defaults[name])))
    for name in sorted(docs):
        out.append(cnames("doc_" + name, docs[name]))
    return {"Gen/MethodTables.v": "\n".join(out)}


if __name__ == "__main__":
    import sys
    sys.path.insert(0, vlib.REPO)
    print(generate()["Gen/MethodTables.v"])

"""The same mathematical function F(x, th1, th2) expressed in every form the functionals accept.

variants(F, th1, th2) -> list of Variant(name, fcn, params, leaves, objects)
  * fcn(x, *params) evaluates F(x, th1, th2)
  * leaves: the two underlying leaf tensors w.r.t. which gradients are taken (same order for all)
  * objects: the user's objects whose state must be left untouched (for the snapshot oracle)
A hook `tick()` is called at every evaluation of F (used for crash-point enumeration)."""
from __future__ import annotations
import torch
import xitorch as xt
from xitorch._core.pure_function import make_sibling


class Variant:
    def __init__(self, name, fcn, params, leaves, objects):
        self.name, self.fcn, self.params, self.leaves, self.objects = name, fcn, params, leaves, objects


class Ticker:
    """counts evaluations of user code; raises Boom at evaluation number `crash_at`"""
    class Boom(Exception):
        pass

    class Interrupt(BaseException):
        """not an Exception: what KeyboardInterrupt / SystemExit / a user's own BaseException look like to library code that
        cleans up with `except Exception` instead of `finally` (round-3 seed C10/8)"""
        pass

    def __init__(self):
        self.n = 0
        self.crash_at = None
        self.base = False          # raise Interrupt instead of Boom

    def __call__(self):
        k = self.n
        self.n += 1
        if self.crash_at is not None and k == self.crash_at:
            if self.base:
                raise Ticker.Interrupt("user code was interrupted at evaluation %d" % k)
            raise Ticker.Boom("user code raised at evaluation %d" % k)

    def reset(self, crash_at=None):
        self.n = 0
        self.crash_at = crash_at


def variants(F, t1, t2, tick=lambda: None, extra_first=False, which=None):
    """t1, t2: leaf tensors (requires_grad as the caller wants).  If extra_first, fcn takes two leading
    arguments (t, y) instead of one (solve_ivp)."""
    out = []

    def call(args, a, b):
        tick()
        return F(*args, a, b)

    nlead = 2 if extra_first else 1
    split = lambda a: (a[:nlead], a[nlead:])

    # 1. pure function, explicit parameters
    def pure(*a):
        lead, ps = split(a)
        return call(lead, ps[0], ps[1])
    out.append(Variant("pure", pure, (t1, t2), [t1, t2], []))

    # 2. torch.nn.Module (flat)
    class NN(torch.nn.Module):
        def __init__(self):
            super().__init__()
            self.p1 = torch.nn.Parameter(t1.detach().clone(), requires_grad=t1.requires_grad)
            self.p2 = torch.nn.Parameter(t2.detach().clone(), requires_grad=t2.requires_grad)

        def forward(self, *lead):
            return call(lead, self.p1, self.p2)
    nn = NN()
    out.append(Variant("nn", nn.forward, (), [nn.p1, nn.p2], [nn]))

    # 3. nested torch.nn.Module, the method is not forward
    class Inner(torch.nn.Module):
        def __init__(self):
            super().__init__()
            self.w = torch.nn.Parameter(t2.detach().clone(), requires_grad=t2.requires_grad)

    class Outer(torch.nn.Module):
        def __init__(self):
            super().__init__()
            self.p1 = torch.nn.Parameter(t1.detach().clone(), requires_grad=t1.requires_grad)
            self.sub = Inner()

        def run(self, *lead):
            return call(lead, self.p1, self.sub.w)
    outer = Outer()
    out.append(Variant("nn_nested", outer.run, (), [outer.p1, outer.sub.w], [outer]))

    # 4. EditableModule with a leaf and a derived (non-leaf) tensor
    class EM(xt.EditableModule):
        def __init__(self):
            self.a = t1
            self.b = t2 * 1.0            # derived, non-leaf

        def run(self, *lead):
            return call(lead, self.a, self.b)

        def getparamnames(self, methodname, prefix=""):
            if methodname == "run":
                return [prefix + "a", prefix + "b"]
            raise KeyError(methodname)
    em = EM()
    out.append(Variant("em_derived", em.run, (), [t1, t2], [em]))

    # 5. EditableModule with aliased and container-held tensors
    class EMA(xt.EditableModule):
        def __init__(self):
            self.a = t1
            self.a2 = t1                   # alias of the same tensor
            self.lst = [t2 * 1.0, 3]       # list-held (with a non-tensor neighbour)
            self.dct = {"k": self.lst[0]}  # dict-held alias of the list element

        def run(self, *lead):
            return call(lead, 0.5 * (self.a + self.a2), 0.5 * (self.lst[0] + self.dct["k"]))

        def getparamnames(self, methodname, prefix=""):
            return [prefix + "a", prefix + "lst[0]", prefix + "a2", prefix + "dct['k']"]
    ema = EMA()
    out.append(Variant("em_alias_containers", ema.run, (), [t1, t2], [ema]))

    # 6. torch.nn.Module inside an EditableModule
    class EMNN(xt.EditableModule):
        def __init__(self):
            self.mod = Inner()
            self.a = t1

        def run(self, *lead):
            return call(lead, self.a, self.mod.w)

        def getparamnames(self, methodname, prefix=""):
            return [prefix + "a", prefix + "mod.w"]
    emnn = EMNN()
    out.append(Variant("nn_in_em", emnn.run, (), [t1, emnn.mod.w], [emnn]))

    # 7. single sibling of an EditableModule method
    em7 = EM()

    @make_sibling(em7.run)
    def sib(*lead):
        r = em7.run(*lead)
        return tuple(x * 1.0 for x in r) if isinstance(r, (tuple, list)) else r * 1.0
    out.append(Variant("sibling", sib, (), [t1, t2], [em7]))

    # 8. sibling of two methods of two different objects
    class One(xt.EditableModule):
        def __init__(self, t):
            self.t = t

        def get(self):
            return self.t

        def getparamnames(self, methodname, prefix=""):
            return [prefix + "t"]
    o1, o2 = One(t1), One(t2 * 1.0)

    @make_sibling(o1.get, o2.get)
    def msib(*lead):
        return call(lead, o1.get(), o2.get())
    out.append(Variant("multi_sibling", msib, (), [t1, t2], [o1, o2]))

    # 8b. sibling of [method of one object, a plain function without object parameters, method of another object] (round-3 seed
    #     C09/8: the offsets of the per-callable parameter blocks restarted after a callable without parameters)
    o3, o4 = One(t1), One(t2 * 1.0)

    def plain_helper(z):
        return z * 1.0

    @make_sibling(o3.get, plain_helper, o4.get)
    def msib3(*lead):
        return call(lead, plain_helper(o3.get()), o4.get())
    out.append(Variant("multi_sibling_with_plain_function", msib3, (), [t1, t2], [o3, o4]))

    # 8c. a class that is BOTH a torch.nn.Module and an EditableModule and depends on a derived (non-Parameter) tensor that
    #     only getparamnames knows about (round-3 seed C09/7: the nn.Module branch of the dispatch taken first)
    class Both(torch.nn.Module, xt.EditableModule):
        def __init__(self):
            super().__init__()
            self.a = t1
            self.b = t2 * 1.0            # derived, non-leaf, not a Parameter

        def run(self, *lead):
            return call(lead, self.a, self.b)

        def getparamnames(self, methodname, prefix=""):
            return [prefix + "a", prefix + "b"]
    both = Both()
    out.append(Variant("nn_and_editable_module", both.run, (), [t1, t2], [both]))

    # 9. method with one explicit and one object-held parameter, plus a non-tensor parameter
    class Half(xt.EditableModule):
        def __init__(self):
            self.b = t2

        def run(self, *a):
            lead, ps = split(a)
            assert ps[1] == "tag"
            return call(lead, ps[0], self.b)

        def getparamnames(self, methodname, prefix=""):
            return [prefix + "b"]
    half = Half()
    out.append(Variant("explicit_plus_object", half.run, (t1, "tag"), [t1, t2], [half]))
    # 10. EditableModule whose FIRST object tensor is a constant (no grad) and whose later ones are leaves: the gradient
    #     copies of the later ones must still be installed (seeded defect C09/4: only the first pair was compared)
    class EMC(xt.EditableModule):
        def __init__(self):
            self.c0 = torch.ones(3, dtype=t1.dtype)      # does not require grad
            self.a = t1
            self.b = t2

        def run(self, *lead):
            return call(lead, self.a * self.c0, self.b)

        def getparamnames(self, methodname, prefix=""):
            return [prefix + "c0", prefix + "a", prefix + "b"]
    emc = EMC()
    out.append(Variant("em_constant_first", emc.run, (), [t1, t2], [emc]))
    # 11. EditableModule / nn.Module holding a tensor that does not require grad BETWEEN and AFTER the leaves (round-3 seed
    #     C04/8: a substitution counted as "identical" as soon as one slot was unchanged)
    class EMM(xt.EditableModule):
        def __init__(self):
            self.a = t1
            self.c1 = torch.ones(3, dtype=t1.dtype)
            self.b = t2
            self.c2 = torch.ones((), dtype=t1.dtype)

        def run(self, *lead):
            return call(lead, self.a * self.c1, self.b * self.c2)

        def getparamnames(self, methodname, prefix=""):
            return [prefix + "a", prefix + "c1", prefix + "b", prefix + "c2"]
    emm = EMM()
    out.append(Variant("em_constant_middle_last", emm.run, (), [t1, t2], [emm]))

    class NNF(torch.nn.Module):
        def __init__(self):
            super().__init__()
            self.p1 = torch.nn.Parameter(t1.detach().clone(), requires_grad=t1.requires_grad)
            self.frozen = torch.nn.Parameter(torch.ones(3, dtype=t1.dtype), requires_grad=False)
            self.p2 = torch.nn.Parameter(t2.detach().clone(), requires_grad=t2.requires_grad)

        def forward(self, *lead):
            return call(lead, self.p1 * self.frozen, self.p2)
    nnf = NNF()
    out.append(Variant("nn_frozen_parameter", nnf.forward, (), [nnf.p1, nnf.p2], [nnf]))
    # 12. tied weights: one nn.Parameter registered under two names, the function uses it through BOTH (finding F36:
    #     named_parameters() lists it once, so only the first name was substituted in the backward pass)
    class NNT(torch.nn.Module):
        def __init__(self):
            super().__init__()
            self.p1 = torch.nn.Parameter(t1.detach().clone(), requires_grad=t1.requires_grad)
            self.p1_again = self.p1
            self.p2 = torch.nn.Parameter(t2.detach().clone(), requires_grad=t2.requires_grad)

        def forward(self, *lead):
            return call(lead, 0.25 * self.p1 + 0.75 * self.p1_again, self.p2)
    nnt = NNT()
    out.append(Variant("nn_tied_parameters", nnt.forward, (), [nnt.p1, nnt.p2], [nnt]))
    if which is not None:
        out = [v for v in out if v.name in which]
    return out


def snapshot(objs):
    """identity + value + registration snapshot of the user's objects"""
    snap = []
    for o in objs:
        if isinstance(o, torch.nn.Module):
            snap.append(("nn", tuple((n, id(p), type(p).__name__, tuple(p.detach().reshape(-1).tolist()))
                                     for n, p in o.named_parameters())))
            snap.append(("nn-dict", tuple(sorted(k for k in o.__dict__ if not k.startswith("_")))))
        else:
            snap.append(("obj", _snap_dict(o.__dict__, 0)))
    return tuple(snap)


def _snap_dict(d, depth):
    out = []
    for k, v in d.items():
        if k.startswith("_") and k not in ("_parameters", "_modules"):
            continue
        out.append((k, _snap_val(v, depth)))
    return tuple(out)


def _snap_val(v, depth):
    if isinstance(v, torch.Tensor):
        return ("T", id(v), type(v).__name__, tuple(v.detach().reshape(-1).tolist()))
    if isinstance(v, torch.nn.Module):
        return ("nn", tuple((n, id(p), type(p).__name__) for n, p in v.named_parameters()))
    if isinstance(v, list):
        return ("L", id(v), tuple(_snap_val(x, depth + 1) for x in v))
    if isinstance(v, dict):
        return ("D", id(v), tuple((k, _snap_val(x, depth + 1)) for k, x in v.items()))
    if hasattr(v, "__dict__") and depth < 3:
        return ("O", id(v), _snap_dict(v.__dict__, depth + 1))
    return ("z", repr(v)[:40])

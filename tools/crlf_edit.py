# newline-preserving edit helper: python edit.py file 'old' 'new'
import sys
def edit(path, old, new, cnt=1):
    data=open(path,'rb').read()
    crlf=b"\r\n" in data
    s=data.decode()
    if crlf:
        old=old.replace("\r\n","\n").replace("\n","\r\n"); new=new.replace("\r\n","\n").replace("\n","\r\n")
    assert s.count(old)==cnt,(path,old,s.count(old))
    open(path,'wb').write(s.replace(old,new).encode())
if __name__=="__main__":
    edit(sys.argv[1],sys.argv[2],sys.argv[3])

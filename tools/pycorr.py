"""Correspondence of the TRANSLATED plumbing code (coq/Gen/Py*.v, emitted by tools/translate_py.py from /repo) with
CPython running the very same functions: random (mostly valid, partly malformed) inputs, the real function is run,
its result (or the class name of the exception it raises) is written as a Gallina term and compared *inside Coq* with
the value of the generated definition (vm_compute).  A disagreement on the unchanged tree is a defect of the
translator or of Base/PyLib.v (they are in the trusted base and this is what validates them); after a change to the
source it cannot happen for a faithful translation - the generated text changes with the source - so this check
validates the translator, while the theorems of Proofs/Py*.v about the generated text decide the property."""
from __future__ import annotations
import importlib, random
import torch
import translate_py as tp
from translate_py import Z, B, S, O, L, D, T
from vlib import coq_bool_cases

HEADER = ("From Coq Require Import ZArith List Bool.\nFrom Coq Require String.\nImport String.StringSyntax.\n"
          "From XV Require Import Base.PyLib Gen.PyBcast Gen.PyMisc Gen.PyUnique Gen.PyPackerIdx Gen.PyPureFn Gen.PyEditable Gen.PyTensorPacker Gen.PyDispatch Gen.PyDispatchEig Gen.PyDispatchRF.\n"
          "Open Scope Z_scope.\n")


# ------------------------------------------------------------------------------------------ objects
class Pool:
    """opaque objects of a case: descriptor <-> live Python object"""

    def __init__(self):
        self.objs, self.byid = {}, {}

    def get(self, d):
        if d == ("none",):
            return None
        if d[0] == "str":
            return d[1]
        if d not in self.objs:
            if d[0] == "call":
                o = (lambda i: (lambda *a, **k: i))(d[1])
            elif d[0] == "tensor":
                o = torch.zeros(1, requires_grad=d[2])
            else:
                o = object()
            self.objs[d] = o
            self.byid[id(o)] = d
        return self.objs[d]

    def desc(self, o):
        if o is None:
            return ("none",)
        if isinstance(o, str):
            return ("str", o)
        return self.byid[id(o)]


def c_obj(d):
    if d[0] == "none":
        return "ONone"
    if d[0] == "str":
        return 'OStr "%s"%%string' % d[1]
    if d[0] == "call":
        return "OCall %d" % d[1]
    if d[0] == "tensor":
        return "OTensor %d %s" % (d[1], "true" if d[2] else "false")
    return "OTok %d" % d[1]


def c_val(v, t):
    """Gallina term of a (descriptor-level) python value of model type t"""
    if t == Z:
        return "%d" % v if v >= 0 else "(%d)" % v
    if t == B:
        return "true" if v else "false"
    if t == S:
        return '"%s"%%string' % v
    if t == O:
        return "(%s)" % c_obj(v)
    if t[0] == "list":
        return "[" + "; ".join(c_val(x, t[1]) for x in v) + "]"
    if t[0] == "dict":
        return "[" + "; ".join("(%s, %s)" % (c_val(k, t[1]), c_val(x, t[2])) for k, x in v) + "]"
    if t[0] == "tuple":
        return "(" + ", ".join(c_val(x, tt) for x, tt in zip(v, t[1:])) + ")"
    if t[0] == "opt":
        return "None" if v is None else "(Some %s)" % c_val(v, t[1])
    raise AssertionError(t)


def c_eqb(t):
    if t == Z:
        return "Z.eqb"
    if t == B:
        return "Bool.eqb"
    if t == S:
        return "String.eqb"
    if t == O:
        return "obj_eqb"
    if t[0] == "list":
        return "(list_eqb %s)" % c_eqb(t[1])
    if t[0] == "dict":
        return "(list_eqb (prod_eqb %s %s))" % (c_eqb(t[1]), c_eqb(t[2]))
    if t[0] == "tuple":
        e = c_eqb(t[1])
        for tt in t[2:]:
            e = "(prod_eqb %s %s)" % (e, c_eqb(tt))
        return e
    raise AssertionError(t)


def to_desc(v, t, pool):
    """live python value -> descriptor-level value of model type t (fails if the value does not have that shape)"""
    if t == Z:
        assert isinstance(v, int) and not isinstance(v, bool), v
        return v
    if t == B:
        assert isinstance(v, bool), v
        return v
    if t == S:
        assert isinstance(v, str)
        return v
    if t == O:
        return pool.desc(v)
    if t[0] == "list":
        assert isinstance(v, (list, tuple)), v
        return [to_desc(x, t[1], pool) for x in v]
    if t[0] == "dict":
        assert isinstance(v, dict)
        return [(to_desc(k, t[1], pool), to_desc(x, t[2], pool)) for k, x in v.items()]
    if t[0] == "tuple":
        assert isinstance(v, (list, tuple)) and len(v) == len(t) - 1
        return tuple(to_desc(x, tt, pool) for x, tt in zip(v, t[1:]))
    raise AssertionError(t)


def from_desc(v, t, pool):
    if t in (Z, B, S):
        return v
    if t == O:
        return pool.get(v)
    if t[0] == "list":
        return [from_desc(x, t[1], pool) for x in v]
    if t[0] == "dict":
        return {from_desc(k, t[1], pool): from_desc(x, t[2], pool) for k, x in v}
    if t[0] == "opt":
        return None if v is None else from_desc(v, t[1], pool)
    raise AssertionError(t)


# ------------------------------------------------------------------------------------------ generators
def g_obj(rng, nid=6, tensors=True):
    r = rng.random()
    i = rng.randrange(nid)
    if tensors and r < 0.45:
        return ("tensor", i, i % 2 == 0)      # the flag is a function of the identity: one object, one flag
    if r < 0.6:
        return ("tok", i)
    if r < 0.7:
        return ("call", i)
    if r < 0.8:
        return ("none",)
    return ("str", rng.choice(["a", "cg", "x1"]))


def g_objs(rng, maxlen=7, **kw):
    return [g_obj(rng, **kw) for _ in range(rng.randrange(0, maxlen + 1))]


NAMES = ["method", "rtol", "atol", "maxiter", "verbose", "alpha", "Newton", "cg"]


def g_dict(rng, maxlen=5):
    ks = rng.sample(NAMES, rng.randrange(0, maxlen + 1))
    return [(k, g_obj(rng)) for k in ks]


def g_shapes(rng):
    n = rng.choice([0, 1, 1, 2, 2, 2, 3, 3, 4])
    return [[rng.choice([0, 1, 1, 2, 3, 5]) for _ in range(rng.randrange(0, 5))] for _ in range(n)]


class Entry:
    def __init__(self, name, unit, module, gen):
        self.name, self.unit, self.module, self.gen = name, unit, module, gen


def _types(unit):
    """parameter / return / field types as the translator sees them on the current tree"""
    relpath, specs = tp.UNITS[unit][:2]
    u = tp.Unit(relpath, specs)
    u.translate()
    return u


def case_bcast(rng, u, mod, which):
    shapes = g_shapes(rng)
    rt = u.done[which][1]
    return dict(args=[shapes], call=lambda pool: getattr(mod, which)(*[tuple(s) for s in shapes]),
                term="%s %s" % (which, c_val(shapes, L(L(Z)))), rtype=rt, key=(which, len(shapes), tuple(len(s) for s in shapes)))


def case_setdefault(rng, u, mod):
    a, b = g_dict(rng), g_dict(rng)
    t = D(S, O)
    return dict(args=[a, b], call=lambda pool: mod.set_default_option(from_desc(a, t, pool), from_desc(b, t, pool)),
                term="set_default_option %s %s" % (c_val(a, t), c_val(b, t)), rtype=u.done["set_default_option"][1],
                key=("sdo", len(a), len(b), len({k for k, _ in a} & {k for k, _ in b})))


def case_getpop(rng, u, mod):
    d = g_dict(rng)
    present = [k for k, _ in d]
    keys = rng.sample(present, rng.randrange(0, len(present) + 1))
    r = rng.random()
    if r < 0.15:
        keys.insert(rng.randrange(len(keys) + 1), rng.choice(NAMES))      # possibly missing / repeated key
    elif r < 0.25 and keys:
        keys.append(keys[0])                                               # repeated: KeyError on the second pop
    t = D(S, O)

    def call(pool):
        dd = from_desc(d, t, pool)
        res = mod.get_and_pop_keys(dd, list(keys))
        return (res, dd)
    return dict(args=[d, keys], call=call, term="get_and_pop_keys %s %s" % (c_val(d, t), c_val(keys, L(S))),
                rtype=u.done["get_and_pop_keys"][1], key=("gpk", len(d), len(keys)))


def case_getmethod(rng, u, mod):
    tbl = [(k, ("call", i)) for i, k in enumerate(rng.sample(["cg", "bicgstab", "gmres", "newton", "rk45", "a_b"], rng.randrange(0, 5)))]
    r = rng.random()
    if r < 0.55:
        base = rng.choice([k for k, _ in tbl] + ["cg", "zz", ""])
        name = "".join(ch.upper() if rng.random() < 0.4 else ch for ch in base)
        m = ("str", name)
    elif r < 0.75:
        m = ("call", 50 + rng.randrange(3))
    elif r < 0.87:
        m = ("none",)
    else:
        m = ("tok", 7)
    t = D(S, O)
    return dict(args=[tbl, m], call=lambda pool: mod.get_method("alg", from_desc(tbl, t, pool), pool.get(m)),
                term='get_method "alg"%%string %s %s' % (c_val(tbl, t), c_val(m, O)), rtype=O, key=("gm", m[0], len(tbl)))


def _fields_pat(u, cls):
    names = ["f%d" % i for i in range(len(u.fields[cls]))]
    return names, ("'(" + ", ".join(names) + ")" if len(names) > 1 else names[0])


def case_separator(rng, u, mod):
    params = g_objs(rng, 7)
    # distinct identities per position so that any misplacement is visible
    params = [(p[0], 10 * i + p[1], p[2]) if p[0] == "tensor" else ((p[0], 10 * i + p[1]) if p[0] in ("tok", "call") else p)
              for i, p in enumerate(params)]
    varonly = rng.random() < 0.6
    mode = rng.choice(["init", "recon", "recon", "recon_none", "recon_bad"])
    cls = "TensorNonTensorSeparator"
    ftypes = T(*[t for _, t in u.fields[cls]])
    names, pat = _fields_pat(u, cls)
    init = "separator_init %s %s" % (c_val(params, L(O)), c_val(varonly, B))
    if mode == "init":
        def call(pool):
            s = mod.TensorNonTensorSeparator(from_desc(params, L(O), pool), varonly=varonly)
            return tuple(getattr(s, k.split(".")[1]) for k, _ in u.fields[cls])
        return dict(args=[params, varonly], call=call, term=init, rtype=ftypes, key=("sep-init", len(params), varonly))
    ist = [p[0] == "tensor" and (p[2] or not varonly) for p in params]
    nt, nn = sum(ist), len(params) - sum(ist)
    tps = [("tok", 900 + i) for i in range(nt)]
    nps = [("tok", 950 + i) for i in range(nn)]
    if mode == "recon_bad":
        if rng.random() < 0.5:
            tps = tps + [("tok", 999)]
        else:
            nps = nps[:-1] if nps else [("tok", 998)]
    nps_arg = None if mode == "recon_none" else nps

    def call2(pool):
        s = mod.TensorNonTensorSeparator(from_desc(params, L(O), pool), varonly=varonly)
        return s.reconstruct_params(from_desc(tps, L(O), pool), None if nps_arg is None else from_desc(nps_arg, L(O), pool))
    term = "(%s <- %s ;; separator_reconstruct %s %s %s)" % (pat, init, " ".join(names), c_val(tps, L(O)), c_val(nps_arg, ("opt", L(O))))
    return dict(args=[params, varonly, tps, nps_arg], call=call2, term=term, rtype=L(O), key=("sep-" + mode, tuple(ist)))


def g_aliased(rng, maxlen=7):
    n = rng.randrange(0, maxlen + 1)
    nid = max(1, rng.randrange(1, n + 2))
    return [("tensor", rng.randrange(nid), True) for _ in range(n)]


def case_uniquifier(rng, u, mod):
    objs = g_aliased(rng)
    cls = "Uniquifier"
    ftypes = T(*[t for _, t in u.fields[cls]])
    names, pat = _fields_pat(u, cls)
    init = "uniquifier_init %s" % c_val(objs, L(O))
    mode = rng.choice(["init", "get", "get_none", "map", "map", "bad"])
    nuniq = len(set(objs))
    if mode == "init":
        def call(pool):
            s = mod.Uniquifier(from_desc(objs, L(O), pool))
            return tuple(getattr(s, k.split(".")[1]) for k, _ in u.fields[cls])
        return dict(args=[objs], call=call, term=init, rtype=ftypes, key=("uniq-init", _pattern(objs)))
    if mode in ("get", "get_none") or (mode == "bad" and rng.random() < 0.5):
        n = len(objs) + (rng.choice([-1, 1]) if mode == "bad" else 0)
        arg = None if mode == "get_none" else [("tok", 800 + i) for i in range(max(0, n))]

        def call2(pool):
            s = mod.Uniquifier(from_desc(objs, L(O), pool))
            return s.get_unique_objs(None if arg is None else from_desc(arg, L(O), pool))
        term = "(%s <- %s ;; uniquifier_get_unique_objs %s %s)" % (pat, init, " ".join(names), c_val(arg, ("opt", L(O))))
        return dict(args=[objs, arg], call=call2, term=term, rtype=L(O), key=("uniq-" + mode, _pattern(objs)))
    n = nuniq + (rng.choice([-1, 1]) if mode == "bad" else 0)
    arg = [("tok", 700 + i) for i in range(max(0, n))]

    def call3(pool):
        s = mod.Uniquifier(from_desc(objs, L(O), pool))
        return s.map_unique_objs(from_desc(arg, L(O), pool))
    term = "(%s <- %s ;; uniquifier_map_unique_objs %s %s)" % (pat, init, " ".join(names), c_val(arg, L(O)))
    return dict(args=[objs, arg], call=call3, term=term, rtype=L(O), key=("uniq-map-" + mode, _pattern(objs)))


def _pattern(objs):
    first = {}
    return tuple(first.setdefault(o, len(first)) for o in objs)


def case_packeridx(rng, u, mod):
    objs = g_aliased(rng)
    return dict(args=[objs], call=lambda pool: mod._get_unique_idxs(from_desc(objs, L(O), pool)),
                term="packer_get_unique_idxs %s" % c_val(objs, L(O)), rtype=u.done["_get_unique_idxs"][1],
                key=("pidx", _pattern(objs)))


def case_purefn(rng, u, mod):
    """PureFunction.set_objparams / restore_objparams on a real EditableModule method: a sequence of operations, the fields after
    the last one (object store, current parameters, restore stack) or the exception that ended it"""
    import xitorch as xt
    objs = g_aliased(rng, 5)
    nuniq = len(set(objs))
    ops, depth, fresh = [], 0, [100]
    for _ in range(rng.randrange(1, 6)):
        r = rng.random()
        if r < 0.55 or depth == 0 and r < 0.85:
            kind = rng.choice(["fresh", "fresh", "identical", "partly", "wrong-length"])
            ops.append(("set", kind))
            depth += 1
        else:
            ops.append(("restore",))
            depth -= 1
    TSTATE = T(L(O), L(O), L(T(L(O), B)))

    def newlist(kind, cur):
        if kind == "identical":
            return list(cur)
        if kind == "partly" and cur:
            out = list(cur)
            fresh[0] += 1
            out[-1] = ("tensor", fresh[0], True)
            return out
        n = nuniq + (rng.choice([-1, 1]) if kind == "wrong-length" else 0)
        out = []
        for _ in range(max(0, n)):
            fresh[0] += 1
            out.append(("tensor", fresh[0], True))
        return out
    # the descriptor-level lists are decided while running the real object (they depend on its current parameters)
    steps = []

    def call(pool):
        class EM(xt.EditableModule):
            def run(self):
                return 0

            def getparamnames(self, methodname, prefix=""):
                return [prefix + "p%d" % i for i in range(len(objs))]
        em = EM()
        for i, d in enumerate(objs):
            setattr(em, "p%d" % i, pool.get(d))
        pf = mod.get_pure_function(em.run)
        for op in ops:
            if op[0] == "set":
                new = newlist(op[1], [pool.desc(t) for t in pf._cur_objparams])
                steps.append(("set", new))
                pf.set_objparams([pool.get(d) for d in new])
            else:
                steps.append(("restore",))
                pf.restore_objparams()
        return ([getattr(em, "p%d" % i) for i in range(len(objs))], list(pf._cur_objparams), [(list(a), b) for a, b in pf._restore_stack])

    def term():
        t = "(fs_ <- uniquifier_init %s ;; let '(u0, u1, u2, u3, u4, u5) := fs_ in " % c_val(objs, L(O))
        t += "s0_ <- Ok (%s, u1, (@nil (list obj * bool))) ;; " % c_val(objs, L(O))
        for i, st in enumerate(steps):
            prev = "s%d_" % i
            if st[0] == "set":
                t += "s%d_ <- (let '(a_, b_, c_) := %s in purefn_set_objparams true a_ (u0, u1, u2, u3, u4, u5) b_ c_ %s) ;; " % (i + 1, prev, c_val(st[1], L(O)))
            else:
                t += "s%d_ <- (let '(a_, b_, c_) := %s in purefn_restore_objparams true a_ (u0, u1, u2, u3, u4, u5) b_ c_) ;; " % (i + 1, prev)
        return t + "Ok s%d_)" % len(steps)
    c = dict(args=[objs, ops], call=call, rtype=TSTATE, key=("purefn", _pattern(objs), tuple(o[0] + (":" + o[1] if len(o) > 1 else "") for o in ops)))
    c["term"] = term             # evaluated after the call (the steps are recorded by it)
    return c


def case_editable(rng, u, mod):
    """EditableModule: the search loop of _get_unique_params_idxs (cached index lists of a real object) and the scatter of
    setuniqueparams (what the object's parameter slots hold afterwards)"""
    import xitorch as xt
    objs = g_aliased(rng, 6)

    def mk(pool):
        class EM(xt.EditableModule):
            def run(self):
                return 0

            def getparamnames(self, methodname, prefix=""):
                return [prefix + "p%d" % i for i in range(len(objs))]
        em = EM()
        for i, d in enumerate(objs):
            setattr(em, "p%d" % i, pool.get(d))
        return em
    if rng.random() < 0.4:
        def call(pool):
            em = mk(pool)
            em._get_unique_params_idxs("run")
            return (list(em._unique_params_idxs["run"]), [list(x) for x in em._unique_params_maps["run"]])
        return dict(args=[objs], call=call, term="editable_unique_params_idxs %s" % c_val(objs, L(O)), rtype=T(L(Z), L(L(Z))),
                    key=("em-idxs", _pattern(objs)))
    nuniq = len(set(objs))
    n = nuniq + rng.choice([0, 0, 0, -1, 1])
    new = [("tensor", 300 + i, True) for i in range(max(0, n))]

    def call2(pool):
        em = mk(pool)
        em.getuniqueparams("run")                # fills the per-method caches, as every caller of setuniqueparams does first
        em.setuniqueparams("run", *[pool.get(d) for d in new])
        return [getattr(em, "p%d" % i) for i in range(len(objs))]
    term = "('(idxs_, maps_) <- editable_unique_params_idxs %s ;; editable_setuniqueparams_scatter %d maps_ %s)" % (
        c_val(objs, L(O)), len(objs), c_val(new, L(O)))
    return dict(args=[objs, new], call=call2, term=term, rtype=L(O), key=("em-set", _pattern(objs), n - nuniq))


def case_tensorpacker(rng, u, mod):
    shapes = [[rng.choice([0, 1, 1, 2, 3]) for _ in range(rng.randrange(0, 4))] for _ in range(rng.randrange(0, 5))]

    def call(pool):
        tp_ = mod.TensorPacker([torch.zeros(tuple(sh)) for sh in shapes])
        return [(a, b, list(sh)) for a, b, sh in tp_.idx_shapes]
    return dict(args=[shapes], call=call, term="tensorpacker_init %s" % c_val(shapes, L(L(Z))), rtype=L(T(Z, Z, L(Z))),
                key=("tensorpacker", tuple(tuple(sh) for sh in shapes)))


def _fragment_code(unitname):
    """the source statements of a translated body fragment, compiled for CPython (same boundaries and skips as the translator)"""
    import ast as _ast
    relpath, specs = tp.UNITS[unitname][:2]
    spec = specs[0]
    u = tp.Unit(relpath, specs)
    fdef = u.functions()[spec["qual"]]
    texts = [_ast.unparse(x).split("\n")[0] for x in fdef.body]
    i0, i1 = texts.index(spec["fragment"]["from"]), texts.index(spec["fragment"]["until"])
    stmts = [x for x in fdef.body[i0:i1] if _ast.unparse(x).split("\n")[0] not in spec.get("skip", [])]
    return compile(_ast.Module(body=stmts, type_ignores=[]), relpath, "exec")


_FRAG = {}


def case_dispatch(rng, u, mod, unitname, coqname):
    """the method-selection code in front of the dispatch of solve() / symeig(): the very statements of the source are executed
    by CPython on stub operators (dense or not, small or not, Hermitian or not, M absent or not)"""
    if unitname not in _FRAG:
        _FRAG[unitname] = _fragment_code(unitname)

    class MatrixLinearOperator:
        pass

    class Other:
        pass
    a_dense, m_none, m_dense = rng.random() < 0.5, rng.random() < 0.4, rng.random() < 0.5
    n = rng.choice([1, 4, 5, 6, 40])
    a_h, m_h = rng.random() < 0.5, rng.random() < 0.5
    A = (MatrixLinearOperator if a_dense else Other)()
    A.shape, A.is_hermitian = (2, n, n), a_h
    M = None
    if not m_none:
        M = (MatrixLinearOperator if m_dense else Other)()
        M.is_hermitian = m_h
    r = rng.random()
    if r < 0.35:
        m = ("none",)
    elif r < 0.8:
        base = rng.choice(["cg", "exactsolve", "ExactEig", "BiCGStab", "custom_exacteig", "zz", ""])
        m = ("str", "".join(ch.upper() if rng.random() < 0.4 else ch for ch in base))
    elif r < 0.9:
        m = ("call", 5)
    else:
        m = ("tok", 9)

    def call(pool):
        ns = {"A": A, "M": M, "MatrixLinearOperator": MatrixLinearOperator, "method": pool.get(m)}
        exec(_FRAG[unitname], ns)
        return ns["method"]
    ins = [a_dense, m_none or m_dense, n, a_h, m_none or m_h]
    term = "%s %s %s %d %s %s %s" % (coqname, c_val(ins[0], B), c_val(ins[1], B), n, c_val(ins[3], B), c_val(ins[4], B), c_val(m, O))
    return dict(args=[ins, m], call=call, term=term, rtype=O, key=(coqname, tuple(ins), m[0], m[1] if m[0] == "str" else None))


def case_dispatch_rf(rng, u, mod, which):
    """equilibrium() / minimize(): the statements of the source in front of _RootFinder.apply, executed by CPython with the
    module's own method tables and default helpers"""
    import ast as _ast
    key = "PyDispatchRF:" + which
    if key not in _FRAG:
        relpath, specs = tp.UNITS["PyDispatchRF"][:2]
        spec = [sp for sp in specs if sp["qual"] == which][0]
        fdef = tp.Unit(relpath, specs).functions()[which]
        texts = [_ast.unparse(x).split("\n")[0] for x in fdef.body]
        i0, i1 = texts.index(spec["fragment"]["from"]), texts.index(spec["fragment"]["until"])
        stmts = [x for x in fdef.body[i0:i1] if _ast.unparse(x).split("\n")[0] not in spec.get("skip", [])]
        _FRAG[key] = compile(_ast.Module(body=stmts, type_ignores=[]), relpath, "exec")
    r = rng.random()
    if r < 0.3:
        m = ("none",)
    elif r < 0.8:
        base = rng.choice(["anderson_acc", "broyden1", "Newton", "gd", "ADAM", "linearmixing", "zz", ""])
        m = ("str", "".join(ch.upper() if rng.random() < 0.4 else ch for ch in base))
    elif r < 0.9:
        m = ("call", 5)
    else:
        m = ("tok", 9)
    tbl_py = mod._EQUIL_METHODS if which == "equilibrium" else mod._RF_METHODS
    tbl = [(k, ("call", 60 + i)) for i, k in enumerate(tbl_py)]
    fo = g_dict(rng, 3)

    def call(pool):
        ns = dict(vars(mod))
        ns.update(method=pool.get(m), fwd_options=from_desc(fo, D(S, O), pool), pfunc=pool.get(("tok", 71)), new_fcn=pool.get(("tok", 72)))
        exec(_FRAG[key], ns)
        return (ns["method"], ns["alg_type"], ns["fwd_fcn"]) if which == "equilibrium" else (ns["method"], ns["opt_method"])
    if which == "equilibrium":
        term = "equilibrium_method_prelude %s (OTok 71) (OTok 72) %s" % (c_val(m, O), c_val(tbl, D(S, O)))
        rt = T(O, S, O)
    else:
        term = "minimize_method_prelude %s %s %s" % (c_val(m, O), c_val(fo, D(S, O)), c_val(tbl, D(S, O)))
        rt = T(O, B)
    return dict(args=[m, fo], call=call, term=term, rtype=rt, key=(which, m[0], m[1] if m[0] == "str" else None))


FUNCTIONS = {
    "normalize_bcast_dims": ("PyBcast", "xitorch._utils.bcast", lambda r, u, m: case_bcast(r, u, m, "normalize_bcast_dims")),
    "get_bcasted_dims": ("PyBcast", "xitorch._utils.bcast", lambda r, u, m: case_bcast(r, u, m, "get_bcasted_dims")),
    "set_default_option": ("PyMisc", "xitorch._utils.misc", case_setdefault),
    "get_and_pop_keys": ("PyMisc", "xitorch._utils.misc", case_getpop),
    "get_method": ("PyMisc", "xitorch._utils.misc", case_getmethod),
    "separator": ("PyMisc", "xitorch._utils.misc", case_separator),
    "uniquifier": ("PyUnique", "xitorch._utils.unique", case_uniquifier),
    "packer_unique_idxs": ("PyPackerIdx", "xitorch._core.packer", case_packeridx),
    "purefunction": ("PyPureFn", "xitorch._core.pure_function", case_purefn),
    "editable_module": ("PyEditable", "xitorch._core.editable_module", case_editable),
    "tensorpacker": ("PyTensorPacker", "xitorch._utils.misc", case_tensorpacker),
    "solve_prelude": ("PyDispatch", "xitorch.linalg.solve", lambda r, u, m: case_dispatch(r, u, m, "PyDispatch", "solve_method_prelude")),
    "equilibrium_prelude": ("PyDispatchRF", "xitorch.optimize.rootfinder", lambda r, u, m: case_dispatch_rf(r, u, m, "equilibrium")),
    "minimize_prelude": ("PyDispatchRF", "xitorch.optimize.rootfinder", lambda r, u, m: case_dispatch_rf(r, u, m, "minimize")),
    "symeig_prelude": ("PyDispatchEig", "xitorch.linalg.symeig", lambda r, u, m: case_dispatch(r, u, m, "PyDispatchEig", "symeig_method_prelude")),
}


def check(ctx, names, n):
    """n random cases per listed function; mismatches are broken ties ("translated-model correspondence")"""
    rng = random.Random(ctx.rng.random())
    cases, meta = [], []
    units = {}
    for name in names:
        unit, modname, gen = FUNCTIONS[name]
        try:
            if unit not in units:
                units[unit] = _types(unit)
            mod = importlib.import_module(modname)
        except Exception as e:
            ctx.broken("translator:" + unit, "%s: %s" % (type(e).__name__, e))
            continue
        for _ in range(n):
            c = gen(rng, units[unit], mod)
            pool = Pool()
            try:
                val = c["call"](pool)
                try:
                    expected = "inl %s" % c_val(to_desc(val, c["rtype"], pool), c["rtype"])
                except (AssertionError, KeyError) as e:
                    ctx.broken("translated-model-correspondence:" + name,
                               {"input": c["args"], "python": repr(val)[:300], "model_type": str(c["rtype"]),
                                "what": "the value returned by CPython does not have the shape the translated definition returns"})
                    continue
            except Exception as e:
                expected = 'inr "%s"%%string' % type(e).__name__
            if callable(c["term"]):
                c["term"] = c["term"]()
            cases.append("res_eqb %s (%s) (%s)" % (c_eqb(c["rtype"]), c["term"], expected))
            meta.append((name, c, expected))
            ctx.count(key=("pycorr",) + tuple(c["key"]))
    if not cases:
        return
    failed, errors = coq_bool_cases("pycorr_" + ctx.prop.lower(), HEADER, cases, chunk=300)
    for e in errors:
        ctx.broken("translated-model-correspondence:coq", e[-1500:])
    for i in failed[:5]:
        name, c, expected = meta[i]
        ctx.broken("translated-model-correspondence:" + name,
                   {"input": c["args"], "coq_term": c["term"][:1500], "python_result": expected[:1500]})
    ctx.stat("pycorr_cases", len(cases))
    ctx.stat("pycorr_mismatches", len(failed))
    ctx.coverage["traces_validated_against_impl"] += len(cases) - len(failed)

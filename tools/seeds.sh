#!/bin/bash
# run every claimed check's quick tier with several seeds (false-alarm hunt); usage: seeds.sh "1 2 3" [props...]
cd "$(dirname "$0")/.."
SEEDS=${1:-"1 2 3"}; shift
PROPS=${@:-$(python3 -c "import json;print(' '.join(c['property_id'] for c in json.load(open('MANIFEST.json'))['checks']))")}
for p in $PROPS; do for s in $SEEDS; do
  out=$(VERIF_SEED=$s timeout 1500 ./vcheck $p --tier quick 2>&1 | grep -v "^  " | grep -E "VIOLATION|BROKEN|tier=" | cut -c1-300)
  echo "$p seed=$s :: $(echo "$out" | tr '\n' ' ' | cut -c1-400)"
done; done

#!/bin/bash
# hooks.baseline_off_cmd: the repository's pinned suite with the guard OFF, compared with BASELINE.json
unset XITORCH_VERIF
cd /repo
OUT=${1:-/tmp/xv_baseline.junit.xml}
/venv/bin/python -m pytest -ra -q -p no:cacheprovider --timeout=900 --continue-on-collection-errors --junitxml=$OUT >/tmp/xv_baseline.log 2>&1
/venv/bin/python - "$OUT" <<'PY'
import json, sys, xml.etree.ElementTree as ET
b = json.load(open('/root/.vp/BASELINE.json'))
passed = set()
for tc in ET.parse(sys.argv[1]).iter('testcase'):
    if not any(c.tag in ('failure', 'error', 'skipped') for c in tc):
        passed.add(tc.get('classname') + '::' + tc.get('name'))
missing = sorted(set(b['stable_pass']) - passed)
print("stable_pass: %d, passing now: %d, missing: %d" % (len(b['stable_pass']), len(passed), len(missing)))
for m in missing[:20]:
    print("  MISSING", m)
sys.exit(1 if missing else 0)
PY

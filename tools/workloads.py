"""Small problems for every functional, parametrised by a function Variant (see fkinds.py).
Each workload gives F(lead..., th1, th2) and a driver forward(variant) -> output tensor."""
from __future__ import annotations
import warnings
import torch
from xitorch.optimize import rootfinder, equilibrium, minimize
from xitorch.integrate import solve_ivp, quad, mcquad
from xitorch.grad import jac, hess
from xitorch.linalg import solve

DT = torch.float64


def leaves(seed=0):
    g = torch.Generator().manual_seed(1234 + seed)
    t1 = (torch.rand(3, dtype=DT, generator=g) + 0.6).requires_grad_()
    t2 = (torch.rand(3, dtype=DT, generator=g) - 0.3).requires_grad_()
    return t1, t2


TIGHT = dict(f_tol=1e-11, x_tol=1e-11)


class W:
    def __init__(self, name, F, forward, extra_first=False, rtol=1e-6, atol=1e-8):
        self.name, self.F, self.forward, self.extra_first, self.rtol, self.atol = name, F, forward, extra_first, rtol, atol


def _quiet(f):
    def g(*a, **k):
        with warnings.catch_warnings():
            warnings.simplefilter("ignore")
            return f(*a, **k)
    return g


WORKLOADS = [
    W("rootfinder", lambda y, a, b: y ** 3 + a * y - b,
      lambda v: rootfinder(v.fcn, torch.zeros(3, dtype=DT), params=v.params, method="broyden1", **TIGHT)),
    W("equilibrium", lambda y, a, b: 0.3 * torch.cos(y) * a + 0.2 * b,
      lambda v: equilibrium(v.fcn, torch.zeros(3, dtype=DT), params=v.params, method="broyden1", **TIGHT)),
    W("equilibrium_anderson", lambda y, a, b: 0.3 * torch.cos(y) * a + 0.2 * b,
      lambda v: equilibrium(v.fcn, torch.zeros(3, dtype=DT), params=v.params, method="anderson_acc", **TIGHT)),
    W("minimize", lambda y, a, b: (0.5 * a * y ** 2 - b * y + 0.1 * y ** 4).sum(),
      lambda v: minimize(v.fcn, torch.zeros(3, dtype=DT), params=v.params, method="broyden1", **TIGHT)),
    W("minimize_gd", lambda y, a, b: (0.5 * a * y ** 2 - b * y + 0.1 * y ** 4).sum(),
      lambda v: minimize(v.fcn, torch.zeros(3, dtype=DT), params=v.params, method="gd", step=0.3, maxiter=400,
                         f_rtol=0, x_rtol=0, f_tol=1e-14, x_tol=1e-12), rtol=1e-5, atol=1e-7),
    W("solve_ivp", lambda t, y, a, b: -a * y + b * t,
      lambda v: solve_ivp(v.fcn, torch.linspace(0, 1.0, 4, dtype=DT), torch.ones(3, dtype=DT), params=v.params,
                          method="rk4"), extra_first=True, rtol=1e-9, atol=1e-11),
    W("solve_ivp_rk45", lambda t, y, a, b: -a * y + b * t,
      lambda v: solve_ivp(v.fcn, torch.linspace(0, 1.0, 3, dtype=DT), torch.ones(3, dtype=DT), params=v.params,
                          method="rk45", atol=1e-10, rtol=1e-9, bck_options=dict(atol=1e-10, rtol=1e-9)),
      extra_first=True, rtol=1e-6, atol=1e-8),
    W("quad", lambda x, a, b: torch.exp(-a * x) * b + a * x ** 2,
      lambda v: quad(v.fcn, 0.2, torch.tensor(1.3, dtype=DT), params=v.params, n=12), rtol=1e-9, atol=1e-11),
    W("mcquad", lambda x, a, b: a * x * x + b * x,
      lambda v: mcquad(v.fcn, lambda x: -(x * x).sum(), torch.zeros(1, dtype=DT), fparams=v.params, pparams=(),
                       method="mhcustom", custom_step=lambda x, *p: x * -0.9 + 0.1, nsamples=12, nburnout=3),
      rtol=1e-9, atol=1e-11),
    # tuple-valued integrand (separate code path of quad: the object parameters must reach the autograd function too;
    # seeded defect C09/2)
    W("quad_tuple", lambda x, a, b: (torch.exp(-a * x) * b, a * x ** 2 + torch.sin(b * x)),
      lambda v: torch.cat(quad(v.fcn, 0.2, torch.tensor(1.3, dtype=DT), params=v.params, n=12)), rtol=1e-9, atol=1e-11),
    # log-density with its own explicit parameter next to an integrand that may carry object parameters (the packed
    # parameter list is split by position; seeded defect C09/3)
    W("mcquad_pparams", lambda x, a, b: a * x * x + b * x,
      lambda v: (torch.manual_seed(11), mcquad(v.fcn, lambda x, w: -(x * x).sum() * w, torch.zeros(1, dtype=DT), fparams=v.params,
                                               pparams=(torch.tensor(1.3, dtype=DT),), method="mh", step_size=0.7, nsamples=40,
                                               nburnout=5))[1],
      rtol=1e-9, atol=1e-11),
    W("jac_mv", lambda x, a, b: a * x ** 3 + b * torch.sin(x),
      lambda v: jac(v.fcn, params=(_x0(), *v.params), idxs=0).mv(torch.tensor([1.0, -2.0, 0.5], dtype=DT)),
      rtol=1e-10, atol=1e-12),
    W("jac_rmv", lambda x, a, b: a * x ** 3 + b * torch.sin(x),
      lambda v: jac(v.fcn, params=(_x0(), *v.params), idxs=0).rmv(torch.tensor([1.0, -2.0, 0.5], dtype=DT)),
      rtol=1e-10, atol=1e-12),
    W("hess_mv", lambda x, a, b: (a * x ** 3 + b * torch.sin(x) * x).sum(),
      lambda v: hess(v.fcn, params=(_x0(), *v.params), idxs=0).mv(torch.tensor([1.0, -2.0, 0.5], dtype=DT)),
      rtol=1e-10, atol=1e-12),
    # more than 5 unknowns: the backward linear solve of rootfinder is iterative by default, and its own backward (second order)
    # has to re-evaluate the Jacobian operator with the object's tensors substituted (round-4 seed C09/10)
    W("rootfinder_7_unknowns", lambda y, a, b: y ** 3 + (1.0 + (_E1 @ a) ** 2) * y - _E2 @ b,
      lambda v: rootfinder(v.fcn, torch.zeros(7, dtype=DT), params=v.params, method="broyden1", f_tol=1e-12, x_tol=1e-12, maxiter=300),
      rtol=1e-5, atol=1e-7),
    # the Hessian operator of a (module-held) energy handed to a matrix-free solver (a Newton-CG step), gradients w.r.t. the
    # tensors of the energy (round-4 seed C09/11: the operator shared its parameter list with the pure function)
    W("hess_solve_cg", lambda x, a, b: (a * x ** 4 + (1.0 + b * b) * x * x).sum() + 0.1 * (x.sum()) ** 2,
      lambda v: solve(hess(v.fcn, params=(_x0(), *v.params), idxs=0), torch.tensor([[1.0], [-2.0], [0.5]], dtype=DT), method="cg",
                      rtol=1e-12, atol=1e-14, bck_options=dict(method="cg", rtol=1e-12, atol=1e-14)),
      rtol=1e-6, atol=1e-8),
]
for w in WORKLOADS:
    w.forward = _quiet(w.forward)
_gE = torch.Generator().manual_seed(99)
_E1 = 0.5 * torch.randn(7, 3, dtype=DT, generator=_gE)
_E2 = torch.randn(7, 3, dtype=DT, generator=_gE)


def _x0():
    return torch.tensor([0.3, -0.7, 1.1], dtype=DT, requires_grad=True)


def grads(out, lv, order):
    """value, first-order and (order 2) second-order directional gradients w.r.t. the leaves"""
    res = [out.detach()]
    if order == 0:
        return res
    w = torch.cos(torch.arange(out.numel(), dtype=out.dtype) * 0.7 + 0.3).reshape(out.shape)
    loss = (out * w).sum()
    g1 = torch.autograd.grad(loss, lv, create_graph=(order >= 2), retain_graph=True, allow_unused=True)
    g1 = [torch.zeros_like(l) if g is None else g for g, l in zip(g1, lv)]
    res += [g.detach() for g in g1]
    if order >= 2:
        s = sum((g * torch.sin(torch.arange(g.numel(), dtype=g.dtype) + 1.0).reshape(g.shape)).sum() for g in g1)
        if s.requires_grad:
            g2 = torch.autograd.grad(s, lv, retain_graph=True, allow_unused=True)
            res += [torch.zeros_like(l) if g is None else g.detach() for g, l in zip(g2, lv)]
        else:
            res += [torch.zeros_like(l) for l in lv]
    return res

From Coq Require Import List Bool Arith ZArith PrimFloat.
Import ListNotations.
From XV Require Import Base.Ops Base.LinAlg Model.SolveBackward Model.InterpRun Model.KrylovRun.

(* code 1 agree / 0 mismatch / 2 singular in the model *)
Definition solve_grad_code (A M : list (list float)) (es : list float) (bcols gcols : list (list float))
           (xcols : list (list float)) (gB : list (list float)) (gA gM : list (list float)) (gE : list float)
           (useM useE : bool) : nat :=
  match solve_cols Fops A M es bcols with
  | None => 2%nat
  | Some xs =>
      match backward Fops A M es xs gcols with
      | None => 2%nat
      | Some g =>
          if close_cols 0x1p-24 0x1p-34 xs xcols && close_cols 0x1p-24 0x1p-34 (g_B g) gB &&
             close_cols 0x1p-24 0x1p-34 (g_A g) gA &&
             (negb (useM && useE) || close_cols 0x1p-24 0x1p-34 (g_M g) gM) &&
             (negb useE || close_cols 0x1p-24 0x1p-34 [g_E g] [gE])
          then 1%nat else 0%nat
      end
  end.

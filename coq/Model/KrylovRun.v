(* float-instance drivers for the C01 correspondence *)
From Coq Require Import List Bool Arith ZArith PrimFloat.
Import ListNotations.
From XV Require Import Base.Ops Base.LinAlg Model.Krylov Model.RKRun.

Definition vmule (v : list float) (e : float) : list float := map (fun x => PrimFloat.mul x e) v.

(* column operator of A X - M X E (Mx * E with M = identity when absent; no shift when E is absent) and
   its adjoint (real case) *)
Definition col_op (A M : list (list float)) (useM useE : bool) (e : float) (x : list float) : list float :=
  if useE then vsub Fops (mvec Fops A x) (vmule (if useM then mvec Fops M x else x) e)
  else mvec Fops A x.
Definition col_opT (A M : list (list float)) (useM useE : bool) (e : float) (x : list float) : list float :=
  col_op (transpose Fops A) (transpose Fops M) useM useE e x.

Definition ops_for (A M : list (list float)) (useM useE posdef : bool) (es : list float) (ncols : nat)
  : list (list float -> list float) :=
  map (fun j => let e := nth j es 0%float in
                if posdef then col_op A M useM useE e
                else fun x => col_opT A M useM useE e (col_op A M useM useE e x)) (seq 0 ncols).
Definition rhs_for (A M : list (list float)) (useM useE posdef : bool) (es : list float) (bs : list (list float))
  : list (list float) :=
  if posdef then bs
  else map (fun p => col_opT A M useM useE (nth (fst p) es 0%float) (snd p)) (combine (seq 0 (length bs)) bs).

(* smallest relative distance of a residual norm from its threshold over the final test (decision margin) *)
Definition colmax (c : list float) : float := fold_left (fun m v => if PrimFloat.ltb m (PrimFloat.abs v) then PrimFloat.abs v else m) c 0%float.
(* entries agree to 2^-12 relative, or to 2^-14 of the column's largest entry (rounding differences of the
   reductions are amplified by the conditioning of the system; a changed branch or operand is not that small) *)
Fixpoint close_cols (rt at_ : float) (a b : list (list float)) : bool :=
  match a, b with
  | [], [] => true
  | x :: r, y :: s => vclose 0x1p-12 (PrimFloat.add at_ (PrimFloat.mul 0x1p-14 (colmax y))) x y && close_cols rt at_ r s
  | _, _ => false
  end.

(* code: 0 mismatch, 1 agree, 2 skipped (a stopping decision within 2^-16 of its threshold) *)
Definition krylov_code (bicg : bool) (A M : list (list float)) (useM useE posdef : bool) (es : list float)
           (bs : list (list float)) (max_niter every : nat) (rtol atol eps : float)
           (warned : bool) (napps : nat) (xcols : list (list float)) : nat :=
  let all_small := forallb (fun c : list float => forallb (fun v => PrimFloat.leb (PrimFloat.abs v) atol) c) bs in
  let all_zero := forallb (fun c : list float => forallb (fun v => PrimFloat.eqb v 0%float) c) xcols in
  (* torch.allclose(B, B * 0, rtol, atol) -> zeros are returned without touching the operator *)
  if all_small then (if negb warned && Nat.eqb napps 0 && all_zero then 1%nat else 0%nat) else
  let Afs := ops_for A M useM useE posdef es (length bs) in
  let b2 := rhs_for A M useM useE posdef es bs in
  let out := if bicg then bicgstab Fops Afs eps max_niter every rtol atol b2
             else cg Fops Afs eps max_niter every rtol atol b2 in
  (* margin rule: the run must take the same decisions when the thresholds move by a factor 4 (bicgstab:
     rounding differences are amplified by the recurrences) resp. 2 (cg) either way *)
  let run := fun (f : float) => if bicg then bicgstab Fops Afs eps max_niter every (PrimFloat.mul rtol f) (PrimFloat.mul atol f) b2
                                else cg Fops Afs eps max_niter every (PrimFloat.mul rtol f) (PrimFloat.mul atol f) b2 in
  let lo := run (if bicg then 0x1p-2 else 0x1p-1)%float in let hi := run (if bicg then 0x1p+2 else 0x1p+1)%float in
  let stable := Nat.eqb (co_iters lo) (co_iters hi) && Bool.eqb (co_warned lo) (co_warned hi) in
  (* sensitivity rule: the decisions must also survive a relative perturbation of 2^-40 of the right-hand side
     (alternating sign per entry); on ill-conditioned systems the iteration amplifies rounding differences by
     more than the factor used above *)
  let pert := fun (c : list float) => map (fun p : nat * float => PrimFloat.mul (snd p)
                 (if Nat.even (fst p) then 0x1.0000000001p+0 else 0x1.fffffffffep-1)%float) (combine (seq 0 (List.length c)) c) in
  let b3 := map pert b2 in
  let outp := if bicg then bicgstab Fops Afs eps max_niter every rtol atol b3
              else cg Fops Afs eps max_niter every rtol atol b3 in
  let stable := stable && Nat.eqb (co_iters outp) (co_iters out) && Bool.eqb (co_warned outp) (co_warned out)
                && close_cols 0x1p-24 0x1p-34 (co_x outp) (co_x out)
                && forallb (fun t : (float * float) * list float =>
                              let stop := (let r := PrimFloat.mul rtol (vnorm Fops (snd t)) in if PrimFloat.ltb r atol then atol else r) in
                              let r1 := fst (fst t) in let r2 := snd (fst t) in
                              PrimFloat.leb (PrimFloat.abs (PrimFloat.sub r1 r2)) (PrimFloat.mul 0x1p-6 r2)
                              || (PrimFloat.leb r1 (PrimFloat.mul 0x1p-20 stop) && PrimFloat.leb r2 (PrimFloat.mul 0x1p-20 stop)))
                           (combine (combine (co_resid outp) (co_resid out)) b2) in
  (* ... and the returned block and the final residual norms must move by less than 2^-24 resp. 2^-8: an iteration
     that amplifies a 2^-40 perturbation beyond that (residual norms: by 2^-6 relative, unless both are 2^20 times below the threshold, i.e. at the rounding floor) cannot be compared *)
  if negb stable then 2%nat else
  let k := co_iters out in
  (* applications of the (composed) column operator: 1 initial + per iteration (1 or 2) + recomputations *)
  let recalcs := length (filter (fun i => negb (Nat.eqb every 0) && Nat.eqb (Nat.modulo i every) 0) (seq 1 k)) in
  let per := if bicg then 2 else 1 in
  let expected_apps := 1 + per * k + recalcs in
  if Bool.eqb (co_warned out) warned && Nat.eqb expected_apps napps && close_cols 0x1p-20 0x1p-30 (co_x out) xcols
  then 1%nat else 0%nat.

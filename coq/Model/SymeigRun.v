(* float / complex drivers for the C05 correspondence: distances, oracle-answer checks, the property
   checker evaluated on the implementation's results, and the per-path comparison codes *)
From Coq Require Import List Bool Arith ZArith PrimFloat.
Import ListNotations.
From XV Require Import Base.Ops Base.Cplx Base.LinAlg Model.Symeig.

Definition finf : float := PrimFloat.div 1 0.
Definition fmax (a b : float) : float := if PrimFloat.ltb a b then b else (if PrimFloat.eqb b b then a else b).  (* nan wins *)

Section Run.
  Context {T : Type} (o : ops T) (cj : T -> T) (mag : T -> float).
  Local Notation mat := (list (list T)).

  Definition vdist (u v : list T) : float :=
    if Nat.eqb (length u) (length v)
    then fold_left fmax (map (fun p => mag (osub o (fst p) (snd p))) (combine u v)) 0%float
    else finf.
  Definition mdist (a b : mat) : float :=
    if Nat.eqb (length a) (length b)
    then fold_left fmax (map (fun p => vdist (fst p) (snd p)) (combine a b)) 0%float
    else finf.
  Definition mmag (a : mat) : float := fold_left fmax (map (fun r => fold_left fmax (map mag r) 0%float) a) 0%float.
  (* |a - b|_max <= tol (1 + |b|_max) ; false on nan or on a shape mismatch *)
  Definition mclose (tol : float) (a b : mat) : bool :=
    PrimFloat.leb (mdist a b) (PrimFloat.mul tol (PrimFloat.add 1 (mmag b))).
  Definition vclose' (tol : float) (u v : list T) : bool := mclose tol [u] [v].
  Definition msame (a b : mat) : bool := PrimFloat.eqb (mdist a b) 0%float.
  Definition vsame (u v : list T) : bool := msame [u] [v].

  Definition ident (n : nat) : mat := identity o n.
  Definition diag_cols (e : list T) (a : mat) : mat := scale_cols o e a.       (* a diag(e) *)
  Fixpoint ascending (e : list T) : bool :=
    match e with
    | a :: ((b :: _) as r) => negb (PrimFloat.ltb (mag (osub o b a)) 0%float) && oleb o a b && ascending r
    | _ => true
    end.

  (* ---- answers of the LAPACK oracles satisfy their specifications (to tol) ---- *)
  Definition chol_ok (tol : float) (Mx L : mat) : bool := mclose tol (mmul o L (mH o cj L)) Mx.
  Definition inv_ok (tol : float) (L Linv : mat) : bool :=
    mclose tol (mmul o Linv L) (ident (length L)) && mclose tol (mmul o L Linv) (ident (length L)).
  Definition eigh_ok (tol : float) (A2 : mat) (eY : list T * mat) : bool :=
    mclose tol (mmul o A2 (snd eY)) (diag_cols (fst eY) (snd eY)) &&
    mclose tol (mmul o (mH o cj (snd eY)) (snd eY)) (ident (length (fst eY))) && ascending (fst eY).

  (* ---- the property, evaluated on returned pairs:  A X = M X diag(e),  X^H M X = I,  ascending ---- *)
  Definition pairs_ok (tol : float) (useM : bool) (A Mx : mat) (e : list T) (X : mat) : bool :=
    let MX := Mmm o useM Mx X in
    mclose tol (mmul o A X) (diag_cols e MX) && mclose tol (mmul o (mH o cj X) MX) (ident (length e)) && ascending e.

  (* ---- exacteig: 0 mismatch / 1 agree ; bit 2 / 4 / 8 of the failure word say what disagreed ---- *)
  Definition exact_code (tol : float) (useM lowest : bool) (neig : nat) (A Mx L Linv : mat) (eY : list T * mat)
             (spied_arg : mat) (out_e : list T) (out_X : mat) : nat :=
    let r := if useM then exacteig_M o cj lowest neig A Linv eY else exacteig_noM lowest neig A eY in
    let oracles := (if useM then chol_ok tol Mx L && inv_ok tol L Linv else true) && eigh_ok tol spied_arg eY in
    let arg_ok := mclose tol (eo_eigh_arg r) spied_arg in
    let e_ok := vsame (eo_evals r) out_e in
    let x_ok := if useM then mclose tol (eo_evecs r) out_X else msame (eo_evecs r) out_X in
    let prop_ok := pairs_ok tol useM A Mx out_e out_X in
    if oracles && arg_ok && e_ok && x_ok && prop_ok then 1
    else 100 + (if oracles then 0 else 1) + (if arg_ok then 0 else 2) + (if e_ok then 0 else 4)
             + (if x_ok then 0 else 8) + (if prop_ok then 0 else 16).

  (* ---- svd ---- *)
  Definition svd_code (tol : float) (tiny : T) (m n : nat) (A : mat) (ee : list T * mat) (spied_arg : mat)
             (u : mat) (s : list T) (vh : mat) : nat :=
    let r := svd_flow o cj tiny m n A ee in
    let arg_ok := mclose tol (so_sym_arg r) spied_arg in
    (* torch's vectorised sqrt is not always correctly rounded (1 ulp observed): 2^-48, not bit-exact *)
    let s_ok := vclose' 0x1p-48 (so_s r) s in
    let u_ok := mclose tol (so_u r) u in
    let v_ok := mclose tol (so_vh r) vh in
    if arg_ok && s_ok && u_ok && v_ok then 1
    else 100 + (if arg_ok then 0 else 2) + (if s_ok then 0 else 4) + (if u_ok then 0 else 8) + (if v_ok then 0 else 16).
End Run.

(* ---- davidson (real) ---- *)
Definition fabs_ := PrimFloat.abs.
Definition near (rel a b : float) : bool :=           (* |a-b| <= rel * max(|a|,|b|), both finite *)
  let m := fmax (PrimFloat.abs a) (PrimFloat.abs b) in
  PrimFloat.ltb m finf && PrimFloat.leb (PrimFloat.abs (PrimFloat.sub a b)) (PrimFloat.mul rel m).

(* a decision of the loop is THIN when the compared quantities are within 2^-8 relative of each other:
   rounding differences between the BLAS of the implementation and the sequential sums of the model can
   flip it; such runs are counted as skipped, not compared *)
Fixpoint thin_decisions (min_eps best : float) (logs : list (@dav_log float)) : bool :=
  match logs with
  | [] => false
  | l :: r => let mr := lg_maxresid l in
              near 0x1p-8 mr min_eps || near 0x1p-8 mr best ||
              thin_decisions min_eps (if PrimFloat.ltb mr best then mr else best) r
  end.

(* the normalisation of a new direction is ILL-CONDITIONED when a pivot of the Cholesky factor returned for
   [V, -resid] is below 2^-20: the direction is rounding noise (an already converged Ritz vector) and its
   normalised copy differs between two correctly rounded evaluations; such runs are skipped and counted *)
Fixpoint min_pivot (i : nat) (C : list (list float)) (m : float) : float :=
  match C with
  | [] => m
  | r :: rest => let d := PrimFloat.abs (nth i r 0%float) in min_pivot (S i) rest (if PrimFloat.ltb d m then d else m)
  end.
Definition ill_conditioned (tape : list (@dav_tape float)) : bool :=
  existsb (fun tp => PrimFloat.ltb (min_pivot 0 (tp_C tp) 1%float) 0x1p-20) tape.

Definition exit_nat (e : dav_exit) : nat := match e with ExitResid => 1 | ExitFull => 2 | ExitMaxIter => 3 | ExitTape => 4 end.

Fixpoint mats_close (tol : float) (a b : list (list (list float))) : bool :=
  match a, b with
  | [], [] => true
  | x :: r, y :: s => mclose Fops PrimFloat.abs tol x y && mats_close tol r s
  | _, _ => false
  end.

(* 0.. mismatch (100 + bits), 1 agree, 2 skipped (thin decision) *)
Definition dav_code (tol : float) (max_niter : nat) (lowest : bool) (neig : nat) (useM : bool) (A Mx : list (list float))
           (min_eps : float) (Vraw C0 Rinv0 : list (list float)) (tape : list (@dav_tape float))
           (spied_chol0 : list (list float)) (spied_T spied_chol : list (list (list float)))
           (out_e : list float) (out_X : list (list float)) : nat :=
  let '(carg0, r) := davidson Fops (fun x => x) max_niter lowest neig useM A Mx min_eps finf Vraw C0 Rinv0 tape in
  if thin_decisions min_eps finf (dv_logs r) || ill_conditioned (firstn (length (dv_logs r)) tape) then 2 else
  let c0_ok := mclose Fops PrimFloat.abs tol carg0 spied_chol0 in
  let T_ok := mats_close tol (map (@lg_T float) (dv_logs r)) spied_T in
  let ch_ok := mats_close tol (filter (fun m => negb (Nat.eqb (length m) 0)) (map (@lg_chol_arg float) (dv_logs r))) spied_chol in
  let e_ok := vclose' Fops PrimFloat.abs tol (dv_evals r) out_e in
  let x_ok := mclose Fops PrimFloat.abs tol (dv_evecs r) out_X in
  let exit_ok := match dv_exit r with ExitTape => false | _ => true end in
  if c0_ok && T_ok && ch_ok && e_ok && x_ok && exit_ok && dv_has_best r then 1
  else 100 + (if c0_ok then 0 else 1) + (if T_ok then 0 else 2) + (if ch_ok then 0 else 4) + (if e_ok then 0 else 8)
           + (if x_ok then 0 else 16) + (if exit_ok then 0 else 32).
Definition dav_exit_of (max_niter : nat) (lowest : bool) (neig : nat) (useM : bool) (A Mx : list (list float))
           (min_eps : float) (Vraw C0 Rinv0 : list (list float)) (tape : list (@dav_tape float)) : nat :=
  let '(_, r) := davidson Fops (fun x => x) max_niter lowest neig useM A Mx min_eps finf Vraw C0 Rinv0 tape in
  exit_nat (dv_exit r) * 1000 + length (dv_logs r).

Definition cmag (z : cplx) : float := fst (cabs z).

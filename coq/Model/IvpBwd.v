(* Model of xitorch/integrate/solve_ivp.py : _SolveIVP.backward.
   - the augmented dynamics  new_pfunc : (y, dL/dy, dL/dt, dL/dp) |-> (f, vjp_y, vjp_t, vjp_p)  with the
     cotangent  -states[dLdy]  (signs as in the source), for right-hand sides written in the expression
     language over the variables [y_0..y_{ny-1}; t; p_0..p_{np-1}] (symbolic derivative dfexp, proved correct
     in Proofs/ExprDeriv.v);
   - the segment loop: re-seeding with the stored forward values and the incoming cotangent at each requested
     time, the time-gradient terms, assembly of the outputs.  The integration of one segment is an ORACLE:
     the model receives the final augmented state of each nested solve and reports the initial augmented
     state it would have passed. *)
From Coq Require Import List Bool Arith QArith.
Import ListNotations.
From XV Require Import Base.Ops Model.ExplicitRK Model.Quad.

Section IvpBwd.
  Context {T : Type} (o : ops T).

  (* ---- augmented dynamics ---- *)
  Definition aug_field (fs : list fexp) (ny np : nat) (y : list T) (t : T) (p lam : list T)
    : list T * list T * T * list T :=
    let vars := y ++ [t] ++ p in
    let ev := fun e => feval o e (o0 o) vars in
    let cot := map (oopp o) lam in
    let vjp := fun j => vdot o cot (map (fun f => ev (dfexp j f)) fs) in
    (map ev fs, map vjp (seq 0 ny), vjp ny, map vjp (seq (S ny) np)).
  Definition aug_flat (fs : list fexp) (ny np : nat) (y : list T) (t : T) (p lam : list T) : list T :=
    let '(f, vy, vt, vp) := aug_field fs ny np y t p lam in f ++ vy ++ [vt] ++ vp.

  (* ---- segment loop (lists are in FLIPPED time order: index 0 is the last requested time) ---- *)
  Record seg_out := mkSeg { sg_lam : list T; sg_tau : T; sg_p : list T }.
  Record bwd_res := mkRes { br_inputs : list (list T);      (* flattened augmented state handed to each nested solve *)
                            br_y0 : list T; br_ts : list T; br_p : list T }.

  Fixpoint bwd_loop (ts_grad : bool) (ysr gsr fr : list (list T)) (outs : list seg_out)
           (lam : list T) (tau : T) (p : list T) (inputs : list (list T)) (gts : list T) : bwd_res :=
    match outs, ysr, gsr, fr with
    | so :: outs', y :: ysr', g :: ((g1 :: _) as gsr'), f :: fr' =>
        let d := vdot o f g in
        let tau1 := if ts_grad then osub o tau d else tau in
        let gts1 := if ts_grad then d :: gts else gts in
        let input := y ++ lam ++ [tau1] ++ p in
        bwd_loop ts_grad ysr' gsr' fr' outs' (vadd o g1 (sg_lam so)) (sg_tau so) (sg_p so) (inputs ++ [input]) gts1
    | _, _, _, _ => mkRes inputs lam (if ts_grad then tau :: gts else []) p
    end.

  Definition backward (ts_grad : bool) (np : nat) (yt gyt fvals : list (list T)) (outs : list seg_out) : bwd_res :=
    let ysr := rev yt in let gsr := rev gyt in
    bwd_loop ts_grad ysr gsr (rev fvals) outs (hd [] gsr) (o0 o) (repeat (o0 o) np) [] [].
End IvpBwd.

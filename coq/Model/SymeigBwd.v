(* Model of the backward passes of symeig:
   - xitorch/linalg/symeig.py: symeig_torchfcn.backward, _check_degen, _ortho (implicit backward; the shifted
     solve is an ORACLE: the model reports the right-hand side it would pass and consumes the answer);
   - xitorch/_impls/linalg/symeig.py: degen_symeig.backward (dense path).
   Matrices are lists of rows over [ops T] with a conjugation [cj]; the pull-back of a cotangent G through
   Z = P X (P a dense matrix parameter, X constant) is  G X^H  (what autograd returns for MatrixLinearOperator). *)
From Coq Require Import List Bool Arith.
Import ListNotations.
From XV Require Import Base.Ops Base.LinAlg Model.Symeig.

Section Bwd.
  Context {T : Type} (o : ops T) (cj : T -> T).
  Local Notation mat := (list (list T)).

  Definition hadamard (a b : mat) : mat := map (fun p => vmap2 (omul o) (fst p) (snd p)) (combine a b).
  (* einsum("...rc,...rc->...c", A, conj B): column-wise inner products *)
  Definition coldots (a b : mat) : list T :=
    map (fun p => vdot o (fst p) (map cj (snd p))) (combine (transpose o a) (transpose o b)).
  Definition mneg (a : mat) : mat := map (map (oopp o)) a.

  (* _check_degen: idx_degen[i][j] = |e_j - e_i| < atol + rtol |e_i| ; degenerate iff more than neig ones *)
  Definition check_degen (atol rtol : T) (evals : list T) : mat * bool :=
    let idx := map (fun ei => map (fun ej =>
                  if oltb o (oabs o (osub o ej ei)) (oadd o atol (omul o rtol (oabs o ei))) then o1 o else o0 o) evals) evals in
    let ones := fold_left (fun c r => fold_left (fun c' x => if oeqb o x (o1 o) then S c' else c') r c) idx 0 in
    (idx, Nat.ltb (length evals) ones).

  (* _ortho(A, B, D, M, mright) *)
  Definition ortho (D : option mat) (useM mright : bool) (M A B : mat) : mat :=
    match D with
    | None =>
        if negb useM then msub o A (scale_cols o (coldots A B) B)
        else if mright then msub o A (scale_cols o (coldots (mmul o M A) B) B)
        else msub o A (mmul o M (scale_cols o (coldots A B) B))
    | Some Dm =>
        let BH := mH o cj B in
        if negb useM then msub o A (mmul o B (hadamard Dm (mmul o BH A)))
        else if mright then msub o A (mmul o B (hadamard Dm (mmul o BH (mmul o M A))))
        else msub o A (mmul o M (mmul o B (hadamard Dm (mmul o BH A))))
    end.

  (* first half: degeneracy map and the right-hand side handed to solve (the code passes -B) *)
  Definition bwd_rhs (atol rtol : T) (use_degen useM : bool) (M : mat) (evals : list T) (evecs gevecs_in : mat)
    : option mat * mat :=
    let Dm := if use_degen then let '(idx, isdeg) := check_degen atol rtol evals in if isdeg then Some idx else None
              else None in
    (Dm, mneg (ortho Dm useM false M gevecs_in evecs)).

  (* second half: from the answer of solve to the two accumulated cotangents and the dense pull-backs *)
  Record bwd_out := mkBwd { bo_gA : mat; bo_gM : mat }.
  Definition bwd_finish (half : T) (Dm : option mat) (useM : bool) (M : mat) (evals : list T) (evecs : mat)
             (g_evals : list T) (g_evecs solved : mat) : bwd_out :=
    let gevalsA := scale_cols o g_evals evecs in
    let gevecsA := ortho Dm useM true M solved evecs in     (* D = idx_degen since fix F28 *)
    let gaccumA := madd o gevalsA gevecsA in
    let XH := mH o cj evecs in
    let gA := mmul o gaccumA XH in
    if useM then
      let gevalsM := scale_cols o evals (mneg gevalsA) in
      let gevecsM := scale_cols o evals (mneg gevecsA) in
      let par := match Dm with
                 | None => scale_cols o (map (fun x => omul o (oopp o half) x) (coldots g_evecs evecs)) evecs
                 | Some D => map (map (omul o (oopp o half))) (mmul o evecs (hadamard D (mmul o XH g_evecs)))
                 end in
      mkBwd gA (mmul o (madd o (madd o gevalsM gevecsM) par) XH)
    else mkBwd gA [].

  (* ---- dense path: degen_symeig.backward ---- *)
  Definition degen_bwd (thr half : T) (eival : list T) (eivec : mat) (g_eival : list T) (g_eivec : mat) : mat :=
    let eivect := mH o cj eivec in
    (* F[i][j] = e_j - e_i, entries with |F| <= thr replaced by inf, then 1/F (1/inf = 0) *)
    let Finv := map (fun ei => map (fun ej =>
                   let f := osub o ej ei in
                   if oleb o (oabs o f) thr then o0 o else odiv o (o1 o) f) eival) eival in
    let r1 := mmul o eivec (mmul o (hadamard Finv (mmul o eivect g_eivec)) eivect) in
    let r2 := mmul o eivec (map (fun p => vscale o (fst p) (snd p)) (combine g_eival eivect)) in
    let r := madd o r1 r2 in
    map (map (omul o half)) (madd o r (mH o cj r)).
End Bwd.

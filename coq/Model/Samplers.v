(* Model of xitorch/_impls/integrate/mcsamples/mcmc.py (mh, mhcustom) with the random streams as
   explicit inputs, and of _integrate in xitorch/integrate/mcquad.py.  State = one scalar. *)
From Coq Require Import List Bool Arith ZArith.
Import ListNotations.
From XV Require Import Base.Ops.

Section Samplers.
  Context {T : Type} (o : ops T).
  Variable logp : T -> T.

  (* _mh_sample: [noise] = the randn_like draws, [logu] = log(rand) entries, one per step.
     Returns the visited chain states after each step (collected or not) and the final state. *)
  Fixpoint mh_chain (x logpx : T) (step : T) (noise logu : list T) : list T * T :=
    match noise, logu with
    | z :: nr, lu :: lr =>
        let xnext := oadd o x (omul o step z) in
        let logpnext := logp xnext in
        let ratio := osub o logpnext logpx in
        let accept := if oltb o (o0 o) ratio then true else oltb o lu ratio in
        let x' := if accept then xnext else x in
        let lp' := if accept then logpnext else logpx in
        let '(rest, last) := mh_chain x' lp' step nr lr in
        (x' :: rest, last)
    | _, _ => ([], x)
    end.

  (* mh: nburnout steps from x0 (nothing collected), then nsamples steps, each collected *)
  Definition mh (x0 step : T) (nburnout nsamples : nat) (noise logu : list T) : list T * list T :=
    let '(_, xb) := mh_chain x0 (logp x0) step (firstn nburnout noise) (firstn nburnout logu) in
    let '(samples, _) := mh_chain xb (logp xb) step
                                  (firstn nsamples (skipn nburnout noise))
                                  (firstn nsamples (skipn nburnout logu)) in
    (samples, map (fun _ => odiv o (o1 o) (ofZ o (Z.of_nat (length samples)))) samples).

  (* _mhcustom_sample *)
  Variable custom_step : T -> T.
  Fixpoint iter (n : nat) (x : T) : T := match n with O => x | S m => iter m (custom_step x) end.
  Fixpoint collect (n : nat) (x : T) : list T :=       (* samples[0] = x; then n-1 steps *)
    match n with O => [] | S m => x :: collect m (custom_step x) end.

  (* mhcustom (after fix F4): burn-in performs nburnout-1 steps from x0 (range(1, nburnout)), the
     collected chain starts at the burned-in state and has nsamples entries *)
  Definition mhcustom (x0 : T) (nburnout nsamples : nat) : list T * list T :=
    let xb := iter (pred nburnout) x0 in
    let samples := collect nsamples xb in
    (samples, map (fun _ => odiv o (o1 o) (ofZ o (Z.of_nat (length samples)))) samples).

  (* _integrate: res = 0.0; for x, w in zip(xs, ws): res = res + f(x) * w *)
  Variable f : T -> T.
  Fixpoint integrate_from (acc : T) (xs ws : list T) : T :=
    match xs, ws with
    | x :: xr, w :: wr => integrate_from (oadd o acc (omul o (f x) w)) xr wr
    | _, _ => acc
    end.
  Definition integrate (xs ws : list T) : T := integrate_from (o0 o) xs ws.
End Samplers.

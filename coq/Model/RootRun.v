(* float-instance drivers for the C03 correspondence *)
From Coq Require Import List Bool Arith ZArith PrimFloat QArith.
Import ListNotations.
From XV Require Import Base.Ops Base.LinAlg Model.ExplicitRK Model.RootLoop Model.RKRun.

Definition ffield (es : list fexp) (x : list float) : list float := field Fops es 0%float x.

Definition relgap (a b : float) : float :=
  let m := fmin (PrimFloat.abs a) (PrimFloat.abs b) in
  if PrimFloat.eqb a b then 1%float
  else PrimFloat.div (PrimFloat.abs (PrimFloat.sub a b))
                     (PrimFloat.add (PrimFloat.add (PrimFloat.abs a) (PrimFloat.abs b)) 0x1p-1000).

(* smallest relative distance of the decisions of one `check` from their thresholds *)
Definition check_margin (f_tol f_rtol x_tol x_rtol f0 : float) (x y dx : list float) : float :=
  let xn := vnorm Fops x in let yn := vnorm Fops y in let dn := vnorm Fops dx in
  fmin (fmin (relgap dn x_tol) (relgap yn f_tol))
       (fmin (if PrimFloat.ltb x_rtol infinity then relgap dn (PrimFloat.mul x_rtol xn) else 1%float)
             (if PrimFloat.ltb f_rtol infinity then relgap yn (PrimFloat.mul f_rtol f0) else 1%float)).

(* which jacobian: 0 = linearmixing(alpha), 1 = broyden1, 2 = broyden2 *)
Definition run_nonlin (kind : nat) (alpha : float) (es : list fexp) (maxiter : nat)
           (f_tol f_rtol x_tol x_rtol : float) (x0 : list float) :=
  let func := ffield es in
  let f0 := vnorm Fops (func x0) in
  match kind with
  | O => nonlin_solver Fops func (fun (_ : unit) v => lm_solve Fops alpha v) (fun j _ _ => j)
                       f_tol f_rtol x_tol x_rtol f0 maxiter x0 (fun _ _ => tt)
  | S k =>
      let first := Nat.eqb k 0 in
      nonlin_solver Fops func (broyden_solve Fops) (broyden_update Fops first)
                    f_tol f_rtol x_tol x_rtol f0 maxiter x0 (broyden_setup Fops)
  end.

(* result code: 0 mismatch, 1 agree, 2 skipped (thin margin), 3 model reports ZeroStep *)
Definition nonlin_code (kind : nat) (alpha : float) (es : list fexp) (maxiter : nat)
           (f_tol f_rtol x_tol x_rtol : float) (x0 : list float)
           (warned : bool) (result : list float) (evals : list (list float)) : nat :=
  let func := ffield es in
  let f0 := vnorm Fops (func x0) in
  let '(out, vs) := run_nonlin kind alpha es maxiter f_tol f_rtol x_tol x_rtol x0 in
  (* thin: a stopping decision within 2^-20 of its threshold, or an iterate that is a root up to rounding
     (the exact-zero tests `dx_norm == 0`, `y_norm == 0` then depend on the last bit) *)
  let thin := existsb (fun v => PrimFloat.ltb (check_margin f_tol f_rtol x_tol x_rtol f0 (v_x v) (func (v_x v)) (v_dx v)) 0x1p-20
                               || PrimFloat.ltb (v_ynorm v) (PrimFloat.mul 0x1p-36 (PrimFloat.add 1 (vnorm Fops (v_x v))))) vs in
  (* sensitivity: quasi-Newton recurrences amplify rounding differences; compare only runs that the model
     itself reproduces (same outcome kind, same number of evaluations, points within 2^-26) when the
     initial guess moves by one part in 2^40 *)
  (* the best-iterate book-keeping compares residual norms with `<`: near-ties depend on the last bit *)
  let best_tie := fst (fold_left (fun (acc : bool * float) v =>
                    let '(tie, best) := acc in
                    (tie || PrimFloat.ltb (relgap (v_ynorm v) best) 0x1p-20 || PrimFloat.eqb (v_ynorm v) best,
                     if PrimFloat.ltb (v_ynorm v) best then v_ynorm v else best)) vs (false, f0)) in
  let thin := thin || best_tie in
  let x0p := map (fun v => PrimFloat.mul v 0x1.0000000001p+0) x0 in
  let '(outp, vsp) := run_nonlin kind alpha es maxiter f_tol f_rtol x_tol x_rtol x0p in
  let kind_of := fun (r : outcome (T := float)) => match r with Converged _ => 0%nat | Exhausted _ => 1%nat | ZeroStep => 2%nat end in
  let insensitive := Nat.eqb (kind_of out) (kind_of outp) && Nat.eqb (length vs) (length vsp) &&
                     traj_close 0x1p-26 0x1p-36 (map (fun v => v_x v) vs) (map (fun v => v_x v) vsp) in
  if thin || negb insensitive then 2%nat
  else
    let pts := x0 :: map (fun v => v_x v) vs in
    let same_pts := traj_close 0x1p-22 0x1p-32 pts evals in
    match out with
    | ZeroStep => 3%nat
    | Converged r => if negb warned && vclose 0x1p-22 0x1p-32 r result && same_pts then 1%nat else 0%nat
    | Exhausted b => if warned && vclose 0x1p-22 0x1p-32 b result && same_pts then 1%nat else 0%nat
    end.

(* gd on f = sum_i e_i(x)^2 / 2 ... the objective and gradient are given as expressions *)
Definition gd_code (fe : fexp) (ge : list fexp) (maxiter : nat)
           (step gamma f_tol f_rtol x_tol x_rtol : float) (x0 : list float)
           (warned : bool) (result : list float) (evals : list (list float)) : nat :=
  let fg := fun x => (feval Fops fe 0%float x, ffield ge x) in
  let '(r, w, calls) := gd Fops fg step gamma f_tol f_rtol x_tol x_rtol maxiter x0 in
  if Bool.eqb w warned && vclose 0x1p-30 0x1p-40 r result && traj_close 0x1p-30 0x1p-40 calls evals
  then 1%nat else 0%nat.

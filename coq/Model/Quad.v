(* Model of xitorch/_impls/integrate/fixed_quad.py (leggauss) and of the infinite-limit transform of
   xitorch/integrate/quad.py.  The Gauss-Legendre reference table (numpy.polynomial.legendre.leggauss)
   is an input of the model. *)
From Coq Require Import List Bool QArith.
Import ListNotations.
From XV Require Import Base.Ops Model.ExplicitRK.

Section Quad.
  Context {T : Type} (o : ops T).

  Definition half : T := odiv o (o1 o) (ofZ o 2).            (* the literal 0.5 *)

  (* wlg *= 0.5 * (xu - xl);  xs = xlg * (0.5 * (xu - xl)) + (0.5 * (xu + xl)) *)
  Definition map_weights (wlg : list T) (xl xu : T) : list T :=
    map (fun w => omul o w (omul o half (osub o xu xl))) wlg.
  Definition map_nodes (xlg : list T) (xl xu : T) : list T :=
    map (fun x => oadd o (omul o x (omul o half (osub o xu xl))) (omul o half (oadd o xu xl))) xlg.

  (* res = wlg[0] * fcn(xs[0]); for i in 1..n-1: res += wlg[i] * fcn(xs[i]) *)
  Fixpoint accumulate (f : T -> T) (acc : T) (xs ws : list T) : T :=
    match xs, ws with
    | x :: xr, w :: wr => accumulate f (oadd o acc (omul o w (f x))) xr wr
    | _, _ => acc
    end.
  Definition leggauss (f : T -> T) (xlg wlg : list T) (xl xu : T) : T :=
    let xs := map_nodes xlg xl xu in
    let ws := map_weights wlg xl xu in
    match xs, ws with
    | x :: xr, w :: wr => accumulate f (omul o w (f x)) xr wr
    | _, _ => o0 o
    end.

  (* infinite limits: fcn2(t) = fcn(tan t) * (1/cos t)^2 on [atan xl, atan xu];
     [tans]/[coss] are torch.tan / torch.cos of the nodes (oracle values) *)
  Definition leggauss_inf (f : T -> T) (xlg wlg : list T) (tl tu : T) (tans coss : list T) : T :=
    let ws := map_weights wlg tl tu in
    let vals := map (fun p => let sec := odiv o (o1 o) (snd p) in omul o (f (fst p)) (omul o sec sec))
                    (combine tans coss) in
    match vals, ws with
    | v :: vr, w :: wr =>
        (fix acc (a : T) (vs ws : list T) : T :=
           match vs, ws with
           | v :: vr, w :: wr => acc (oadd o a (omul o w v)) vr wr
           | _, _ => a
           end) (omul o w v) vr wr
    | _, _ => o0 o
    end.
End Quad.

(* ---- symbolic derivative of the expression language (used for the gradient models) ---- *)
Fixpoint dfexp (j : nat) (e : fexp) : fexp :=      (* d e / d y_j *)
  match e with
  | FT => FC 0
  | FY i => if Nat.eqb i j then FC 1 else FC 0
  | FC _ => FC 0
  | FAdd a b => FAdd (dfexp j a) (dfexp j b)
  | FSub a b => FSub (dfexp j a) (dfexp j b)
  | FMul a b => FAdd (FMul (dfexp j a) b) (FMul a (dfexp j b))
  end.

(* Model of TorchNNPureFunction._set_all_obj_params on one torch.nn.Module:
   for (name, param) in zip(names, objparams): del_attr(obj, name); set_attr(obj, name, param)
   where torch.nn.Module.__setattr__ registers a Parameter in the ordered dict _parameters
   (appending a new key at the end) and stores any other tensor as a plain attribute. *)
From Coq Require Import List Bool Arith.
Import ListNotations.

Record value := mkV { vid : nat; is_parameter : bool }.
Record modstate := mkM { params : list (nat * value);      (* _parameters, insertion order; key = name *)
                         plain : list (nat * value) }.     (* plain tensor attributes (__dict__) *)

Fixpoint remove_key (k : nat) (l : list (nat * value)) : list (nat * value) :=
  match l with
  | [] => []
  | (k', v) :: r => if Nat.eqb k k' then remove_key k r else (k', v) :: remove_key k r
  end.
Fixpoint has_key (k : nat) (l : list (nat * value)) : bool :=
  match l with [] => false | (k', _) :: r => Nat.eqb k k' || has_key k r end.
Fixpoint replace_key (k : nat) (v : value) (l : list (nat * value)) : list (nat * value) :=
  match l with
  | [] => []
  | (k', v') :: r => if Nat.eqb k k' then (k, v) :: r else (k', v') :: replace_key k v r
  end.

Definition del_attr (m : modstate) (k : nat) : modstate :=
  if has_key k (params m) then mkM (remove_key k (params m)) (plain m)
  else mkM (params m) (remove_key k (plain m)).

Definition set_attr (m : modstate) (k : nat) (v : value) : modstate :=
  if is_parameter v then
    (* register_parameter: removes a plain attribute of that name, keeps position of an existing key *)
    mkM (if has_key k (params m) then replace_key k v (params m) else params m ++ [(k, v)])
        (remove_key k (plain m))
  else
    if has_key k (params m)
    then m      (* assigning a non-Parameter tensor to a registered parameter raises TypeError: not reached after del *)
    else mkM (params m) (if has_key k (plain m) then replace_key k v (plain m) else plain m ++ [(k, v)]).

Fixpoint set_all (m : modstate) (kvs : list (nat * value)) : modstate :=
  match kvs with
  | [] => m
  | (k, v) :: r => set_all (set_attr (del_attr m k) k v) r
  end.

(* Model of LinearOperator.__new__ (xitorch/_core/linop.py L36-58, after fixes F9/F9b):
   the capability flags of a class are computed at its first instantiation from what the class
   (through its MRO) defines, cached in the class's OWN dictionary, and a class without _mv is
   rejected at every instantiation. *)
From Coq Require Import List Bool Arith.
Import ListNotations.

Inductive meth := Mv | Mm | Rmv | Rmm | Full | Gpn.
Definition meth_eqb (a b : meth) : bool :=
  match a, b with
  | Mv, Mv | Mm, Mm | Rmv, Rmv | Rmm, Rmm | Full, Full | Gpn, Gpn => true
  | _, _ => false
  end.
Definition all_meths := [Mv; Mm; Rmv; Rmm; Full; Gpn].

(* a user class: its parent (None = LinearOperator itself) and the optional methods its body defines *)
Record cls := mkCls { parent : option nat; defs : list meth }.
Definition table := list cls.

(* getattr(cls, m) is not getattr(LinearOperator, m): some class on the MRO below the base defines m *)
Fixpoint resolves (fuel : nat) (tb : table) (c : nat) (m : meth) : bool :=
  match fuel with
  | O => false
  | S f => match nth_error tb c with
           | None => false
           | Some k => existsb (meth_eqb m) (defs k) ||
                       match parent k with Some p => resolves f tb p m | None => false end
           end
  end.

Definition flags := list bool.     (* in the order of all_meths *)
Definition spec_flags (tb : table) (c : nat) : flags := map (resolves (S (length tb)) tb c) all_meths.

(* who is instantiated: a user class or LinearOperator itself *)
Inductive target := User (c : nat) | Base.

Record state := mkSt { cache : list (option flags); base_cache : option flags }.
Definition init_state (tb : table) : state := mkSt (map (fun _ => None) tb) None.

Fixpoint set_nth {A} (n : nat) (x : A) (l : list A) : list A :=
  match n, l with
  | O, _ :: r => x :: r
  | S k, y :: r => y :: set_nth k x r
  | _, [] => []
  end.

Inductive outcome := Ok (f : flags) | ErrNoMv.

Definition instantiate (tb : table) (t : target) (st : state) : outcome * state :=
  match t with
  | Base =>
      let fl := match base_cache st with Some f => f | None => map (fun _ => false) all_meths end in
      (ErrNoMv, mkSt (cache st) (Some fl))
  | User c =>
      let fl := match nth c (cache st) None with
                | Some f => f
                | None => spec_flags tb c
                end in
      let st' := mkSt (set_nth c (Some fl) (cache st)) (base_cache st) in
      (if hd false fl then Ok fl else ErrNoMv, st')
  end.

Fixpoint run (tb : table) (h : list target) (st : state) : list outcome * state :=
  match h with
  | [] => ([], st)
  | t :: r => let '(o, st1) := instantiate tb t st in
              let '(os, st2) := run tb r st1 in (o :: os, st2)
  end.

Definition flags_eqb (a b : flags) : bool :=
  Nat.eqb (length a) (length b) && forallb (fun p => Bool.eqb (fst p) (snd p)) (combine a b).
Definition outcome_eqb (a b : outcome) : bool :=
  match a, b with Ok f, Ok g => flags_eqb f g | ErrNoMv, ErrNoMv => true | _, _ => false end.
Fixpoint outcomes_eqb (a b : list outcome) : bool :=
  match a, b with
  | [], [] => true
  | x :: r, y :: s => outcome_eqb x y && outcomes_eqb r s
  | _, _ => false
  end.

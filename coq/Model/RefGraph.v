(* Reference-count reclamation on a finite reference graph (C19).
   Nodes are natural numbers; [g] lists every node with the nodes it holds strong references to; [roots] are the
   nodes referenced from outside (variables of the caller).  CPython frees an object as soon as nothing references
   it, and freeing it drops its own references: the survivors are what remains after sweeping "unreferenced"
   nodes until nothing changes (|g| sweeps suffice).  No cyclic collector. *)
From Coq Require Import List Bool Arith.
Import ListNotations.

Definition graph := list (nat * list nat).

Definition succs (g : graph) (u : nat) : list nat :=
  match find (fun p => Nat.eqb (fst p) u) g with Some p => snd p | None => [] end.
Definition mem (v : nat) (l : list nat) : bool := existsb (Nat.eqb v) l.
Definition referenced (g : graph) (roots live : list nat) (v : nat) : bool :=
  mem v roots || existsb (fun u => mem v (succs g u)) live.
Definition sweep (g : graph) (roots live : list nat) : list nat := filter (referenced g roots live) live.
Fixpoint reclaim (fuel : nat) (g : graph) (roots live : list nat) : list nat :=
  match fuel with O => live | S f => reclaim f g roots (sweep g roots live) end.
Definition survivors (g : graph) (roots : list nat) : list nat := reclaim (length g) g roots (map fst g).

(* certificate of acyclicity: a rank that increases along every reference *)
Definition rank_ok (g : graph) (rank : nat -> nat) : bool :=
  forallb (fun p => forallb (fun v => Nat.ltb (rank (fst p)) (rank v)) (snd p)) g.

(* driver for the C19 correspondence: 0 the model's survivors differ from the objects that really survived;
   1 nothing survives and the rank certificate checks; 2 model and interpreter agree that something survives
   (the property fails on this object graph); 3 nothing survives but the supplied rank is not a certificate *)
From Coq Require Import List Bool Arith.
Import ListNotations.
From XV Require Import Model.RefGraph.

Fixpoint list_eqb (a b : list nat) : bool :=
  match a, b with
  | [], [] => true
  | x :: r, y :: s => Nat.eqb x y && list_eqb r s
  | _, _ => false
  end.

Definition graph_code (g : graph) (ranks : list nat) (observable actual : list nat) : nat :=
  let s := filter (fun v => mem v observable) (survivors g []) in
  if negb (list_eqb s actual) then 0
  else match survivors g [] with
       | [] => if rank_ok g (fun v => nth v ranks 0) then 1 else 3
       | _ => 2
       end.

(* float-instance drivers for the C12 / C13 correspondence *)
From Coq Require Import List Bool QArith PrimFloat.
Import ListNotations.
From XV Require Import Base.Ops Model.ExplicitRK Model.Quad.

Definition qf (fx : fexp) (th : list float) (x : float) : float := feval Fops fx x th.

Definition quad_val (fx : fexp) (th xlg wlg : list float) (xl xu : float) : float :=
  leggauss Fops (qf fx th) xlg wlg xl xu.
Definition quad_nodes (xlg : list float) (xl xu : float) : list float := map_nodes Fops xlg xl xu.
Definition quad_grad (j : nat) (fx : fexp) (th xlg wlg : list float) (xl xu : float) : float :=
  leggauss Fops (qf (dfexp j fx) th) xlg wlg xl xu.
Definition quad_grad2 (j k : nat) (fx : fexp) (th xlg wlg : list float) (xl xu : float) : float :=
  leggauss Fops (qf (dfexp k (dfexp j fx)) th) xlg wlg xl xu.

Definition quad_ok (fx : fexp) (th xlg wlg : list float) (xl xu : float) (pts : list float) (val : float) : bool :=
  vbits_eq (quad_nodes xlg xl xu) pts && PrimFloat.eqb (quad_val fx th xlg wlg xl xu) val.

Definition quad_inf_ok (fx : fexp) (th xlg wlg : list float) (tl tu : float) (tans coss : list float)
           (tpts : list float) (val : float) : bool :=
  vbits_eq (quad_nodes xlg tl tu) tpts &&
  PrimFloat.eqb (leggauss_inf Fops (qf fx th) xlg wlg tl tu tans coss) val.

Definition quad_grads_ok (fx : fexp) (th xlg wlg : list float) (xl xu : float)
           (g1 : list float) (gxl gxu : float) (g2 : list (list float)) (rt at_ : float) : bool :=
  let n := length th in
  vclose rt at_ (map (fun j => quad_grad j fx th xlg wlg xl xu) (seq 0 n)) g1 &&
  fclose rt at_ (PrimFloat.opp (qf fx th xl)) gxl && fclose rt at_ (qf fx th xu) gxu &&
  (fix rows (js : list nat) (g2 : list (list float)) : bool :=
     match js, g2 with
     | j :: jr, row :: rr =>
         vclose rt at_ (map (fun k => quad_grad2 j k fx th xlg wlg xl xu) (seq 0 n)) row && rows jr rr
     | [], [] => true
     | _, _ => false
     end) (seq 0 n) g2.

(* Model of xitorch/_utils/misc.py TensorNonTensorSeparator: params are split into the differentiable
   tensors and the rest, and put back by their recorded indices. *)
From Coq Require Import List Bool Arith.
Import ListNotations.

Section Sep.
  Variable A : Type.
  Variable is_tensor : A -> bool.       (* isinstance(p, Tensor) and (not varonly or p.requires_grad) *)

  Fixpoint idxs_where (b : bool) (i : nat) (ps : list A) : list nat :=
    match ps with
    | [] => []
    | p :: r => if Bool.eqb (is_tensor p) b then i :: idxs_where b (S i) r else idxs_where b (S i) r
    end.
  Definition tensor_idxs (ps : list A) := idxs_where true 0 ps.
  Definition nontensor_idxs (ps : list A) := idxs_where false 0 ps.
  Definition tensor_params (ps : list A) := filter is_tensor ps.
  Definition nontensor_params (ps : list A) := filter (fun p => negb (is_tensor p)) ps.

  Fixpoint set_nth (n : nat) (x : option A) (l : list (option A)) : list (option A) :=
    match n, l with
    | O, _ :: r => x :: r
    | S k, y :: r => y :: set_nth k x r
    | _, [] => []
    end.
  Definition assign (idxs : list nat) (vals : list A) (l : list (option A)) : list (option A) :=
    fold_left (fun acc iv => set_nth (fst iv) (Some (snd iv)) acc) (combine idxs vals) l.

  (* reconstruct_params(tensor_params, nontensor_params): ValueError when the lengths do not add up *)
  Definition reconstruct (nparams : nat) (tidx nidx : list nat) (ts ns : list A) : option (list (option A)) :=
    if Nat.eqb (length ts + length ns) nparams
    then Some (assign tidx ts (assign nidx ns (repeat None nparams)))
    else None.
End Sep.

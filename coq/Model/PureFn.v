(* Model of xitorch/_core/pure_function.py (PureFunction.set_objparams / restore_objparams /
   useobjparams / disable_state_change), of the parameter de-duplication of
   xitorch/_utils/unique.py (Uniquifier) and of xitorch/debug/modes.py (enable/disable_debug),
   together with a language of well-bracketed programs with crash points.
   Tensors are represented by their identities (nat). *)
From Coq Require Import List Bool Arith.
Import ListNotations.
From XV Require Import Model.Packer.    (* uniq_go / select: the same first-occurrence de-duplication *)

(* ---- Uniquifier ---- *)
Definition uniq_ids (all : list nat) : list nat * list nat := uniq_go all 0 [] 0.
Definition unique_objs (all : list nat) : list nat := select 0 all (fst (uniq_ids all)).
Definition map_unique (inv : list nat) (us : list nat) : list nat := select 0 us inv.

Fixpoint prefix_identical (a b : list nat) : bool :=      (* _check_identical_objs: zip stops at the shorter *)
  match a, b with
  | x :: r, y :: s => Nat.eqb x y && prefix_identical r s
  | _, _ => true
  end.

(* ---- a wrapper over one (possibly composite) object ---- *)
Record state := mkS {
  store : list nat;                    (* identities held by the object's parameter slots, in name order *)
  inv : list nat;                      (* Uniquifier.nonunique_map_idxs, fixed at construction *)
  nuniq : nat;                         (* Uniquifier.num_unique *)
  cur : list nat;                      (* _cur_objparams *)
  stack : list (list nat * bool);      (* _restore_stack, top first *)
  allowed : bool;                      (* _state_change_allowed *)
  dbg : bool                           (* the global debug flag *)
}.

Definition wrap (all : list nat) (d : bool) : state :=
  mkS all (snd (uniq_ids all)) (length (fst (uniq_ids all))) (unique_objs all) [] true d.

(* set_objparams; the bool says whether it raised (assert_runtime in map_unique_objs) *)
Definition set_obj (s : state) (new : list nat) : state * bool :=
  let ident := prefix_identical new (cur s) in
  let stk := (cur s, ident) :: stack s in
  if ident then (mkS (store s) (inv s) (nuniq s) (cur s) stk (allowed s) (dbg s), false)
  else if Nat.eqb (length new) (nuniq s)
       then (mkS (map_unique (inv s) new) (inv s) (nuniq s) new stk (allowed s) (dbg s), false)
       else (mkS (store s) (inv s) (nuniq s) (cur s) stk (allowed s) (dbg s), true).

Definition restore_obj (s : state) : state :=
  match stack s with
  | (old, ident) :: r =>
      if ident then mkS (store s) (inv s) (nuniq s) (cur s) r (allowed s) (dbg s)
      else mkS (map_unique (inv s) old) (inv s) (nuniq s) old r (allowed s) (dbg s)
  | [] => s
  end.

(* ---- programs ---- *)
Inductive prog :=
| PCall                                  (* one evaluation of user code; may raise *)
| PUse (new : list nat) (body : prog)    (* with pf.useobjparams(new): body *)
| PDisable (body : prog)                 (* with pf.disable_state_change(): body *)
| PDebug (on : bool) (body : prog)       (* with enable_debug() / disable_debug(): body *)
| PSeq (a b : prog).

(* what a call observes *)
Record obs := mkO { o_store : list nat; o_dbg : bool }.

Record res := mkR { r_state : state; r_count : nat; r_raised : bool; r_trace : list obs }.

(* [crash] = index of the call that raises (None: no crash); [n] = calls made so far *)
Fixpoint exec (p : prog) (crash : option nat) (s : state) (n : nat) : res :=
  match p with
  | PCall =>
      let o := mkO (store s) (dbg s) in
      let boom := match crash with Some k => Nat.eqb k n | None => false end in
      mkR s (S n) boom [o]
  | PSeq a b =>
      let ra := exec a crash s n in
      if r_raised ra then ra
      else let rb := exec b crash (r_state ra) (r_count ra) in
           mkR (r_state rb) (r_count rb) (r_raised rb) (r_trace ra ++ r_trace rb)
  | PUse new body =>
      if negb (allowed s) then mkR s n true []          (* raises before the try block *)
      else
        let '(s1, raised_in_set) := set_obj s new in
        if raised_in_set then mkR (restore_obj s1) n true []           (* finally: restore *)
        else let rb := exec body crash s1 n in
             mkR (restore_obj (r_state rb)) (r_count rb) (r_raised rb) (r_trace rb)
  | PDisable body =>
      let prev := allowed s in
      let s1 := mkS (store s) (inv s) (nuniq s) (cur s) (stack s) false (dbg s) in
      let rb := exec body crash s1 n in
      let s2 := r_state rb in
      mkR (mkS (store s2) (inv s2) (nuniq s2) (cur s2) (stack s2) prev (dbg s2))
          (r_count rb) (r_raised rb) (r_trace rb)
  | PDebug on body =>
      let prev := dbg s in
      let s1 := mkS (store s) (inv s) (nuniq s) (cur s) (stack s) (allowed s) on in
      let rb := exec body crash s1 n in
      let s2 := r_state rb in
      mkR (mkS (store s2) (inv s2) (nuniq s2) (cur s2) (stack s2) (allowed s2) prev)
          (r_count rb) (r_raised rb) (r_trace rb)
  end.

(* ---- MultiSiblingPureFunction: concatenation and split by cumulative lengths ---- *)
Fixpoint split_by (lens : list nat) (all : list nat) : list (list nat) :=
  match lens with
  | [] => []
  | n :: r => firstn n all :: split_by r (skipn n all)
  end.

(* ---- equality tests for the correspondence ---- *)
Fixpoint nats_eqb (a b : list nat) : bool :=
  match a, b with
  | [], [] => true
  | x :: r, y :: s => Nat.eqb x y && nats_eqb r s
  | _, _ => false
  end.
Definition obs_eqb (a b : obs) : bool := nats_eqb (o_store a) (o_store b) && Bool.eqb (o_dbg a) (o_dbg b).
Fixpoint trace_eqb (a b : list obs) : bool :=
  match a, b with
  | [], [] => true
  | x :: r, y :: s => obs_eqb x y && trace_eqb r s
  | _, _ => false
  end.
(* one case of the correspondence: final store, final cur, stack depth, flags, raised, trace *)
Definition case_ok (all : list nat) (d0 : bool) (p : prog) (crash : option nat)
           (fstore fcur : list nat) (fdepth : nat) (fallowed fdbg fraised : bool) (tr : list obs) : bool :=
  let r := exec p crash (wrap all d0) 0 in
  let s := r_state r in
  nats_eqb (store s) fstore && nats_eqb (cur s) fcur && Nat.eqb (length (stack s)) fdepth &&
  Bool.eqb (allowed s) fallowed && Bool.eqb (dbg s) fdbg && Bool.eqb (r_raised r) fraised &&
  trace_eqb (r_trace r) tr.

(* Model of xitorch/_impls/linalg/symeig.py (exacteig, _take_eigpairs, davidson, _set_initial_v),
   xitorch/_utils/tensor.py (tallqr) and the data flow of xitorch/linalg/symeig.py: svd().
   Matrices are lists of rows over an arithmetic carrier [ops T] with a conjugation [cj] (identity for the
   real instance).  LAPACK calls (eigh, cholesky, inverse) are ORACLES: the model receives their answers on
   a tape, in call order, and reports the arguments it would have passed, so that the correspondence check
   compares both directions (arguments computed by the model vs. arguments seen by the real call; results
   computed by the model from the real answers vs. results returned by the implementation). *)
From Coq Require Import List Bool Arith.
Import ListNotations.
From XV Require Import Base.Ops Base.LinAlg.

(* python slicing of the last axis:  l[:neig]  /  l[-neig:]  (with -0 == 0: the whole list) *)
Definition take {X : Type} (lowest : bool) (neig : nat) (l : list X) : list X :=
  if lowest then firstn neig l
  else if Nat.eqb neig 0 then l else skipn (length l - neig) l.

Section Symeig.
  Context {T : Type} (o : ops T) (cj : T -> T).
  Local Notation mat := (@mat T).

  Definition mconj (a : mat) : mat := map (map cj) a.
  Definition mT (a : mat) : mat := transpose o a.
  Definition mH (a : mat) : mat := mconj (mT a).
  Definition take_cols (lowest : bool) (neig : nat) (a : mat) : mat := map (take lowest neig) a.
  Definition ncols (a : mat) : nat := match a with [] => 0 | r :: _ => length r end.
  Definition hcat (a b : mat) : mat := map (fun p => fst p ++ snd p) (combine a b).
  Definition last_cols (k : nat) (a : mat) : mat := map (fun r => skipn (length r - k) r) a.
  Definition first_cols (k : nat) (a : mat) : mat := map (firstn k) a.
  (* multiply / divide column j by d_j  (broadcast of a (1, k) row against (n, k)) *)
  Definition scale_cols (d : list T) (a : mat) : mat := map (fun r => vmap2 (omul o) d r) a.
  Definition div_cols (d : list T) (a : mat) : mat := map (fun r => vmap2 (fun x y => odiv o y x) d r) a.
  Definition omax2 (a b : T) : T := if oltb o a b then b else a.
  Definition mmaxabs (a : mat) : T :=
    fold_left (fun m r => fold_left (fun m' x => omax2 m' (oabs o x)) r m) a (o0 o).

  (* ---------------- exacteig ---------------- *)
  Record eig_out := mkEig { eo_eigh_arg : mat; eo_evals : list T; eo_evecs : mat }.

  Definition take_eigpairs (lowest : bool) (neig : nat) (eY : list T * mat) : list T * mat :=
    (take lowest neig (fst eY), take_cols lowest neig (snd eY)).

  (* M absent: eigh(A), slice *)
  Definition exacteig_noM (lowest : bool) (neig : nat) (A : mat) (eY : list T * mat) : eig_out :=
    let r := take_eigpairs lowest neig eY in mkEig A (fst r) (snd r).

  (* M present: L = cholesky(M) and Linv = inverse(L) are oracle answers; A2 = Linv (A Linv^H);
     eigh(A2); slice; back-transform with Linv^H *)
  Definition exacteig_M (lowest : bool) (neig : nat) (A Linv : mat) (eY : list T * mat) : eig_out :=
    let LinvT := mH Linv in
    let A2 := mmul o Linv (mmul o A LinvT) in
    let r := take_eigpairs lowest neig eY in
    mkEig A2 (fst r) (mmul o LinvT (snd r)).

  (* ---------------- svd on top of symeig ---------------- *)
  Record svd_out := mkSvd { so_sym_arg : mat; so_u : mat; so_s : list T; so_vh : mat }.
  Definition clamp_min (lo x : T) : T := if oltb o x lo then lo else x.
  Definition svd_flow (tiny : T) (m n : nat) (A : mat) (ee : list T * mat) : svd_out :=
    let wide := Nat.ltb m n in
    let AAsym := if wide then mmul o A (mH A) else mmul o (mH A) A in
    let eivals := map (clamp_min (o0 o)) (fst ee) in
    let s := map (osqrt o) eivals in
    let sdiv := map (clamp_min tiny) s in
    if wide then
      let u := snd ee in let v := div_cols sdiv (mmul o (mH A) u) in mkSvd AAsym u s (mH v)
    else
      let v := snd ee in let u := div_cols sdiv (mmul o A v) in mkSvd AAsym u s (mH v).

  (* ---------------- tallqr ---------------- *)
  (* VTV = V^T MV (plain transpose, as in the source); R = cholesky(VTV^H)^H with the Cholesky factor C an
     oracle answer; Rinv = inverse(R) an oracle answer; Q = V Rinv.  Returns (argument of cholesky, Q, R). *)
  Definition tallqr (V MV C Rinv : mat) : mat * mat * mat :=
    let VTV := mmul o (mT V) MV in
    (mH VTV, mmul o V Rinv, mH C).

  (* ---------------- davidson ---------------- *)
  Record dav_tape := mkTape { tp_eig : list T * mat; tp_C : mat; tp_Rinv : mat }.
  Record dav_log := mkLog { lg_T : mat; lg_maxresid : T; lg_better : bool; lg_chol_arg : mat;
                            lg_e : list T; lg_x : mat }.
  Inductive dav_exit := ExitResid | ExitFull | ExitMaxIter | ExitTape.
  Record dav_out := mkDav { dv_logs : list dav_log; dv_exit : dav_exit; dv_best_resid : T;
                            dv_evals : list T; dv_evecs : mat; dv_has_best : bool }.
  Definition add_log (l : dav_log) (r : dav_out) : dav_out :=
    mkDav (l :: dv_logs r) (dv_exit r) (dv_best_resid r) (dv_evals r) (dv_evecs r) (dv_has_best r).

  Definition Mmm (useM : bool) (M X : mat) : mat := if useM then mmul o M X else X.

  (* one pass of the loop body up to the two exit tests: Rayleigh matrix, Ritz pairs, residual *)
  Definition dav_ritz (lowest : bool) (neig : nat) (useM : bool) (M V AV : mat) (eY : list T * mat)
    : mat * list T * mat * mat * T :=
    let Tm := mmul o (mT V) AV in
    let ec := take_eigpairs lowest neig eY in
    let eigvalT := fst ec in let eigvecT := snd ec in
    let eigvecA := mmul o V eigvecT in
    let AVs := mmul o AV eigvecT in
    let LVs := Mmm useM M (scale_cols eigvalT eigvecA) in
    let resid := msub o AVs LVs in
    (Tm, eigvalT, eigvecA, resid, mmaxabs resid).

  (* subspace expansion: V <- tallqr([V, -resid] truncated to na columns), AV <- [AV, A V_new] *)
  Definition dav_expand (useM : bool) (A M V AV resid C Rinv : mat) : mat * mat * mat :=
    let t := map (map (oopp o)) resid in
    let Vcat := hcat V t in
    let Vnew := if Nat.ltb (length Vcat) (ncols Vcat) then first_cols (length Vcat) Vcat else Vcat in
    let nadd := ncols Vnew - ncols V in
    let '(carg, Q, _) := tallqr Vnew (Mmm useM M Vnew) C Rinv in
    (carg, Q, hcat AV (mmul o A (last_cols nadd Q))).

  Fixpoint dav_loop (fuel : nat) (lowest : bool) (neig : nat) (useM : bool) (A M : mat) (min_eps : T)
           (tape : list dav_tape) (V AV : mat)
           (has_best : bool) (best_resid : T) (best_e : list T) (best_x : mat) : dav_out :=
    match fuel with
    | O => mkDav [] ExitMaxIter best_resid best_e best_x has_best
    | S f =>
      match tape with
      | [] => mkDav [] ExitTape best_resid best_e best_x has_best
      | tp :: tape' =>
        let '(Tm, eigvalT, eigvecA, resid, max_resid) := dav_ritz lowest neig useM M V AV (tp_eig tp) in
        let better := oltb o max_resid best_resid in      (* best_resid starts at +inf *)
        let has_best' := has_best || better in
        let best_resid' := if better then max_resid else best_resid in
        let best_e' := if better then eigvalT else best_e in
        let best_x' := if better then eigvecA else best_x in
        if oltb o max_resid min_eps then
          mkDav [mkLog Tm max_resid better [] eigvalT eigvecA] ExitResid best_resid' best_e' best_x' has_best'
        else if Nat.eqb (ncols AV) (length AV) then
          mkDav [mkLog Tm max_resid better [] eigvalT eigvecA] ExitFull best_resid' best_e' best_x' has_best'
        else
          let '(carg, Q, AV') := dav_expand useM A M V AV resid (tp_C tp) (tp_Rinv tp) in
          add_log (mkLog Tm max_resid better carg eigvalT eigvecA)
                  (dav_loop f lowest neig useM A M min_eps tape' Q AV' has_best' best_resid' best_e' best_x')
      end
    end.

  (* _set_initial_v: raw guess (eye / randn / rand: an input of the model), M-orthonormalised by tallqr;
     returns the argument of the first cholesky call and V *)
  Definition set_initial_v (useM : bool) (M Vraw C0 Rinv0 : mat) : mat * mat :=
    let '(carg, Q, _) := tallqr Vraw (Mmm useM M Vraw) C0 Rinv0 in (carg, Q).

  Definition davidson (max_niter : nat) (lowest : bool) (neig : nat) (useM : bool) (A M : mat) (min_eps inf : T)
             (Vraw C0 Rinv0 : mat) (tape : list dav_tape) : mat * dav_out :=
    let '(carg0, V) := set_initial_v useM M Vraw C0 Rinv0 in
    (carg0, dav_loop max_niter lowest neig useM A M min_eps tape V (mmul o A V)
                     false inf [] []).
End Symeig.

(* Model of xitorch/_impls/optimize/root/rootsolver.py::_nonlin_solver (line_search=False, after fixes
   F1 / F3 / F19), of TerminationCondition.check, of the quasi-Newton matrices of _jacobian.py
   (LinearMixing, LowRankMatrix / FullRankMatrix with the Broyden updates) and of gd with the
   TerminationCondition of minimizer.py.  Vectors are lists over an arithmetic carrier. *)
From Coq Require Import List Bool Arith ZArith.
Import ListNotations.
From XV Require Import Base.Ops Base.LinAlg.

Section Nonlin.
  Context {T J : Type} (o : ops T).
  Variable func : list T -> list T.                        (* _ravel(fcn(_pack(x))) *)
  Variable jsolve : J -> list T -> list T.                 (* jacobian.solve(y) *)
  Variable jupdate : J -> list T -> list T -> J.           (* jacobian.update(xnew, ynew) *)
  Variables f_tol f_rtol x_tol x_rtol f0_norm : T.

  (* TerminationCondition.check(x, y, dx) *)
  Definition check (x y dx : list T) : bool :=
    let xnorm := vnorm o x in let ynorm := vnorm o y in let dxnorm := vnorm o dx in
    oltb o dxnorm x_tol && oltb o dxnorm (omul o x_rtol xnorm) &&
    oltb o ynorm f_tol && oltb o ynorm (omul o f_rtol f0_norm).

  Inductive outcome :=
  | Converged (x : list T)            (* silent return *)
  | Exhausted (best : list T)         (* ConvergenceWarning, best iterate returned *)
  | ZeroStep.                         (* ValueError: zero step away from a root *)

  (* what the loop visited: every point at which func was evaluated, with the norm of its value *)
  Record visit := mkVisit { v_x : list T; v_ynorm : T; v_dx : list T; v_stop : bool }.

  Fixpoint loop (fuel : nat) (x y : list T) (ynorm : T) (j : J) (best_x : list T) (best_ynorm : T)
    : outcome * list visit :=
    match fuel with
    | O => (Exhausted best_x, [])
    | S n =>
        let dx := vopp o (jsolve j y) in
        let dxnorm := vnorm o dx in
        if oeqb o dxnorm (o0 o) then
          if oeqb o ynorm (o0 o) then (Converged x, []) else (ZeroStep, [])
        else
          let xnew := vadd o x dx in
          let ynew := func xnew in
          let ynorm_new := vnorm o ynew in
          let better := oltb o ynorm_new best_ynorm in
          let best_x' := if better then xnew else best_x in
          let best_ynorm' := if better then ynorm_new else best_ynorm in
          let j' := jupdate j xnew ynew in
          let stop := check xnew ynew dx in
          let v := mkVisit xnew ynorm_new dx stop in
          if stop then (Converged xnew, [v])
          else let '(r, vs) := loop n xnew ynew ynorm_new j' best_x' best_ynorm' in (r, v :: vs)
    end.

  Definition nonlin_solver (maxiter : nat) (x0 : list T) (j0 : list T -> list T -> J) : outcome * list visit :=
    let y := func x0 in
    let ynorm := vnorm o y in
    if oeqb o ynorm (o0 o) then (Converged x0, [])
    else loop maxiter x0 y ynorm (j0 x0 y) x0 ynorm.
End Nonlin.

(* ---- concrete quasi-Newton matrices ---- *)
Section QN.
  Context {T : Type} (o : ops T).
  Definition vmulr (v : list T) (a : T) : list T := map (fun x => omul o x a) v.   (* tensor * scalar *)
  Definition vdivr (v : list T) (a : T) : list T := map (fun x => odiv o x a) v.

  (* LinearMixing.solve: -v * alpha *)
  Definition lm_solve (alpha : T) (v : list T) : list T := vmulr (vopp o v) alpha.

  (* LowRankMatrix(alpha, cns, dns)  /  FullRankMatrix(mat) *)
  Inductive qmat :=
  | LowRank (alpha : T) (cns dns : list (list T))
  | FullRank (m : list (list T)).

  (* mv: res = alpha * v; res += cns[i] * dot(dns[i], v) *)
  Definition q_mv (g : qmat) (v : list T) : list T :=
    match g with
    | LowRank alpha cns dns =>
        fold_left (fun res cd => vadd o res (vmulr (fst cd) (vdot o (snd cd) v)))
                  (combine cns dns) (vscale o alpha v)
    | FullRank m => mvec o m v
    end.
  (* rmv: res = alpha * v; res += dns[i] * dot(cns[i], v) *)
  Definition q_rmv (g : qmat) (v : list T) : list T :=
    match g with
    | LowRank alpha cns dns =>
        fold_left (fun res cd => vadd o res (vmulr (snd cd) (vdot o (fst cd) v)))
                  (combine cns dns) (vscale o alpha v)
    | FullRank m => mvec o (transpose o m) v
    end.
  Definition outer (c d : list T) : list (list T) := map (fun ci => map (fun dj => omul o ci dj) d) c.
  (* FullRankMatrix.__init__: eye * alpha, then += ger(cns[i], dns[i]) in order *)
  Definition full_of (alpha : T) (cns dns : list (list T)) (n : nat) : list (list T) :=
    fold_left (fun m cd => madd o m (outer (fst cd) (snd cd))) (combine cns dns)
              (map (fun r => map (fun x => omul o x alpha) r) (identity o n)).
  (* append(c, d): switches to the full matrix when the rank reaches the dimension *)
  Definition q_append (g : qmat) (c d : list T) : qmat :=
    match g with
    | LowRank alpha cns dns =>
        let cns' := cns ++ [c] in let dns' := dns ++ [d] in
        if length c <=? length cns' then FullRank (full_of alpha cns' dns' (length c))
        else LowRank alpha cns' dns'
    | FullRank m => FullRank (madd o m (outer c d))
    end.

  (* Broyden state: (Gm, x_prev, y_prev); max_rank = inf (no reduction) *)
  Record bstate := mkB { b_G : qmat; b_x : list T; b_y : list T }.
  Definition broyden_setup (x0 y0 : list T) : bstate :=
    let normy0 := vnorm o y0 in
    let one := o1 o in
    let alpha := if oeqb o normy0 (o0 o) then one
                 else odiv o (omul o (odiv o one (ofZ o 2)) (if oltb o (vnorm o x0) one then one else vnorm o x0)) normy0 in
    mkB (LowRank (oopp o alpha) [] []) x0 y0.
  Definition broyden_solve (s : bstate) (v : list T) : list T := q_mv (b_G s) v.
  Definition broyden_update (first : bool) (s : bstate) (x y : list T) : bstate :=
    let dy := vsub o y (b_y s) in
    let dx := vsub o x (b_x s) in
    let v := if first then q_rmv (b_G s) dx else dy in
    let c := vsub o dx (q_mv (b_G s) dy) in
    let d := if first then vdivr v (vdot o dy v)
             else vdivr v (omul o (vnorm o dy) (vnorm o dy)) in
    mkB (q_append (b_G s) c d) x y.
End QN.

(* ---- gd with its TerminationCondition (minimizer.py) ---- *)
Section GD.
  Context {T : Type} (o : ops T).
  Variable fg : list T -> T * list T.            (* fcn(x) -> (f, dfdx) *)
  Variables step gamma f_tol f_rtol x_tol x_rtol : T.

  Record term := mkTerm { ever : bool; max_i : option nat; best_f : option T; best_x : list T }.

  Definition to_stop (tm : term) (i : nat) (xnext x : list T) (f fprev : T) : bool * term :=
    let xnorm := vnorm o x in
    let dxnorm := vnorm o (vsub o x xnext) in
    let fabs := oabs o f in
    let df := oabs o (osub o fprev f) in
    let converge := oltb o dxnorm x_tol || oltb o dxnorm (omul o x_rtol xnorm) ||
                    oltb o df f_tol || oltb o df (omul o f_rtol fabs) in
    let res := (0 <? i) && converge in
    let better := match best_f tm with None => true | Some b => oltb o f b end in
    (res, mkTerm (ever tm || res) (Some i)
                 (if better then Some f else best_f tm) (if better then x else best_x tm)).

  Fixpoint gd_loop (fuel i : nat) (x v : list T) (fprev : T) (tm : term) (calls : list (list T))
    : list T * term * list (list T) :=
    match fuel with
    | O => (x, tm, calls)
    | S n =>
        let '(f, dfdx) := fg x in
        let v' := vsub o (vscale o gamma v) (vscale o step dfdx) in
        let xnext := vadd o x v' in
        let '(stop, tm') := to_stop tm i xnext x f fprev in
        if stop then (xnext, tm', calls ++ [x])
        else gd_loop n (S i) xnext v' f tm' (calls ++ [x])
    end.

  (* returns (x, warned, evaluation points) *)
  Definition gd (maxiter : nat) (x0 : list T) : list T * bool * list (list T) :=
    let '(x, tm, calls) := gd_loop maxiter 0 x0 (map (fun _ => o0 o) x0) (o0 o) (mkTerm false None None []) [] in
    match ever tm, max_i tm with
    | false, Some _ => (best_x tm, true, calls)
    | _, _ => (x, false, calls)
    end.
End GD.

(* Executable model of solve_torchfcn.backward (xitorch/linalg/solve.py), real dense case:
     V = solve(A^T, G, E, M^T);  grad_B = V;  grad_A = -V X^T;  grad_M = V (X E)^T;
     grad_E[j] = sum_r V[r,j] (M X)[r,j]
   X and V are kept as lists of columns; each column has its own shift e_j. *)
From Coq Require Import List Bool Arith ZArith.
Import ListNotations.
From XV Require Import Base.Ops Base.LinAlg.

Section SolveBackward.
  Context {T : Type} (o : ops T).

  Definition shifted (A M : list (list T)) (e : T) : list (list T) := msub o A (mscale o e M).

  Fixpoint solve_cols (A M : list (list T)) (es : list T) (bs : list (list T)) : option (list (list T)) :=
    match es, bs with
    | e :: er, b :: br =>
        match solve_vec o (shifted A M e) b, solve_cols A M er br with
        | Some x, Some xs => Some (x :: xs)
        | _, _ => None
        end
    | _, _ => Some []
    end.

  Definition outer (u v : list T) : list (list T) := map (fun ui => map (fun vj => omul o ui vj) v) u.
  Definition mzero (n : nat) : list (list T) := repeat (repeat (o0 o) n) n.

  Record grads := mkG { g_B : list (list T) (* columns *); g_A : list (list T); g_M : list (list T); g_E : list T }.

  Definition backward (A M : list (list T)) (es : list T) (xcols gcols : list (list T)) : option grads :=
    let n := length A in
    match solve_cols (transpose o A) (transpose o M) es gcols with
    | None => None
    | Some vs =>
        let gA := fold_left (fun acc p => msub o acc (outer (fst p) (snd p))) (combine vs xcols) (mzero n) in
        let gM := fold_left (fun acc p => madd o acc (outer (fst (fst p)) (vscale o (snd p) (snd (fst p)))))
                            (combine (combine vs xcols) es) (mzero n) in
        let gE := map (fun p => vdot o (fst p) (mvec o M (snd p))) (combine vs xcols) in
        Some (mkG vs gA gM gE)
    end.
End SolveBackward.

(* float-instance drivers used by the C07 correspondence *)
From Coq Require Import QArith List Bool PrimFloat ZArith.
Import ListNotations.
From XV Require Import Base.Ops Model.ExplicitRK Model.AdaptiveRK.

Definition fl (q : Q) : float := ofQ Fops q.

Fixpoint traj_bits (a b : list (list float)) : bool :=
  match a, b with
  | [], [] => true
  | x :: r, y :: s => vbits_eq x y && traj_bits r s
  | _, _ => false
  end.
Fixpoint calls_bits (a b : list (float * list float)) : bool :=
  match a, b with
  | [], [] => true
  | (t, x) :: r, (u, y) :: s => PrimFloat.eqb t u && vbits_eq x y && calls_bits r s
  | _, _ => false
  end.

Definition explicit_ok (c b : list Q) (a : list (list Q)) (es : list fexp)
           (ts y0 : list float) (traj : list (list float)) (calls : list (float * list float)) : bool :=
  let r := explicit_rk Fops (field Fops es) (map fl c) (map fl b) (map (map fl) a) ts y0 in
  traj_bits (fst r) traj && calls_bits (snd r) calls.

(* ---- adaptive ---- *)
Fixpoint traj_close (rt at_ : float) (a b : list (list float)) : bool :=
  match a, b with
  | [], [] => true
  | x :: r, y :: s => vclose rt at_ x y && traj_close rt at_ r s
  | _, _ => false
  end.
(* stage arguments: the entries of one state vector are compared with an absolute tolerance proportional to the
   LARGEST entry of that vector (a step size that differs by 1e-11 relative - the pow of the controller is computed
   differently - moves every entry by |f| dt, which is not small relative to an entry that happens to be near zero) *)
Definition vmaxabs (v : list float) : float :=
  fold_left (fun m x => if PrimFloat.ltb m (PrimFloat.abs x) then PrimFloat.abs x else m) v 0%float.
Fixpoint calls_close (rt at_ : float) (a b : list (float * list float)) : bool :=
  match a, b with
  | [], [] => true
  | (t, x) :: r, (u, y) :: s =>
      fclose rt at_ t u && vclose rt (PrimFloat.add at_ (PrimFloat.mul rt (vmaxabs y))) x y && calls_close rt at_ r s
  | _, _ => false
  end.

Definition fmin (a b : float) : float := if PrimFloat.ltb b a then b else a.
(* smallest relative distance of any decision of the run from its threshold *)
Definition margin_of (a : attempt (T := float)) (t1 : float) : float :=
  let e := at_errnorm a in
  let d := PrimFloat.abs (at_dt1 a) in
  let m1 := PrimFloat.abs (PrimFloat.sub e 1) in
  (* an exact tie of the clip test is reproduced bit for bit (same IEEE operations on the same
     bits); a near-tie is not *)
  if PrimFloat.eqb d 0 then m1 else fmin m1 (PrimFloat.div d (PrimFloat.add (PrimFloat.abs (at_hstep a)) 0x1p-60)).

Definition all_calls (l : list (attempt (T := float))) : list (float * list float) :=
  flat_map (fun a => at_calls a) l.

(* result code: 0 mismatch, 1 agree, 2 skipped (a decision within 1e-6 of its threshold),
   3 model out of fuel *)
Definition adaptive_code (A : list (list Q)) (B C E : list Q) (maxf minf smult : Q) (qp1 : nat)
           (atol rtol : float) (es : list fexp) (ts y0 : list float)
           (traj : list (list float)) (calls : list (float * list float)) : nat :=
  let r := adaptive_entry Fops (field Fops es) (map (map fl) A) (map fl B) (map fl C) (map fl E)
                          atol rtol (fl maxf) (fl minf) (fl smult) qp1 400 ts y0 in
  match r with
  | (None, _) => 3%nat
  | (Some ys, l) =>
      (* thin: a decision near its threshold, or an error estimate that is rounding noise (its value, and
         with it the next step size, then depends on the reduction order of the implementation) *)
      let noisy := fun (a : attempt (T := float)) =>
        PrimFloat.ltb 0 (at_errraw a) && PrimFloat.ltb (at_errraw a) (PrimFloat.mul 0x1p-36 (PrimFloat.add (at_ymax a) 0x1p-20)) in
      let thin := existsb (fun a => PrimFloat.ltb (margin_of a 0) 0x1p-20 || noisy a) l in
      if thin then 2%nat
      else
        let neg := match ts with t0 :: t1 :: _ => PrimFloat.ltb t1 t0 | _ => false end in
        let t0 := hd 0%float ts in
        let mcalls := (if neg then PrimFloat.opp t0 else t0, y0) :: all_calls l in
        (* the error estimate is a difference of nearly equal stage combinations: its relative rounding noise is about
           eps |y| / |err|, and a fifth (third) of it goes into the next step size.  With tight tolerances (|err| ~ 1e-8 |y|) that
           is 1e-9 - more than the 2^-30 used otherwise (false alarm of thorough seed 3) - so the comparison tolerance follows
           the largest amplification met in the run; beyond 2^-12 the case is skipped as noisy *)
        let amp := fold_left (fun m a => if PrimFloat.ltb 0 (at_errraw a)
                                         then (let q := PrimFloat.div (PrimFloat.add (at_ymax a) 0x1p-20) (at_errraw a) in
                                               if PrimFloat.ltb m q then q else m)
                                         else m) l 0%float in
        let rt := (let c := PrimFloat.mul 0x1p-50 amp in if PrimFloat.ltb 0x1p-30 c then c else 0x1p-30%float) in
        if PrimFloat.ltb 0x1p-12 rt then 2%nat
        else if traj_close rt 0x1p-40 ys traj && calls_close rt 0x1p-40 mcalls calls
        then 1%nat else 0%nat
  end.

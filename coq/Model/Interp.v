(* Model of xitorch/_impls/interpolate/interp_1d.py (LinearInterp1D, CubicSpline1D,
   _get_spline_mat_inv) and extrap_utils.py, for 1-D sorted x.  torch.linalg.solve is modelled by
   Gauss-Jordan elimination (compared with a tolerance); floor() of the normalised coordinate in the
   periodic / mirror maps is an oracle input that the model validates. *)
From Coq Require Import List Bool Arith ZArith.
Import ListNotations.
From XV Require Import Base.Ops Base.LinAlg.

Inductive bc := Natural | Clamped | NotAKnot | Periodic.

Section Interp.
  Context {T : Type} (o : ops T).
  Notation "a +' b" := (oadd o a b) (at level 50, left associativity).
  Notation "a -' b" := (osub o a b) (at level 50, left associativity).
  Notation "a *' b" := (omul o a b) (at level 40, left associativity).
  Notation "a /' b" := (odiv o a b) (at level 40, left associativity).
  Definition c2 := ofZ o 2.  Definition c3 := ofZ o 3.
  Definition nthT (l : list T) (i : nat) : T := nth i l (o0 o).

  Fixpoint diffs (x : list T) : list T :=               (* x[1:] - x[:-1] *)
    match x with
    | a :: ((b :: _) as r) => (b -' a) :: diffs r
    | _ => []
    end.

  Definition set_entry (m : list (list T)) (i j : nat) (v : T) : list (list T) :=
    map (fun p => if Nat.eqb (fst p) i
                  then map (fun q => if Nat.eqb (fst q) j then v else snd q) (combine (seq 0 (length (snd p))) (snd p))
                  else snd p) (combine (seq 0 (length m)) m).
  Definition add_entry (m : list (list T)) (i j : nat) (v : T) : list (list T) :=
    set_entry m i j (nthT (nth i m []) j +' v).
  Definition zero_row (m : list (list T)) (i : nat) : list (list T) :=
    map (fun p => if Nat.eqb (fst p) i then map (fun _ => o0 o) (snd p) else snd p) (combine (seq 0 (length m)) m).

  (* the two matrices of _get_spline_mat_inv: spline_mat * ks = matr * y *)
  Definition spline_system (x : list T) (b : bc) : list (list T) * list (list T) :=
    let nr := length x in
    let dxinv0 := map (fun d => o1 o /' d) (diffs x) in
    let dxinv := (o0 o :: dxinv0) ++ [o0 o] in
    let diag := map (fun i => (nthT dxinv i +' nthT dxinv (S i)) *' c2) (seq 0 nr) in
    let dxinv2 := map (fun v => (v *' v) *' c3) dxinv in
    let diagr := map (fun i => nthT dxinv2 i -' nthT dxinv2 (S i)) (seq 0 nr) in
    let tri := fun (dg : list T) (up lo : nat -> T) =>
      map (fun i => map (fun j => if Nat.eqb i j then nthT dg i
                                  else if Nat.eqb (S i) j then up i
                                  else if Nat.eqb i (S j) then lo j
                                  else o0 o) (seq 0 nr)) (seq 0 nr) in
    let S0 := tri diag (fun i => nthT dxinv0 i) (fun j => nthT dxinv0 j) in
    let R0 := tri diagr (fun i => nthT dxinv2 (S i)) (fun j => oopp o (nthT dxinv2 (S j))) in
    let n1 := pred nr in
    match b with
    | Natural => (S0, R0)
    | Clamped =>
        (set_entry (zero_row (set_entry (zero_row S0 0) 0 0 (o1 o)) n1) n1 n1 (o1 o),
         zero_row (zero_row R0 0) n1)
    | NotAKnot =>
        let d0 := nthT dxinv0 0 in let d1 := nthT dxinv0 1 in
        let dn := nthT dxinv0 (pred n1) in let dm := nthT dxinv0 (pred (pred n1)) in
        let d0s := d0 *' d0 in let d1s := d1 *' d1 in let dns := dn *' dn in let dms := dm *' dm in
        let d03 := d0 *' d0s in let d13 := d1 *' d1s in let dn3 := dn *' dns in let dm3 := dm *' dms in
        let S1 := set_entry (set_entry (set_entry S0 0 0 d0s) 0 1 (d0s -' d1s)) 0 2 (oopp o d1s) in
        let S2 := set_entry (set_entry (set_entry S1 n1 n1 (oopp o dns)) n1 (pred n1) (dms -' dns)) n1 (pred (pred n1)) dms in
        let R1 := set_entry (set_entry (set_entry R0 0 0 (c2 *' oopp o d03)) 0 1 (c2 *' (d03 +' d13))) 0 2 (c2 *' oopp o d13) in
        let R2 := set_entry (set_entry (set_entry R1 n1 n1 (c2 *' oopp o dn3)) n1 (pred n1) (c2 *' (dn3 +' dm3)))
                            n1 (pred (pred n1)) (c2 *' oopp o dm3) in
        (S2, R2)
    | Periodic =>
        let d01 := nthT dxinv0 (pred n1) in let d00 := nthT dxinv0 0 in
        let S1 := add_entry (add_entry S0 0 (pred n1) d01) 0 0 (d01 *' c2) in
        let S2 := add_entry (add_entry S1 n1 1 d00) n1 n1 (d00 *' c2) in
        let q1 := c3 *' d01 *' d01 in let q0 := c3 *' d00 *' d00 in
        let R1 := add_entry (add_entry R0 0 (pred n1) (oopp o q1)) 0 0 q1 in
        let R2 := add_entry (add_entry R1 n1 1 q0) n1 n1 (oopp o q0) in
        (S2, R2)
    end.

  (* ks = spline_mat^-1 (matr y) *)
  Definition spline_ks (x y : list T) (b : bc) : option (list T) :=
    let '(Sm, Rm) := spline_system x b in solve_vec o Sm (mvec o Rm y).

  (* torch.searchsorted(x, xq, right=False) then clamp(1, nr-1) *)
  Fixpoint count_lt (x : list T) (q : T) : nat :=
    match x with [] => O | a :: r => if oltb o a q then S (count_lt r q) else O end.
  Definition idx_right (x : list T) (q : T) : nat :=
    Nat.min (Nat.max (count_lt x q) 1) (pred (length x)).

  (* the two evaluation formulas (chosen by numel(xq) > numel(x)) *)
  Definition linear_many (x y : list T) (q : T) : T :=
    let ir := idx_right x q in let il := pred ir in
    let dy := nthT y ir -' nthT y il in let dx := nthT x ir -' nthT x il in
    let t := (q -' nthT x il) /' dx in
    dy *' t +' nthT y il.
  Definition linear_few (x y : list T) (q : T) : T :=
    let ir := idx_right x q in let il := pred ir in
    let dxrl := nthT x ir -' nthT x il in let dyrl := nthT y ir -' nthT y il in
    let t := (q -' nthT x il) /' dxrl in
    nthT y il +' dyrl *' t.

  Definition cubic_many (x y ks : list T) (q : T) : T :=
    let ir := idx_right x q in let il := pred ir in
    let yl := nthT y il in let dy := nthT y ir -' yl in let dx := nthT x ir -' nthT x il in
    let a := nthT ks il *' dx -' dy in
    let b := oopp o (nthT ks ir) *' dx +' dy in
    let p1 := dy +' a in let p2 := b -' c2 *' a in let p3 := a -' b in
    let t := (q -' nthT x il) /' dx in
    ((p3 *' t +' p2) *' t +' p1) *' t +' yl.
  Definition cubic_few (x y ks : list T) (q : T) : T :=
    let ir := idx_right x q in let il := pred ir in
    let xl := nthT x il in let xr := nthT x ir in
    let yl := nthT y il in let yr := nthT y ir in
    let kl := nthT ks il in let kr := nthT ks ir in
    let dxrl := xr -' xl in
    let t := (q -' xl) /' dxrl in
    let tinv := o1 o -' t in
    let tta := t *' tinv *' tinv in
    let ttb := t *' tinv *' t in
    let tyl := tinv +' tta -' ttb in
    let tyr := t -' tta +' ttb in
    let tkl := tta *' dxrl in
    let tkr := oopp o ttb *' dxrl in
    yl *' tyl +' yr *' tyr +' kl *' tkl +' kr *' tkr.

  (* get_extrap_pos; [k] is floor(|xqnorm|) resp. floor(xqnorm) as a carrier value (oracle) *)
  Inductive emode := EPeriodic | EMirror | EBound.
  Definition extrap_pos (m : emode) (xmin xmax q : T) (k : T) (k_is_odd : bool) : T :=
    let xqnorm := (q -' xmin) /' (xmax -' xmin) in
    let inside :=
      match m with
      | EPeriodic => xqnorm -' k
      | EMirror =>
          let xa := oabs o xqnorm in
          (* ceil = k + 1; half = trunc(ceil / 2); (2 half - xa) * (1 - 2 (ceil mod 2)) *)
          let ceil := k +' o1 o in
          let half := if k_is_odd then ceil /' c2 else k /' c2 in
          let sgn := if k_is_odd then o1 o else oopp o (o1 o) in
          (c2 *' half -' xa) *' sgn
      | EBound => if oltb o xqnorm (o0 o) then o0 o else if oltb o (o1 o) xqnorm then o1 o else xqnorm
      end in
    inside *' (xmax -' xmin) +' xmin.
  (* the oracle is consistent: k <= v < k + 1 *)
  Definition floor_ok (v k : T) : bool := oleb o k v && oltb o v (k +' o1 o).
End Interp.

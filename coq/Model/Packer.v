(* Model of xitorch/_core/packer.py (class Packer and its three helpers).
   Definitions only: this file must keep compiling (and running inside the
   correspondence check) when a proof elsewhere breaks. *)
From Coq Require Import List Arith ZArith Bool.
Import ListNotations.

(* A tensor as the Packer sees it: an identity, a shape and a row-major payload. *)
Record tens := mkT { tid : nat; tshape : list nat; tdata : list Z }.

Definition numel (s : list nat) : nat := fold_right Nat.mul 1 s.

(* Structures.  Tuples and other leaves are opaque to the traversal, exactly as in
   _extract_tensors/_put_tensors (a tuple has no __dict__). Dict / object keys are
   numbered; insertion order is list order. *)
Inductive node : Type :=
| NTens (t : tens)
| NList (l : list node)
| NDict (l : list (nat * node))
| NObj (l : list (nat * node))
| NTup (l : list node)
| NLeaf (z : Z).

(* ---- _extract_tensors ---- *)
Fixpoint extract (b : node) : list tens :=
  match b with
  | NTens t => [t]
  | NList l => flat_map extract l
  | NDict l => flat_map (fun kv => extract (snd kv)) l
  | NObj l => flat_map (fun kv => extract (snd kv)) l
  | NTup _ => []
  | NLeaf _ => []
  end.

(* ---- _put_tensors ----  tensors.pop(0) on an empty list raises IndexError in Python;
   every caller checks the length first, so the model leaves the slot unchanged there and
   the theorems carry the length hypothesis. *)
Fixpoint put (b : node) (ts : list tens) {struct b} : node * list tens :=
  match b with
  | NTens t => match ts with
               | x :: r => (NTens x, r)
               | [] => (NTens t, [])
               end
  | NList l =>
      let fix go (l : list node) (ts : list tens) : list node * list tens :=
        match l with
        | [] => ([], ts)
        | x :: r => let '(x', ts1) := put x ts in
                    let '(r', ts2) := go r ts1 in (x' :: r', ts2)
        end in
      let '(l', ts') := go l ts in (NList l', ts')
  | NDict l =>
      let fix go (l : list (nat * node)) (ts : list tens) : list (nat * node) * list tens :=
        match l with
        | [] => ([], ts)
        | (k, x) :: r => let '(x', ts1) := put x ts in
                         let '(r', ts2) := go r ts1 in ((k, x') :: r', ts2)
        end in
      let '(l', ts') := go l ts in (NDict l', ts')
  | NObj l =>
      let fix go (l : list (nat * node)) (ts : list tens) : list (nat * node) * list tens :=
        match l with
        | [] => ([], ts)
        | (k, x) :: r => let '(x', ts1) := put x ts in
                         let '(r', ts2) := go r ts1 in ((k, x') :: r', ts2)
        end in
      let '(l', ts') := go l ts in (NObj l', ts')
  | NTup l => (NTup l, ts)
  | NLeaf z => (NLeaf z, ts)
  end.

(* the same loops, named, for the proofs *)
Fixpoint put_list (l : list node) (ts : list tens) : list node * list tens :=
  match l with
  | [] => ([], ts)
  | x :: r => let '(x', ts1) := put x ts in
              let '(r', ts2) := put_list r ts1 in (x' :: r', ts2)
  end.
Fixpoint put_kvs (l : list (nat * node)) (ts : list tens) : list (nat * node) * list tens :=
  match l with
  | [] => ([], ts)
  | (k, x) :: r => let '(x', ts1) := put x ts in
                   let '(r', ts2) := put_kvs r ts1 in ((k, x') :: r', ts2)
  end.

(* ---- _get_unique_idxs ----  first-occurrence de-duplication by identity.
   [seen] is the dictionary unique_ids as an association list id -> slot. *)
Fixpoint lookup (k : nat) (m : list (nat * nat)) : option nat :=
  match m with
  | [] => None
  | (k', v) :: r => if Nat.eqb k k' then Some v else lookup k r
  end.

Fixpoint uniq_go (ids : list nat) (i : nat) (seen : list (nat * nat)) (nuniq : nat)
  : list nat * list nat :=
  match ids with
  | [] => ([], [])
  | x :: r =>
      match lookup x seen with
      | Some s => let '(ui, inv) := uniq_go r (S i) seen nuniq in (ui, s :: inv)
      | None => let '(ui, inv) := uniq_go r (S i) ((x, nuniq) :: seen) (S nuniq) in
                (i :: ui, nuniq :: inv)
      end
  end.

Definition get_unique_idxs (b : list tens) : list nat * list nat :=
  uniq_go (map tid b) 0 [] 0.

Definition dummyT : tens := mkT 0 [] [].
Definition select {A} (d : A) (l : list A) (idxs : list nat) : list A :=
  map (fun i => nth i l d) idxs.

(* ---- the Packer object ---- *)
Record packer := mkP {
  p_obj : node;                              (* deep copy sharing the tensors *)
  p_tensors : list tens;                     (* _params_tensor_list (never None after __init__) *)
  p_uidx : option (list nat * list nat);     (* _unique_params_idxs, _unique_inverse_idxs *)
  p_ushapes : option (list (list nat));      (* _unique_tensor_shapes *)
  p_shapes : option (list (list nat));       (* _tensor_shapes *)
  p_unumels : option (list nat);             (* _unique_tensor_numels (+ tot) *)
  p_numels : option (list nat)               (* _tensor_numels (+ tot) *)
}.

Definition packer_init (obj : node) : packer :=
  mkP obj (extract obj) None None None None None.

Inductive err := ErrRuntime | ErrAssert.

Inductive result :=
| RErr (e : err)
| RNone
| RTensors (l : list tens)
| RTensor (t : tens)
| RObj (o : node).

Definition get_list (p : packer) (unique : bool) : list tens * packer :=
  if unique then
    let ui := match p_uidx p with Some ui => ui | None => get_unique_idxs (p_tensors p) end in
    let ts := select dummyT (p_tensors p) (fst ui) in
    (ts, mkP (p_obj p) (p_tensors p) (Some ui) (Some (map tshape ts)) (p_shapes p)
             (p_unumels p) (p_numels p))
  else
    let ts := p_tensors p in
    (ts, mkP (p_obj p) (p_tensors p) (p_uidx p) (p_ushapes p) (Some (map tshape ts))
             (p_unumels p) (p_numels p)).

(* fresh identities for tensors created by torch.cat / slicing; the correspondence
   canonicalises fresh identities by first occurrence *)
Definition fresh_base : nat := 1000.

Definition get_tensor (p : packer) (unique : bool) : result * packer :=
  let '(ts, p1) := get_list p unique in
  match ts with
  | [] => (RNone, p1)
  | _ =>
      let nm := map (fun t => numel (tshape t)) ts in
      let p2 := if unique
                then mkP (p_obj p1) (p_tensors p1) (p_uidx p1) (p_ushapes p1) (p_shapes p1)
                         (Some nm) (p_numels p1)
                else mkP (p_obj p1) (p_tensors p1) (p_uidx p1) (p_ushapes p1) (p_shapes p1)
                         (p_unumels p1) (Some nm) in
      match ts with
      | [t] => (RTensor t, p2)
      | _ => (RTensor (mkT fresh_base [fold_right Nat.add 0 nm] (flat_map tdata ts)), p2)
      end
  end.

Fixpoint shapes_match (ts : list tens) (shapes : list (list nat)) : bool :=
  match ts, shapes with
  | t :: r, s :: rs => if list_eq_dec Nat.eq_dec (tshape t) s then shapes_match r rs else false
  | _, _ => true      (* zip stops at the shorter list; lengths were compared before *)
  end.

Definition from_list (p : packer) (ts : list tens) (unique : bool) : result :=
  match (if unique then p_ushapes p else p_shapes p) with
  | None => RErr ErrRuntime
  | Some shapes =>
      if negb (Nat.eqb (length shapes) (length ts)) then RErr ErrRuntime
      else if Nat.eqb (length shapes) 0 then RObj (p_obj p)
      else if negb (shapes_match ts shapes) then RErr ErrRuntime
      else
        let ts' := if unique
                   then match p_uidx p with
                        | Some (_, inv) => select dummyT ts inv
                        | None => ts
                        end
                   else ts in
        RObj (fst (put (p_obj p) ts'))
  end.

Fixpoint split_flat (i : nat) (data : list Z) (numels : list nat) (shapes : list (list nat))
  : list tens :=
  match numels, shapes with
  | n :: rn, s :: rs =>
      mkT (fresh_base + i) s (firstn n data) :: split_flat (S i) (skipn n data) rn rs
  | _, _ => []
  end.

(* [a] is restricted to one-dimensional tensors (or, for a single slot, any shape):
   the documented interface *)
Definition from_tensor (p : packer) (a : tens) (unique : bool) : result :=
  match (if unique then p_ushapes p else p_shapes p) with
  | None => RErr ErrRuntime
  | Some shapes =>
      if Nat.eqb (length shapes) 0 then RObj (p_obj p)
      else match (if unique then p_unumels p else p_numels p) with
           | None => RErr ErrAssert
           | Some numels =>
               if negb (Nat.eqb (numel (tshape a)) (fold_right Nat.add 0 numels))
               then RErr ErrRuntime
               else
                 let params := match numels with
                               | [_] => [a]
                               | _ => split_flat 0 (tdata a) numels shapes
                               end in
                 from_list p params unique
           end
  end.

Inductive op :=
| OGetList (unique : bool)
| OGetTensor (unique : bool)
| OFromList (ts : list tens) (unique : bool)
| OFromTensor (a : tens) (unique : bool).

Definition step (p : packer) (o : op) : result * packer :=
  match o with
  | OGetList u => let '(ts, p') := get_list p u in (RTensors ts, p')
  | OGetTensor u => get_tensor p u
  | OFromList ts u => (from_list p ts u, p)
  | OFromTensor a u => (from_tensor p a u, p)
  end.

Fixpoint run (p : packer) (ops : list op) : list result :=
  match ops with
  | [] => []
  | o :: r => let '(x, p') := step p o in x :: run p' r
  end.

(* Model of the product dispatch of LinearOperator and of its composed classes
   (xitorch/_core/linop.py, after fixes F8).  Definitions only, plain Gallina (runs by
   vm_compute); the matrix semantics and the soundness proof are in Proofs/LinopSound.v. *)
From Coq Require Import List Bool Arith ZArith.
Import ListNotations.

(* optional methods a user leaf class defines (mv is mandatory) *)
Record caps := mkCaps { c_rmv : bool; c_mm : bool; c_rmm : bool; c_full : bool }.

(* dense matrices built by the simplifying constructors are matrix expressions over leaves *)
Inductive mexp :=
| MLeaf (id : nat)
| MH (m : mexp)                 (* conjugate transpose *)
| MMul (a b : mexp) | MAdd (a b : mexp) | MSub (a b : mexp) | MScale (f : Z) (a : mexp).

Inductive lexpr :=
| Leaf (id : nat) (cp : caps) (herm : bool)          (* user-defined operator *)
| Dense (m : mexp) (herm : bool)                      (* MatrixLinearOperator *)
| Adj (e : lexpr)                                     (* AdjointLinearOperator *)
| Matmul (a b : lexpr) (herm : bool)                  (* MatmulLinearOperator *)
| Add (a b : lexpr) (plus : bool)                     (* AddLinearOperator, mul = +1 / -1 *)
| Mul (a : lexpr) (f : Z).                            (* MulLinearOperator *)

(* is_hermitian as the constructors of the composed classes compute it *)
Fixpoint herm (e : lexpr) : bool :=
  match e with
  | Leaf _ _ h => h
  | Dense _ h => h
  | Adj e => herm e
  | Matmul _ _ h => h
  | Add a b _ => herm a && herm b
  | Mul a _ => herm a
  end.

Definition is_dense (e : lexpr) : bool := match e with Dense _ _ => true | _ => false end.

(* which optional methods the CLASS of the operator defines *)
Definition has_rmv (e : lexpr) : bool :=
  match e with Leaf _ cp _ => c_rmv cp | _ => true end.
Definition has_mm (e : lexpr) : bool :=
  match e with Leaf _ cp _ => c_mm cp | Dense _ _ => true | _ => false end.
Definition has_rmm (e : lexpr) : bool :=
  match e with Leaf _ cp _ => c_rmm cp | Dense _ _ => true | _ => false end.
Definition has_full (e : lexpr) : bool :=
  match e with Leaf _ cp _ => c_full cp | Dense _ _ => true | _ => false end.

(* symbolic results: which user-level products are applied to the operand, in which nesting *)
Inductive term :=
| TX                                          (* the operand *)
| TUmv (id : nat) (t : term)                  (* user _mv  *)
| TUrmv (id : nat) (t : term)                 (* user _rmv *)
| TUmm (id : nat) (t : term)                  (* user _mm  *)
| TUrmm (id : nat) (t : term)                 (* user _rmm *)
| TUfull (id : nat)                           (* user _fullmatrix *)
| TDmul (m : mexp) (t : term)                 (* torch.matmul(mat, .) *)
| TDrmul (m : mexp) (t : term)                (* torch.matmul(mat^H, .) *)
| TDfull (m : mexp)
| TAdjTrick (inner : term) (t : term)         (* autograd adjoint of the linear map X |-> inner *)
| TLet (x : term) (body : term)                (* body's operand TX is the (once evaluated) value of x *)
| TAdd (a b : term) | TSub (a b : term) | TScale (f : Z) (a : term)
| TRaise.                                      (* NotImplementedError from a base-class stub *)

(* self._mv and self.rmv, defined together (rmv of an operator uses _mv of the same operator):
   fst = _mv, snd = rmv *)
Fixpoint both (e : lexpr) : (term -> term) * (term -> term) :=
  let umv : term -> term :=
    match e with
    | Leaf id _ _ => fun x => TUmv id x
    | Dense m _ => fun x => TDmul m x
    | Adj o => fun x => snd (both o) x                      (* self.obj.rmv(x) *)
    | Matmul a b _ => fun x => fst (both a) (fst (both b) x)
    | Add a b plus => fun x => TLet x ((if plus then TAdd else TSub) (fst (both a) TX) (fst (both b) TX))
    | Mul a f => fun x => TScale f (fst (both a) x)
    end in
  let rmv : term -> term := fun x =>
    if herm e then umv x
    else if negb (has_rmv e) then TAdjTrick (umv TX) x
    else
      match e with                                            (* self._rmv(x) *)
      | Leaf id _ _ => TUrmv id x
      | Dense m _ => TDrmul m x
      | Adj o => fst (both o) x
      | Matmul a b _ => snd (both b) (snd (both a) x)
      | Add a b plus => TLet x ((if plus then TAdd else TSub) (snd (both a) TX) (snd (both b) TX))
      | Mul a f => TScale f (snd (both a) x)
      end in
  (umv, rmv).

Definition u_mv (e : lexpr) (x : term) : term := fst (both e) x.     (* self._mv(x) *)
Definition rmv_ (e : lexpr) (x : term) : term := snd (both e) x.     (* self.rmv(x) *)

Definition u_rmv (e : lexpr) (x : term) : term :=               (* self._rmv(x), called directly *)
  match e with
  | Leaf id cp _ => if c_rmv cp then TUrmv id x else TRaise
  | Dense m _ => TDrmul m x
  | Adj o => u_mv o x
  | Matmul a b _ => rmv_ b (rmv_ a x)
  | Add a b plus => TLet x ((if plus then TAdd else TSub) (rmv_ a TX) (rmv_ b TX))
  | Mul a f => TScale f (rmv_ a x)
  end.

Definition mv_ (e : lexpr) (x : term) : term := u_mv e x.

Definition mm_ (e : lexpr) (x : term) : term :=
  if has_mm e then match e with
                   | Leaf id _ _ => TUmm id x
                   | Dense m _ => TDmul m x
                   | _ => TRaise
                   end
  else u_mv e x.                                                (* batched _mv over the columns *)

Definition rmm_ (e : lexpr) (x : term) : term :=
  if herm e then mm_ e x
  else if has_rmm e then match e with
                         | Leaf id _ _ => TUrmm id x
                         | Dense m _ => TDrmul m x
                         | _ => TRaise
                         end
  else if has_rmv e then u_rmv e x else rmv_ e x.

Definition full_ (e : lexpr) : term :=
  if has_full e then match e with
                     | Leaf id _ _ => TUfull id
                     | Dense m _ => TDfull m
                     | _ => TRaise
                     end
  else mm_ e TX.                                                (* self.mm(eye) *)

(* ---- the simplifying constructors ---- *)
(* [dh] = the Hermitian flag LinearOperator.m(mat) re-detects numerically for a freshly built dense
   matrix (an oracle of the model: it depends on the values) *)
Definition mk_H (e : lexpr) (dh : bool) : lexpr :=
  if herm e then e
  else match e with
       | Dense m _ => Dense (MH m) dh
       | Adj o => o
       | _ => Adj e
       end.
Definition mk_matmul (a b : lexpr) (h : bool) : lexpr :=
  match a, b with
  | Dense m _, Dense n _ => Dense (MMul m n) h
  | _, _ => Matmul a b h
  end.
Definition mk_add (a b : lexpr) (plus : bool) (dh : bool) : lexpr :=
  match a, b with
  | Dense m _, Dense n _ => Dense (if plus then MAdd m n else MSub m n) dh
  | _, _ => Add a b plus
  end.
Definition mk_mul (a : lexpr) (f : Z) (dh : bool) : lexpr :=
  match a with
  | Dense m _ => Dense (MScale f m) dh
  | _ => Mul a f
  end.

Fixpoint mexp_eqb (a b : mexp) : bool :=
  match a, b with
  | MLeaf i, MLeaf j => Nat.eqb i j
  | MH x, MH y => mexp_eqb x y
  | MMul x y, MMul u v | MAdd x y, MAdd u v | MSub x y, MSub u v => mexp_eqb x u && mexp_eqb y v
  | MScale f x, MScale g y => Z.eqb f g && mexp_eqb x y
  | _, _ => false
  end.
Definition caps_eqb (a b : caps) : bool :=
  Bool.eqb (c_rmv a) (c_rmv b) && Bool.eqb (c_mm a) (c_mm b) && Bool.eqb (c_rmm a) (c_rmm b) &&
  Bool.eqb (c_full a) (c_full b).
Fixpoint lexpr_eqb (a b : lexpr) : bool :=
  match a, b with
  | Leaf i c h, Leaf j d g => Nat.eqb i j && caps_eqb c d && Bool.eqb h g
  | Dense m h, Dense n g => mexp_eqb m n && Bool.eqb h g
  | Adj x, Adj y => lexpr_eqb x y
  | Matmul x y h, Matmul u v g => lexpr_eqb x u && lexpr_eqb y v && Bool.eqb h g
  | Add x y p, Add u v q => lexpr_eqb x u && lexpr_eqb y v && Bool.eqb p q
  | Mul x f, Mul y g => lexpr_eqb x y && Z.eqb f g
  | _, _ => false
  end.

(* ---- flattening of a symbolic result into the sequence of user-level calls, in evaluation order ---- *)
Inductive ucall := CMv (id : nat) | CRmv (id : nat) | CMm (id : nat) | CRmm (id : nat) | CFull (id : nat).

Fixpoint calls (t : term) : list ucall :=
  match t with
  | TX => []
  | TUmv id t => calls t ++ [CMv id]
  | TUrmv id t => calls t ++ [CRmv id]
  | TUmm id t => calls t ++ [CMm id]
  | TUrmm id t => calls t ++ [CRmm id]
  | TUfull id => [CFull id]
  | TDmul _ t | TDrmul _ t => calls t
  | TDfull _ => []
  | TAdjTrick inner t => calls t ++ calls inner
  | TLet x b => calls x ++ calls b
  | TAdd a b | TSub a b => calls a ++ calls b
  | TScale _ a => calls a
  | TRaise => []
  end.

Fixpoint raises (t : term) : bool :=
  match t with
  | TRaise => true
  | TX | TUfull _ | TDfull _ => false
  | TUmv _ t | TUrmv _ t | TUmm _ t | TUrmm _ t | TDmul _ t | TDrmul _ t | TScale _ t => raises t
  | TAdjTrick a b | TAdd a b | TSub a b | TLet a b => raises a || raises b
  end.

Definition ucall_eqb (a b : ucall) : bool :=
  match a, b with
  | CMv i, CMv j | CRmv i, CRmv j | CMm i, CMm j | CRmm i, CRmm j | CFull i, CFull j => Nat.eqb i j
  | _, _ => false
  end.
Fixpoint ucalls_eqb (a b : list ucall) : bool :=
  match a, b with
  | [], [] => true
  | x :: r, y :: s => ucall_eqb x y && ucalls_eqb r s
  | _, _ => false
  end.

Inductive opk := OMv | ORmv | OMm | ORmm | OFull.
Definition run_op (k : opk) (e : lexpr) : term :=
  match k with
  | OMv => mv_ e TX | ORmv => rmv_ e TX | OMm => mm_ e TX | ORmm => rmm_ e TX | OFull => full_ e
  end.

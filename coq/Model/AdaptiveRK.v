(* Model of xitorch/_impls/integrate/ivp/adaptive_rk.py : rk_step, RKAdaptiveStepSolver.
   The power errnorm ** error_exponent (exponent = -1/(q+1)) is computed in the model as the
   positive real root of p^(q+1) * errnorm = 1 (bisection + Newton), because the carrier has no
   pow; the correspondence compares with a tolerance, never bit-for-bit. *)
From Coq Require Import QArith List Bool.
Import ListNotations.
From XV Require Import Base.Ops.

Section Adaptive.
  Context {T : Type} (o : ops T).
  Variable func : T -> list T -> list T.        (* self.func(t, y) on the flattened state *)
  Variables (A : list (list T)) (B C E : list T).
  Variables (atol rtol max_factor min_factor step_mult : T).
  Variable qp1 : nat.                            (* error_estimator_order + 1 *)

  Fixpoint opow (x : T) (n : nat) : T :=
    match n with O => o1 o | S m => omul o x (opow x m) end.

  (* x ** (-1/qp1) for x > 0 *)
  Fixpoint bisect (n : nat) (x lo hi : T) : T :=
    match n with
    | O => odiv o (oadd o lo hi) (ofZ o 2)
    | S m => let mid := odiv o (oadd o lo hi) (ofZ o 2) in
             (* g(p) = p^k * x is increasing in p *)
             if oltb o (omul o (opow mid qp1) x) (o1 o) then bisect m x mid hi else bisect m x lo mid
    end.
  Fixpoint newton (n : nat) (x p : T) : T :=
    match n with
    | O => p
    | S m => (* p <- p * (1 + (1 - x p^k)/k) *)
        let r := osub o (o1 o) (omul o x (opow p qp1)) in
        newton m x (omul o p (oadd o (o1 o) (odiv o r (ofZ o (Z.of_nat qp1)))))
    end.
  Definition pow_neg_inv (x : T) : T :=
    newton 4 x (bisect 200 x (odiv o (o1 o) (ofZ o (10 ^ 30))) (ofZ o (10 ^ 30))).

  (* dy = (K[:s].T @ a[:s]) * h *)
  Fixpoint lincomb (ws : list T) (K : list (list T)) (n : nat) : list T :=
    match ws, K with
    | w :: wr, k :: kr => vadd o (vscale o w k) (lincomb wr kr n)
    | _, _ => vzeros o n
    end.
  (* matmul sums left to right over the stage index; modelled as such (tolerance in the tie) *)
  Fixpoint lincomb_l (ws : list T) (K : list (list T)) (acc : list T) : list T :=
    match ws, K with
    | w :: wr, k :: kr => lincomb_l wr kr (vadd o acc (vscale o w k))
    | _, _ => acc
    end.
  Definition comb (ws : list T) (K : list (list T)) (n : nat) : list T := lincomb_l ws K (vzeros o n).

  Definition vscale_r (v : list T) (h : T) : list T := map (fun x => omul o x h) v.

  (* stages s = 1 .. n_stages-1 *)
  Fixpoint rk_stages (s : nat) (arows : list (list T)) (cs : list T) (t : T) (y : list T) (h : T)
           (K : list (list T)) : list (list T) * list (T * list T) :=
    match arows, cs with
    | a :: ar, c :: cr =>
        let dy := vscale_r (comb (firstn s a) K (length y)) h in
        let targ := oadd o t (omul o c h) in
        let yarg := vadd o y dy in
        let k := func targ yarg in
        let '(K', calls) := rk_stages (S s) ar cr t y h (K ++ [k]) in
        (K', (targ, yarg) :: calls)
    | _, _ => (K, [])
    end.

  Definition rk_step (t : T) (y f : list T) (h : T) :=
    let '(K, calls) := rk_stages 1 (tl A) (tl C) t y h [f] in
    let ynew := vadd o y (vscale o h (comb B K (length y))) in
    let tnew := oadd o t h in
    let fnew := func tnew ynew in
    (ynew, fnew, K ++ [fnew], calls ++ [(tnew, ynew)]).

  Definition error_norm (K : list (list T)) (h : T) (n : nat) : T :=
    vnorm o (vscale_r (comb E K n) h).

  Definition omax (a b : T) : T := if oltb o a b then b else a.
  Definition omin (a b : T) : T := if oltb o b a then b else a.

  Record astate := mkA { s_f : list T; s_t : T; s_y : list T; s_h : T }.

  (* one pass of the `while not accepted` loop body; returns the decision and the margin *)
  Record attempt := mkAt {
    at_t1_achieved : bool; at_accepted : bool; at_errnorm : T; at_hstep : T;
    at_dt1 : T;               (* (t0 + h) - t1 : distance of the clip decision from its threshold *)
    at_errraw : T; at_ymax : T;  (* unscaled error estimate and max(|y0|,|ynew|): noise detection in the tie *)
    at_state : astate;        (* (fnew, tnew, ynew, h') *)
    at_calls : list (T * list T) }.

  Definition try_step (st : astate) (t1 : T) (prev_rejected : bool) : attempt :=
    let '(mkA f0 t0 y0 h) := st in
    let t1_achieved := oltb o t1 (oadd o t0 h) in             (* t0 + h > t1 *)
    let hstep := if t1_achieved then osub o t1 t0 else h in
    let '(ynew, fnew, K, calls) := rk_step t0 y0 f0 hstep in
    let scale := oadd o atol (omul o (omax (vnorm o y0) (vnorm o ynew)) rtol) in
    let errraw := error_norm K hstep (length y0) in
    let errnorm := odiv o errraw scale in
    let accepted := oltb o errnorm (o1 o) in
    let h' :=
      if accepted && negb t1_achieved then
        let factor := if oeqb o errnorm (o0 o) then max_factor
                      else omin max_factor (omul o step_mult (pow_neg_inv errnorm)) in
        let factor := if prev_rejected then omin (o1 o) factor else factor in
        omul o h factor
      else if negb accepted then
        omul o hstep (omax min_factor (omul o step_mult (pow_neg_inv errnorm)))
      else h in
    mkAt t1_achieved accepted errnorm hstep (osub o (oadd o t0 h) t1) errraw (omax (vnorm o y0) (vnorm o ynew))
         (mkA fnew (oadd o t0 hstep) ynew h') calls.

  (* _single_step: repeat until accepted.  Fuel bounds the number of rejections. *)
  Fixpoint single_step (fuel : nat) (st : astate) (t1 : T) (prev_rejected : bool)
    : option (astate * bool) * list attempt :=
    match fuel with
    | O => (None, [])
    | S n =>
        let a := try_step st t1 prev_rejected in
        if at_accepted a then (Some (at_state a, at_t1_achieved a), [a])
        else
          (* rejected: same (f0,t0,y0), new h *)
          let st' := mkA (s_f st) (s_t st) (s_y st) (s_h (at_state a)) in
          let '(r, l) := single_step n st' t1 true in (r, a :: l)
    end.

  (* _step: repeat _single_step until t1 is reached *)
  Fixpoint step_to (fuel : nat) (st : astate) (t1 : T) : option astate * list attempt :=
    match fuel with
    | O => (None, [])
    | S n =>
        match single_step 60 st t1 false with
        | (Some (st', true), l) => (Some st', l)
        | (Some (st', false), l) => let '(r, l') := step_to n st' t1 in (r, l ++ l')
        | (None, l) => (None, l)
        end
    end.

  Fixpoint solve_loop (fuel : nat) (st : astate) (ts : list T) : option (list (list T)) * list attempt :=
    match ts with
    | [] => (Some [], [])
    | t1 :: rest =>
        match step_to fuel st t1 with
        | (Some st', l) =>
            match solve_loop fuel st' rest with
            | (Some ys, l') => (Some (s_y st' :: ys), l ++ l')
            | (None, l') => (None, l ++ l')
            end
        | (None, l) => (None, l)
        end
    end.

  (* solve(): ts increasing (setup() has already negated a decreasing grid) *)
  Definition adaptive_solve (fuel : nat) (ts : list T) (y0 : list T) :=
    match ts with
    | t0 :: ((t1 :: _) as rest) =>
        let f0 := func t0 y0 in
        let h0 := osub o t1 t0 in
        match solve_loop fuel (mkA f0 t0 y0 h0) rest with
        | (Some ys, l) => (Some (y0 :: ys), l)
        | (None, l) => (None, l)
        end
    | _ => (None, [])
    end.
End Adaptive.

(* setup(): direction handling *)
Definition adaptive_entry {T} (o : ops T) (fcn : T -> list T -> list T)
           (A : list (list T)) (B C E : list T) (atol rtol maxf minf smult : T) (qp1 fuel : nat)
           (ts : list T) (y0 : list T) :=
  match ts with
  | t0 :: t1 :: _ =>
      if oltb o (osub o t1 t0) (o0 o)
      then adaptive_solve o (fun t y => vopp o (fcn (oopp o t) y)) A B C E atol rtol maxf minf smult qp1 fuel
                          (map (oopp o) ts) y0
      else adaptive_solve o fcn A B C E atol rtol maxf minf smult qp1 fuel ts y0
  | _ => (None, [])
  end.

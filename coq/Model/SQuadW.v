(* Model of xitorch/_impls/integrate/samples_quad.py: the cumulative weight matrices of TrapzSQuad,
   SimpsonSQuad and CubicSplineSQuad, entry by entry in the order the source's loops accumulate them. *)
From Coq Require Import List Bool Arith ZArith.
Import ListNotations.
From XV Require Import Base.Ops Base.LinAlg Model.Interp.

Section SQuadW.
  Context {T : Type} (o : ops T).
  Notation "a +' b" := (oadd o a b) (at level 50, left associativity).
  Notation "a -' b" := (osub o a b) (at level 50, left associativity).
  Notation "a *' b" := (omul o a b) (at level 40, left associativity).
  Notation "a /' b" := (odiv o a b) (at level 40, left associativity).
  Definition cz (z : Z) := ofZ o z.
  Definition chalf := odiv o (o1 o) (cz 2).

  Definition mk (n : nat) (f : nat -> nat -> T) : list (list T) :=
    map (fun r => map (fun c => f r c) (seq 0 n)) (seq 0 n).
  (* python float 0.0 accumulators: `0 + a` is exact *)
  Definition acc (cur : option T) (v : T) : option T :=
    Some (match cur with None => o0 o +' v | Some a => a +' v end).
  Definition fin (cur : option T) : T := match cur with None => o0 o | Some a => a end.

  Definition trapz_weights (x : list T) : list (list T) :=
    let n := length x in
    let half := map (fun d => d *' chalf) (diffs o x) in
    mk n (fun r c =>
      let a := if (1 <=? c) && (c <=? r) then acc None (nthT o half (pred c)) else None in
      let a := if S c <=? r then acc a (nthT o half c) else a in
      fin a).

  Definition cspline_grad_weights (x : list T) : list (list T) :=
    let n := length x in
    let dxf := map (fun d => d *' d /' cz 12) (diffs o x) in
    mk n (fun r c =>
      let a := if (1 <=? c) && (c <=? r) then acc None (nthT o dxf (pred c) *' oopp o (o1 o)) else None in
      let a := if S c <=? r then acc a (nthT o dxf c *' o1 o) else a in
      fin a).

  Definition simpson_weights (x : list T) : list (list T) :=
    let n := length x in
    let h := diffs o x in
    let H := nthT o h in
    (* pair j (even index i = 2j+2): h0 = h[2j], h1 = h[2j+1] *)
    let alpha := fun j => let h0 := H (2 * j) in let h1 := H (2 * j + 1) in
       (cz 2 *' (h1 *' h1 *' h1) -' h0 *' h0 *' h0 +' cz 3 *' h0 *' (h1 *' h1)) /' (cz 6 *' h1 *' (h1 +' h0)) in
    let eta := fun j => let h0 := H (2 * j) in let h1 := H (2 * j + 1) in
       (cz 2 *' (h0 *' h0 *' h0) -' h1 *' h1 *' h1 +' cz 3 *' h1 *' (h0 *' h0)) /' (cz 6 *' h0 *' (h1 +' h0)) in
    let beta := fun j => let h0 := H (2 * j) in let h1 := H (2 * j + 1) in
       (h1 *' h1 *' h1 +' h0 *' h0 *' h0 +' cz 3 *' h1 *' h0 *' (h1 +' h0)) /' (cz 6 *' h1 *' h0) in
    (* odd index i = 2j+3: hN1 = h[2j+2], hN2 = h[2j+1] *)
    let alpha_l := fun j => let a := H (2 * j + 2) in let b := H (2 * j + 1) in
       (cz 2 *' a *' a +' cz 3 *' a *' b) /' (cz 6 *' (a +' b)) in
    let eta_l := fun j => let a := H (2 * j + 2) in let b := H (2 * j + 1) in
       a *' a *' a /' (cz 6 *' b *' (a +' b)) in
    let beta_l := fun j => let a := H (2 * j + 2) in let b := H (2 * j + 1) in
       (a *' a +' cz 3 *' a *' b) /' (cz 6 *' b) in
    mk n (fun r c =>
      if Nat.eqb r 1 then (if c <? 2 then chalf *' H 0 else o0 o)      (* res[1, :2] = 0.5 * h[0]; rest of row 1 is 0 *)
      else
        let even_c := Nat.even c in
        (* even loops, increasing i *)
        let a :=
          if even_c then
            let a1 := if (2 <=? c) && (c <=? r) then acc None (alpha (c / 2 - 1)) else None in
            if (c + 2 <=? r) && (c + 2 <? n) then acc a1 (eta (c / 2)) else a1
          else
            if (c + 1 <=? r) && (c + 1 <? n) then acc None (beta ((c + 1) / 2 - 1)) else None in
        (* odd-row correction *)
        let a :=
          if Nat.odd r && (3 <=? r) then
            let j := r / 2 - 1 in
            if Nat.eqb c (r - 2) then acc a (oopp o (eta_l j))
            else if Nat.eqb c (r - 1) then acc a (beta_l j)
            else if Nat.eqb c r then acc a (alpha_l j) else a
          else a in
        fin a).

  (* cumsum of CubicSplineSQuad: wk (spline_mat_inv y) + wy y *)
  Definition cspline_cumsum (x y : list T) (b : bc) : option (list T) :=
    match spline_ks o x y b with
    | Some ks => Some (vadd o (mvec o (cspline_grad_weights x) ks) (mvec o (trapz_weights x) y))
    | None => None
    end.
End SQuadW.

(* Model of xitorch/_impls/linalg/solve.py : cg and bicgstab (no preconditioner, after fix F15).
   A block of right-hand sides is a list of columns; every column has its own scalars (alpha, beta,
   omega, rho), exactly as the (1, ncols)-shaped tensors of the source; the stopping test is over all
   columns, the best iterate is chosen by the maximum column norm. *)
From Coq Require Import List Bool Arith ZArith.
Import ListNotations.
From XV Require Import Base.Ops.

Section Krylov.
  Context {T : Type} (o : ops T).
  Notation "a +' b" := (oadd o a b) (at level 50, left associativity).
  Notation "a -' b" := (osub o a b) (at level 50, left associativity).
  Notation "a *' b" := (omul o a b) (at level 40, left associativity).
  Notation "a /' b" := (odiv o a b) (at level 40, left associativity).

  Variable Afs : list (list T -> list T).     (* A_fcn restricted to column j (shift e_j included) *)
  Variable eps : T.
  Definition safedenom (r : T) : T := if oeqb o r (o0 o) then eps else r.
  Definition omaxl (l : list T) : T := fold_left (fun a b => if oltb o a b then b else a) l (o0 o).
  Definition Aapp (xs : list (list T)) : list (list T) := map (fun p => fst p (snd p)) (combine Afs xs).

  (* ---------- conjugate gradient ---------- *)
  Record cgcol := mkCg { c_x : list T; c_r : list T; c_p : list T; c_rz : T }.
  Record cgout := mkCgOut { co_x : list (list T); co_warned : bool; co_iters : nat;
                            co_resid : list T (* carried residual norms of the returned iterate *) }.

  Definition cg_col_step (recalc : bool) (Af : list T -> list T) (b : list T) (c : cgcol) : cgcol * list T :=
    let Apk := Af (c_p c) in
    let alphak := c_rz c /' safedenom (vdot o (c_p c) Apk) in
    let xk1 := vadd o (c_x c) (vscale o alphak (c_p c)) in
    let rk1 := if recalc then vsub o b (Af xk1) else vsub o (c_r c) (vscale o alphak Apk) in
    (mkCg xk1 rk1 (c_p c) (c_rz c), rk1).
  Definition cg_col_next (c : cgcol) : cgcol :=
    let rz1 := vdot o (c_r c) (c_r c) in
    let betak := rz1 /' safedenom (c_rz c) in
    mkCg (c_x c) (c_r c) (vadd o (c_r c) (vscale o betak (c_p c))) rz1.

  Fixpoint cg_loop (fuel k : nat) (every : nat) (bs : list (list T)) (stops : list T)
           (cols : list cgcol) (best_resid : T) (best_x : list (list T)) : cgout :=
    match fuel with
    | O => mkCgOut best_x true (pred k) []
    | S n =>
        let recalc := negb (Nat.eqb every 0) && Nat.eqb (Nat.modulo k every) 0 in
        let stepped := map (fun t => cg_col_step recalc (fst (fst t)) (snd (fst t)) (snd t))
                           (combine (combine Afs bs) cols) in
        let cols1 := map fst stepped in
        let norms := map (fun s => vnorm o (snd s)) stepped in
        let mx := omaxl norms in
        let better := oltb o mx best_resid in
        let best_resid' := if better then mx else best_resid in
        let best_x' := if better then map c_x cols1 else best_x in
        if forallb (fun p => oltb o (fst p) (snd p)) (combine norms stops)
        then mkCgOut (map c_x cols1) false k norms
        else cg_loop n (S k) every bs stops (map cg_col_next cols1) best_resid' best_x'
    end.

  Definition cg (max_niter every : nat) (rtol atol : T) (bs : list (list T)) : cgout :=
    let stops := map (fun b => let t := rtol *' vnorm o b in if oltb o t atol then atol else t) bs in
    let x0 := map (fun b => map (fun _ => o0 o) b) bs in
    let r0 := map (fun p => vsub o (fst p) (snd p)) (combine bs (Aapp x0)) in
    let cols := map (fun p => mkCg (fst p) (snd p) (snd p) (vdot o (snd p) (snd p))) (combine x0 r0) in
    cg_loop max_niter 1 every bs stops cols (omaxl (map (vnorm o) r0)) x0.

  (* ---------- BiCGSTAB ---------- *)
  Record bccol := mkBc { b_x : list T; b_r : list T; b_r0 : list T; b_rho : T; b_omega : T;
                         b_alpha : T; b_v : list T; b_p : list T }.

  Definition bc_col_step (recalc : bool) (Af : list T -> list T) (b : list T) (c : bccol) : bccol :=
    let rho_new := vdot o (b_r0 c) (b_r c) in
    let omega_d := safedenom (b_omega c) in          (* _safedenom writes eps into omega_k itself *)
    let rho_d := safedenom (b_rho c) in
    let beta := rho_new /' rho_d *' (b_alpha c /' omega_d) in
    let pk := vadd o (b_r c) (vscale o beta (vsub o (b_p c) (vscale o omega_d (b_v c)))) in
    let vk := Af pk in
    let alpha := rho_new /' safedenom (vdot o (b_r0 c) vk) in
    let h := vadd o (b_x c) (vscale o alpha pk) in
    let s := vsub o (b_r c) (vscale o alpha vk) in
    let t := Af s in
    let omega := vdot o t s /' safedenom (vdot o t t) in
    let xk := vadd o h (vscale o omega s) in
    let rk := if recalc then vsub o b (Af xk) else vsub o s (vscale o omega t) in
    mkBc xk rk (b_r0 c) rho_new omega alpha vk pk.

  Fixpoint bc_loop (fuel k : nat) (every : nat) (bs : list (list T)) (stops : list T)
           (cols : list bccol) (best_resid : T) (best_x : list (list T)) : cgout :=
    match fuel with
    | O => mkCgOut best_x true (pred k) []
    | S n =>
        let recalc := negb (Nat.eqb every 0) && Nat.eqb (Nat.modulo k every) 0 in
        let cols1 := map (fun t => bc_col_step recalc (fst (fst t)) (snd (fst t)) (snd t))
                         (combine (combine Afs bs) cols) in
        let norms := map (fun c => vnorm o (b_r c)) cols1 in
        let mx := omaxl norms in
        let better := oltb o mx best_resid in
        let best_resid' := if better then mx else best_resid in
        let best_x' := if better then map b_x cols1 else best_x in
        if forallb (fun p => oltb o (fst p) (snd p)) (combine norms stops)
        then mkCgOut (map b_x cols1) false k norms
        else bc_loop n (S k) every bs stops cols1 best_resid' best_x'
    end.

  Definition bicgstab (max_niter every : nat) (rtol atol : T) (bs : list (list T)) : cgout :=
    let stops := map (fun b => let t := rtol *' vnorm o b in if oltb o t atol then atol else t) bs in
    let x0 := map (fun b => map (fun _ => o0 o) b) bs in
    let r0 := map (fun p => vsub o (fst p) (snd p)) (combine bs (Aapp x0)) in
    let zero := fun (b : list T) => map (fun _ => o0 o) b in
    let cols := map (fun p => mkBc (fst p) (snd p) (snd p) (vdot o (snd p) (snd p)) (o1 o) (o1 o)
                                   (zero (snd p)) (zero (snd p))) (combine x0 r0) in
    bc_loop max_niter 1 every bs stops cols (omaxl (map (vnorm o) r0)) x0.
End Krylov.

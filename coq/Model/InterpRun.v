(* float-instance drivers for the C14 / C15 correspondence *)
From Coq Require Import List Bool Arith ZArith PrimFloat.
Import ListNotations.
From XV Require Import Base.Ops Base.LinAlg Model.Interp Model.SQuadW.

Definition interp_linear (many : bool) (x y qs : list float) : list float :=
  map (fun q => if many then linear_many Fops x y q else linear_few Fops x y q) qs.
Definition interp_cubic (many : bool) (b : bc) (x y qs : list float) : option (list float) :=
  match spline_ks Fops x y b with
  | Some ks => Some (map (fun q => if many then cubic_many Fops x y ks q else cubic_few Fops x y ks q) qs)
  | None => None
  end.

Definition linear_ok (many : bool) (x y qs expected : list float) (rt at_ : float) : bool :=
  vclose rt at_ (interp_linear many x y qs) expected.
Definition cubic_ok (many : bool) (b : bc) (x y qs expected : list float) (rt at_ : float) : bool :=
  match interp_cubic many b x y qs with Some v => vclose rt at_ v expected | None => false end.

(* extrapolated positions: the harness supplies floor values; the model validates and maps them *)
Definition extrap_ok (m : emode) (xmin xmax : float) (qs ks : list float) (odd : list bool)
           (expected : list float) : bool :=
  let xq := fun q => PrimFloat.div (PrimFloat.sub q xmin) (PrimFloat.sub xmax xmin) in
  forallb (fun p => let '(q, k, _) := p in
                    match m with
                    | EPeriodic => floor_ok Fops (xq q) k
                    | EMirror => floor_ok Fops (PrimFloat.abs (xq q)) k
                    | EBound => true
                    end) (combine (combine qs ks) odd) &&
  vbits_eq (map (fun p => let '(q, k, od) := p in extrap_pos Fops m xmin xmax q k od) (combine (combine qs ks) odd)) expected.

Fixpoint mat_bits (a b : list (list float)) : bool :=
  match a, b with
  | [], [] => true
  | r :: ar, s :: bs => vbits_eq r s && mat_bits ar bs
  | _, _ => false
  end.
Fixpoint mat_close (rt at_ : float) (a b : list (list float)) : bool :=
  match a, b with
  | [], [] => true
  | r :: ar, s :: bs => vclose rt at_ r s && mat_close rt at_ ar bs
  | _, _ => false
  end.
Definition trapz_ok (x : list float) (w : list (list float)) : bool := mat_bits (trapz_weights Fops x) w.
Definition simpson_ok (x : list float) (w : list (list float)) : bool := mat_bits (simpson_weights Fops x) w.
Definition csplinew_ok (x : list float) (w : list (list float)) : bool := mat_bits (cspline_grad_weights Fops x) w.
Definition cspline_cumsum_ok (b : bc) (x y expected : list float) (rt at_ : float) : bool :=
  match cspline_cumsum Fops x y b with Some v => vclose rt at_ v expected | None => false end.

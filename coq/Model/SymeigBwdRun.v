(* float / complex drivers for the C06 correspondence *)
From Coq Require Import List Bool Arith PrimFloat.
Import ListNotations.
From XV Require Import Base.Ops Base.Cplx Base.LinAlg Model.Symeig Model.SymeigRun Model.SymeigBwd.

Section Run.
  Context {T : Type} (o : ops T) (cj : T -> T) (mag : T -> float).
  Local Notation mat := (list (list T)).

  (* implicit backward: 1 agree; 100 + bits: 1 degeneracy flag, 2 right-hand side of solve, 4 grad A, 8 grad M *)
  Definition bwd_code (tol : float) (atol rtol half : T) (use_degen useM : bool) (M : mat) (evals : list T) (evecs : mat)
             (g_evals : list T) (g_evecs : mat) (impl_degenerate : bool) (spied_rhs solved gA gM : mat) : nat :=
    let '(Dm, rhs) := bwd_rhs o cj atol rtol use_degen useM M evals evecs g_evecs in
    let r := bwd_finish o cj half Dm useM M evals evecs g_evals g_evecs solved in
    let d_ok := Bool.eqb (match Dm with Some _ => true | None => false end) impl_degenerate in
    let rhs_ok := mclose o mag tol rhs spied_rhs in
    let a_ok := mclose o mag tol (bo_gA r) gA in
    let m_ok := if useM then mclose o mag tol (bo_gM r) gM else true in
    if d_ok && rhs_ok && a_ok && m_ok then 1
    else 100 + (if d_ok then 0 else 1) + (if rhs_ok then 0 else 2) + (if a_ok then 0 else 4) + (if m_ok then 0 else 8).

  (* a gap of the spectrum within a factor 2 of the degeneracy threshold: the map could flip *)
  Definition degen_margin (atol rtol : T) (evals : list T) : bool :=
    let two := oadd o (o1 o) (o1 o) in
    let a := fst (check_degen o (odiv o atol two) (odiv o rtol two) evals) in
    let b := fst (check_degen o (omul o atol two) (omul o rtol two) evals) in
    negb (PrimFloat.eqb (mdist o mag a b) 0%float).

  Definition degen_code (tol : float) (thr half : T) (eival : list T) (eivec : mat) (g_eival : list T) (g_eivec : mat)
             (impl : mat) : nat :=
    if mclose o mag tol (degen_bwd o cj thr half eival eivec g_eival g_eivec) impl then 1 else 0.
End Run.

(* binary64 driver for the C08 correspondence *)
From Coq Require Import List Bool Arith PrimFloat QArith.
Import ListNotations.
From XV Require Import Base.Ops Model.ExplicitRK Model.Quad Model.IvpBwd.

Definition near1 (tol a b : float) : bool :=
  PrimFloat.leb (PrimFloat.abs (PrimFloat.sub a b)) (PrimFloat.mul tol (PrimFloat.add 1 (PrimFloat.abs b))).
Fixpoint lclose (tol : float) (u v : list float) : bool :=
  match u, v with
  | [], [] => true
  | a :: r, b :: s => near1 tol a b && lclose tol r s
  | _, _ => false
  end.
Fixpoint llclose (tol : float) (u v : list (list float)) : bool :=
  match u, v with
  | [], [] => true
  | a :: r, b :: s => lclose tol a b && llclose tol r s
  | _, _ => false
  end.

Definition fval (fs : list fexp) (y : list float) (t : float) (p : list float) : list float :=
  map (fun e => feval Fops e 0%float (y ++ [t] ++ p)) fs.

(* 1 agree; 100 + bits: 1 inputs of the nested solves, 2 augmented field, 4 grad y0, 8 grad ts, 16 grad p *)
Definition ivp_code (tol : float) (fs : list fexp) (ny np : nat) (ts : list float) (yt gyt : list (list float))
           (p : list float) (ts_grad : bool) (outs : list (@seg_out float)) (sp_inputs sp_fields : list (list float))
           (gy0 gts gp : list float) : nat :=
  let fvals := map (fun ty : float * list float => fval fs (snd ty) (fst ty) p) (combine ts yt) in
  let r := backward Fops ts_grad np yt gyt fvals outs in
  let in_ok := llclose tol (br_inputs r) sp_inputs in
  let tsr := rev ts in
  let fields := map (fun ti : float * list float =>
                       let s := snd ti in
                       aug_flat Fops fs ny np (firstn ny s) (fst ti) p (firstn ny (skipn ny s))) (combine tsr sp_inputs) in
  let fld_ok := llclose tol fields sp_fields in
  let y_ok := lclose tol (br_y0 r) gy0 in
  let t_ok := lclose tol (br_ts r) gts in
  let p_ok := lclose tol (br_p r) gp in
  if in_ok && fld_ok && y_ok && t_ok && p_ok then 1
  else 100 + (if in_ok then 0 else 1) + (if fld_ok then 0 else 2) + (if y_ok then 0 else 4) + (if t_ok then 0 else 8)
           + (if p_ok then 0 else 16).

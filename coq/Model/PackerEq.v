(* boolean equality on Packer results, used by the correspondence check *)
From Coq Require Import List Arith ZArith Bool.
Import ListNotations.
From XV Require Import Model.Packer.

Fixpoint list_eqb {A} (e : A -> A -> bool) (a b : list A) : bool :=
  match a, b with
  | [], [] => true
  | x :: r, y :: s => e x y && list_eqb e r s
  | _, _ => false
  end.

Definition tens_eqb (a b : tens) : bool :=
  Nat.eqb (tid a) (tid b) && list_eqb Nat.eqb (tshape a) (tshape b) && list_eqb Z.eqb (tdata a) (tdata b).

Fixpoint node_eqb (a b : node) {struct a} : bool :=
  match a, b with
  | NTens x, NTens y => tens_eqb x y
  | NList l, NList m =>
      (fix go (l m : list node) : bool :=
         match l, m with
         | [], [] => true
         | x :: r, y :: s => node_eqb x y && go r s
         | _, _ => false
         end) l m
  | NDict l, NDict m =>
      (fix go (l : list (nat * node)) (m : list (nat * node)) : bool :=
         match l, m with
         | [], [] => true
         | (k, x) :: r, (k', y) :: s => Nat.eqb k k' && node_eqb x y && go r s
         | _, _ => false
         end) l m
  | NObj l, NObj m =>
      (fix go (l : list (nat * node)) (m : list (nat * node)) : bool :=
         match l, m with
         | [], [] => true
         | (k, x) :: r, (k', y) :: s => Nat.eqb k k' && node_eqb x y && go r s
         | _, _ => false
         end) l m
  | NTup l, NTup m =>
      (fix go (l m : list node) : bool :=
         match l, m with
         | [], [] => true
         | x :: r, y :: s => node_eqb x y && go r s
         | _, _ => false
         end) l m
  | NLeaf x, NLeaf y => Z.eqb x y
  | _, _ => false
  end.

Definition result_eqb (a b : result) : bool :=
  match a, b with
  | RErr ErrRuntime, RErr ErrRuntime => true
  | RErr ErrAssert, RErr ErrAssert => true
  | RNone, RNone => true
  | RTensors l, RTensors m => list_eqb tens_eqb l m
  | RTensor x, RTensor y => tens_eqb x y
  | RObj x, RObj y => node_eqb x y
  | _, _ => false
  end.

Definition case_ok (obj : node) (ops : list op) (expected : list result) : bool :=
  list_eqb result_eqb (run (packer_init obj) ops) expected.

(* Model of xitorch/_impls/integrate/ivp/explicit_rk.py : explicit_rk, statement by statement.
   State = list T (flattened tensor), operations pointwise. *)
From Coq Require Import QArith List Bool.
Import ListNotations.
From XV Require Import Base.Ops.

Section ExplicitRK.
  Context {T : Type} (o : ops T).
  Variable f : T -> list T -> list T.           (* fcn(t, y, *params) *)
  Variables (c b : list T) (a : list (list T)).  (* the tableau, already in the carrier *)

  (* ak = 0.0; for m in range(j): ak = aj[m] * ks[m] + ak      ("0.0 + tensor" is exact) *)
  Fixpoint accum_ak (aj : list T) (ks : list (list T)) (ak : option (list T)) : option (list T) :=
    match aj, ks with
    | am :: ar, k :: kr =>
        let term := vscale o am k in
        accum_ak ar kr (Some (match ak with None => term | Some v => vadd o term v end))
    | _, _ => ak
    end.

  (* the loop over stages j = 0 .. s-1; [ks] holds k_0..k_{j-1} in order, [ksum] the running
     weighted sum (None = the python float 0.0) *)
  Fixpoint stages (j : nat) (cs bs : list T) (arows : list (list T)) (t0 h : T) (y : list T)
           (ks : list (list T)) (ksum : option (list T)) : option (list T) * list (T * list T) :=
    match cs, bs, arows with
    | cj :: cr, bj :: br, aj :: ar =>
        let '(targ, yarg) :=
          match j with
          | O => (t0, y)
          | S _ => let ak := match accum_ak (firstn j aj) ks None with
                             | Some v => v | None => map (fun _ => o0 o) y end in
                   (oadd o t0 (omul o cj h), vadd o (vscale o h ak) y)
          end in
        let k := f targ yarg in
        let term := vscale o bj k in
        let ksum' := Some (match ksum with None => term | Some v => vadd o v term end) in
        let '(res, calls) := stages (S j) cr br ar t0 h y (ks ++ [k]) ksum' in
        (res, (targ, yarg) :: calls)
    | _, _, _ => (ksum, [])
    end.

  Definition rk_step1 (t0 t1 : T) (y : list T) : list T * list (T * list T) :=
    let h := osub o t1 t0 in
    let '(ksum, calls) := stages 0 c b a t0 h y [] None in
    (match ksum with Some v => vadd o (vscale o h v) y | None => y end, calls).

  (* for i in range(nt-1): ... ; returns the list of states (first = y0) and the calls of fcn *)
  Fixpoint rk_loop (ts : list T) (y : list T) : list (list T) * list (T * list T) :=
    match ts with
    | t0 :: ((t1 :: _) as rest) =>
        let '(y', calls) := rk_step1 t0 t1 y in
        let '(ys, calls') := rk_loop rest y' in
        (y' :: ys, calls ++ calls')
    | _ => ([], [])
    end.

  Definition explicit_rk (ts : list T) (y0 : list T) : list (list T) * list (T * list T) :=
    let '(ys, calls) := rk_loop ts y0 in (y0 :: ys, calls).
End ExplicitRK.

(* ---- a small language of vector fields, evaluated identically by the harness in torch ---- *)
Inductive fexp :=
| FT                       (* t *)
| FY (i : nat)             (* y[i] *)
| FC (q : Q)               (* constant (an exactly representable dyadic in the harness) *)
| FAdd (x y : fexp) | FSub (x y : fexp) | FMul (x y : fexp).

Section Field.
  Context {T : Type} (o : ops T).
  Fixpoint feval (e : fexp) (t : T) (y : list T) : T :=
    match e with
    | FT => t
    | FY i => nth i y (o0 o)
    | FC q => ofQ o q
    | FAdd x z => oadd o (feval x t y) (feval z t y)
    | FSub x z => osub o (feval x t y) (feval z t y)
    | FMul x z => omul o (feval x t y) (feval z t y)
    end.
  Definition field (es : list fexp) (t : T) (y : list T) : list T := map (fun e => feval e t y) es.
End Field.

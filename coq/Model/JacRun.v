(* float-instance drivers for C04 (implicit gradients) and C17 (jac / hess products).
   A function is a list of expressions over the variables y_0.. (FY i); the first [ny] variables are the
   point, the remaining ones the parameters. *)
From Coq Require Import List Bool Arith ZArith PrimFloat QArith.
Import ListNotations.
From XV Require Import Base.Ops Base.LinAlg Model.ExplicitRK Model.Quad Model.InterpRun Model.KrylovRun.

Definition ev (e : fexp) (vars : list float) : float := feval Fops e 0%float vars.

(* J[i][j] = d f_i / d var_(off + j), j < n *)
Definition jacobian (fs : list fexp) (vars : list float) (off n : nat) : list (list float) :=
  map (fun f => map (fun j => ev (dfexp (off + j) f) vars) (seq 0 n)) fs.
Definition hessian (phi : fexp) (vars : list float) (off n : nat) : list (list float) :=
  map (fun i => map (fun j => ev (dfexp (off + j) (dfexp (off + i) phi)) vars) (seq 0 n)) (seq 0 n).

(* C17 *)
Definition jac_ok (fs : list fexp) (vars : list float) (off n : nat) (u g : list float)
           (mv rmv : list float) (full : list (list float)) : bool :=
  let J := jacobian fs vars off n in
  vclose 0x1p-40 0x1p-44 (mvec Fops J u) mv && vclose 0x1p-40 0x1p-44 (mvec Fops (transpose Fops J) g) rmv &&
  mat_close 0x1p-40 0x1p-44 J full.
Definition hess_ok (phi : fexp) (vars : list float) (off n : nat) (u : list float)
           (mv rmv : list float) (full : list (list float)) : bool :=
  let H := hessian phi vars off n in
  vclose 0x1p-40 0x1p-44 (mvec Fops H u) mv && vclose 0x1p-40 0x1p-44 (mvec Fops (transpose Fops H) u) rmv &&
  mat_close 0x1p-40 0x1p-44 H full.

(* C04: gradient of <G, y*(theta)> = P^T g with J^T g = -G, at the returned point *)
Definition ift_grad (fs : list fexp) (ystar theta G : list float) : option (list float) :=
  let vars := ystar ++ theta in
  let ny := length ystar in
  let J := jacobian fs vars 0 ny in
  let P := jacobian fs vars ny (length theta) in
  match solve_vec Fops (transpose Fops J) (map PrimFloat.opp G) with
  | Some g => Some (mvec Fops (transpose Fops P) g)
  | None => None
  end.
Definition ift_ok (fs : list fexp) (ystar theta G grad : list float) (rt at_ : float) : bool :=
  match ift_grad fs ystar theta G with Some v => vclose rt at_ v grad | None => false end.

(* Model of method-name dispatch: xitorch/_utils/misc.py get_method and the code in front of
   it in every functional (after the fixes F10/F10b).  The name tables themselves are NOT
   written here: they are regenerated from /repo into Gen/MethodTables.v on every run. *)
From Coq Require Import String Ascii List Bool Arith.
Import ListNotations.
Open Scope string_scope.

(* str.lower() on ASCII names *)
Definition lower_ascii (c : ascii) : ascii :=
  let n := nat_of_ascii c in
  if ((65 <=? n) && (n <=? 90))%nat then ascii_of_nat (n + 32) else c.
Fixpoint lower (s : string) : string :=
  match s with
  | EmptyString => EmptyString
  | String c r => String (lower_ascii c) (lower r)
  end.

Definition table := list (string * string).        (* key -> implementation name *)

Fixpoint tlookup (k : string) (t : table) : option string :=
  match t with
  | [] => None
  | (k', v) :: r => if String.eqb k k' then Some v else tlookup k r
  end.
Definition tmem (k : string) (t : table) : bool :=
  match tlookup k t with Some _ => true | None => false end.

(* what the caller passes as `method` *)
Inductive meth :=
| MNone
| MStr (s : string)
| MCall (id : nat)        (* any callable *)
| MOther.                 (* neither str nor callable nor None, e.g. 3 *)

Inductive outcome :=
| Direct (name : string)             (* a short-cut taken before the table (exactsolve, exacteig) *)
| Ran (family impl : string)         (* table entry that runs; family = algorithm family *)
| Custom (family : string) (id : nat)(* the caller's callable runs *)
| ErrUnknown                         (* RuntimeError("Unknown ... method") *)
| ErrType                            (* TypeError *)
| ErrAssert.                         (* get_method(None): internal assertion *)

(* _utils/misc.py get_method *)
Definition get_method (family : string) (t : table) (m : meth) : outcome :=
  match m with
  | MStr s => match tlookup (lower s) t with
              | Some impl => Ran family impl
              | None => ErrUnknown
              end
  | MCall i => Custom family i
  | MNone => ErrAssert
  | MOther => ErrType
  end.

Definition with_default (d : string) (m : meth) : meth :=
  match m with MNone => MStr d | _ => m end.

(* the entry code lower-cases strings before its own comparisons (fix F10) *)
Definition lower_meth (m : meth) : meth :=
  match m with MStr s => MStr (lower s) | _ => m end.

Definition is_name (m : meth) (n : string) : bool :=
  match m with MStr s => String.eqb s n | _ => false end.
Definition in_table (m : meth) (t : table) : bool :=
  match m with MStr s => tmem s t | _ => false end.

Section Functionals.
  (* the regenerated tables *)
  Variables t_solve t_symeig t_rf t_equil t_opt t_pre_equil t_pre_rf
            t_ivp t_quad t_mcquad t_interp t_squad : table.
  Variables d_rf d_equil d_min d_ivp d_quad d_mcquad d_interp d_squad : string.

  (* solve(): `dflt` is the name chosen when method is None (dense / small / Hermitian rule) *)
  Definition dispatch_solve (dflt : string) (m : meth) : outcome :=
    let m := lower_meth (with_default dflt m) in
    if is_name m "exactsolve" then Direct "exactsolve" else get_method "solve" t_solve m.

  Definition dispatch_symeig (m : meth) : outcome :=
    let m := lower_meth (with_default "exacteig" m) in
    if is_name m "exacteig" then Direct "exacteig" else get_method "symeig" t_symeig m.

  Definition dispatch_rootfinder (m : meth) : outcome :=
    get_method "rootfinder" t_rf (with_default d_rf m).

  Definition dispatch_equilibrium (m : meth) : outcome :=
    let m := lower_meth (with_default d_equil m) in
    if in_table m t_pre_equil then get_method "equilibrium" t_equil m
    else get_method "rootfinder" t_rf m.

  Definition dispatch_minimize (m : meth) : outcome :=
    let m := lower_meth (with_default d_min m) in
    if negb (in_table m t_pre_rf) then get_method "minimizer" t_opt m
    else get_method "rootfinder" t_rf m.

  Definition dispatch_ivp (m : meth) := get_method "solve_ivp" t_ivp (with_default d_ivp m).
  Definition dispatch_quad (m : meth) := get_method "quad" t_quad (with_default d_quad m).
  Definition dispatch_mcquad (m : meth) := get_method "mcquad" t_mcquad (with_default d_mcquad m).
  Definition dispatch_interp (m : meth) := get_method "Interp1D" t_interp (with_default d_interp m).
  Definition dispatch_squad (m : meth) := get_method "SQuad" t_squad (with_default d_squad m).
End Functionals.

(* default method of solve() when method is None (xitorch/linalg/solve.py L96-104) *)
Definition solve_default (a_dense m_dense_or_absent : bool) (n : nat) (hermitian : bool) : string :=
  if a_dense && m_dense_or_absent then "exactsolve"
  else if (n <=? 5)%nat then "exactsolve"
  else if hermitian then "cg" else "bicgstab".

(* ---------- option dictionaries (xitorch/_utils/misc.py) ---------- *)
Definition opts := list (string * nat).         (* values are opaque tokens *)

Fixpoint oget (k : string) (o : opts) : option nat :=
  match o with
  | [] => None
  | (k', v) :: r => if String.eqb k k' then Some v else oget k r
  end.
Fixpoint oremove (k : string) (o : opts) : opts :=
  match o with
  | [] => []
  | (k', v) :: r => if String.eqb k k' then oremove k r else (k', v) :: oremove k r
  end.
(* dict.update: existing keys keep their position, new keys are appended *)
Fixpoint oset (k : string) (v : nat) (o : opts) : opts :=
  match o with
  | [] => [(k, v)]
  | (k', v') :: r => if String.eqb k k' then (k, v) :: r else (k', v') :: oset k v r
  end.
Definition set_default_option (defopt opt : opts) : opts :=
  fold_left (fun acc kv => oset (fst kv) (snd kv) acc) opt defopt.

(* keyword arguments that reach the forward method, and the configuration used by the
   backward pass of quad / solve_ivp / mcquad:  bck_config = fwd (incl. method) updated by bck *)
Definition fwd_kwargs (fwd : opts) : opts := oremove "method" fwd.
Definition bck_config (fwd_with_method bck : opts) : opts := set_default_option fwd_with_method bck.

Fixpoint opts_eqb (a b : opts) : bool :=
  match a, b with
  | [], [] => true
  | (k, v) :: r, (k', v') :: s => String.eqb k k' && Nat.eqb v v' && opts_eqb r s
  | _, _ => false
  end.

Definition outcome_eqb (a b : outcome) : bool :=
  match a, b with
  | Direct x, Direct y => String.eqb x y
  | Ran f i, Ran g j => String.eqb f g && String.eqb i j
  | Custom f i, Custom g j => String.eqb f g && Nat.eqb i j
  | ErrUnknown, ErrUnknown | ErrType, ErrType | ErrAssert, ErrAssert => true
  | _, _ => false
  end.

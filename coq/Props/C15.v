(* C15 — SQuad integrates the interpolant of the samples exactly. *)
From mathcomp Require Import all_ssreflect all_algebra.
From XV Require Import Proofs.InterpAlgebra Proofs.SQuadAlgebra.
Import GRing.Theory Num.Theory.
Local Open Scope ring_scope.

(* trapz: each interval contributes the exact integral of the linear piece *)
Theorem C15_trapz_piece : forall (F : realFieldType) (xl xr yl yr : F), xr != xl ->
  integ (yl, (yr - yl) / (xr - xl), 0, 0) (xr - xl) = (yl + yr) * ((xr - xl) * 2%:R^-1).
Proof. exact trapz_piece. Qed.
Print Assumptions C15_trapz_piece.

(* cumulative structure of the trapz weight matrix: row 0 is zero (first entry of cumsum is zero) and
   row r+1 - row r puts 0.5*dx_r on columns r and r+1 (cumsum[r+1] - cumsum[r] = piece integral) *)
Theorem C15_trapz_rows : forall (R : comRingType) (half : nat -> R) r c,
  trapz_w half 0 c = 0 /\
  trapz_w half r.+1 c = trapz_w half r c + ((if c == r.+1 then half r else 0) + (if c == r then half r else 0)).
Proof. by move=> R half r c; split; [apply: trapz_w_row0|apply: trapz_w_step]. Qed.
Print Assumptions C15_trapz_rows.

(* cspline: each interval contributes the exact integral of the cubic Hermite piece:
   (yl+yr) dx/2 + (kl-kr) dx^2/12 -- the two weight matrices of CubicSplineSQuad *)
Theorem C15_cspline_piece : forall (F : realFieldType) (xl xr yl yr kl kr : F), xr != xl ->
  integ (cub_coefs xl xr yl yr kl kr) (xr - xl) =
  (yl + yr) * ((xr - xl) * 2%:R^-1) + (kl - kr) * ((xr - xl) * (xr - xl) / 12%:R).
Proof. exact cspline_piece. Qed.
Print Assumptions C15_cspline_piece.

(* simpson on irregular spacing: the three weights of a double interval integrate 1, s, s^2 exactly
   (i.e. the parabola through the three samples); the odd-index correction integrates the same kind of
   parabola over the last single interval *)
Theorem C15_simpson_even_exact : forall (F : realFieldType) (h0 h1 : F), h0 != 0 -> h1 != 0 -> h1 + h0 != 0 ->
  let alpha : F := (2%:R * (h1 * h1 * h1) - h0 * h0 * h0 + 3%:R * h0 * (h1 * h1)) / (6%:R * h1 * (h1 + h0)) in
  let eta : F := (2%:R * (h0 * h0 * h0) - h1 * h1 * h1 + 3%:R * h1 * (h0 * h0)) / (6%:R * h0 * (h1 + h0)) in
  let beta : F := (h1 * h1 * h1 + h0 * h0 * h0 + 3%:R * h1 * h0 * (h1 + h0)) / (6%:R * h1 * h0) in
  [/\ eta + beta + alpha = h0 + h1,
      beta * h0 + alpha * (h0 + h1) = (h0 + h1) ^+ 2 / 2%:R &
      beta * h0 ^+ 2 + alpha * (h0 + h1) ^+ 2 = (h0 + h1) ^+ 3 / 3%:R].
Proof. exact simpson_even_exact. Qed.
Print Assumptions C15_simpson_even_exact.

Theorem C15_simpson_odd_exact : forall (F : realFieldType) (hN1 hN2 : F), hN1 != 0 -> hN2 != 0 -> hN1 + hN2 != 0 ->
  let alpha_l : F := (2%:R * hN1 * hN1 + 3%:R * hN1 * hN2) / (6%:R * (hN1 + hN2)) in
  let eta_l : F := hN1 * hN1 * hN1 / (6%:R * hN2 * (hN1 + hN2)) in
  let beta_l : F := (hN1 * hN1 + 3%:R * hN1 * hN2) / (6%:R * hN2) in
  [/\ - eta_l + beta_l + alpha_l = hN1,
      beta_l * hN2 + alpha_l * (hN2 + hN1) = ((hN2 + hN1) ^+ 2 - hN2 ^+ 2) / 2%:R &
      beta_l * hN2 ^+ 2 + alpha_l * (hN2 + hN1) ^+ 2 = ((hN2 + hN1) ^+ 3 - hN2 ^+ 3) / 3%:R].
Proof. exact simpson_odd_exact. Qed.
Print Assumptions C15_simpson_odd_exact.

(* C09 — a function gives the same results however its parameters are supplied (model part:
   de-duplication of object parameters, what user code sees under a substitution, sibling
   parameter splitting). *)
From Coq Require Import List Bool Arith.
Import ListNotations.
From XV Require Import Model.Packer Model.PureFn Proofs.PureFnProofs.

(* T1: mapping the unique parameters back gives every slot its own tensor *)
Theorem C09_map_unique_unique : forall all, map_unique (snd (uniq_ids all)) (unique_objs all) = all.
Proof. exact map_unique_unique. Qed.
Print Assumptions C09_map_unique_unique.

(* T2: the unique list has each distinct tensor exactly once *)
Theorem C09_unique_objs_nodup : forall all,
  NoDup (unique_objs all) /\ (forall x, In x (unique_objs all) <-> In x all).
Proof. exact unique_objs_nodup. Qed.
Print Assumptions C09_unique_objs_nodup.

(* T3: aliasing is preserved under substitution: two slots get the same new tensor iff they held
   the same old tensor *)
Theorem C09_aliasing_preserved : forall all us i j,
  length us = length (unique_objs all) -> NoDup us -> i < length all -> j < length all ->
  (nth i (map_unique (snd (uniq_ids all)) us) 0 = nth j (map_unique (snd (uniq_ids all)) us) 0
   <-> nth i all 0 = nth j all 0).
Proof. exact aliasing_preserved. Qed.
Print Assumptions C09_aliasing_preserved.

(* T4: under `useobjparams(new)` user code sees, in every named slot, the tensor supplied for
   that slot's class: the object-held representation denotes the same function of the unique
   parameters as the explicit one *)
Theorem C09_inner_view : forall s new crash n,
  allowed s = true -> prefix_identical new (cur s) = false -> length new = nuniq s ->
  r_trace (exec (PUse new PCall) crash s n) = [mkO (map_unique (inv s) new) (dbg s)].
Proof. exact inner_view. Qed.
Print Assumptions C09_inner_view.

(* T5: several siblings: slicing the concatenated parameter list by cumulative lengths gives each
   function its own parameters back *)
Theorem C09_multisibling_split_concat : forall parts : list (list nat),
  split_by (map (@length nat) parts) (concat parts) = parts.
Proof. exact multisibling_split_concat. Qed.
Print Assumptions C09_multisibling_split_concat.

Example C09_nonvacuous :
  uniq_ids [5; 6; 5; 7; 6] = ([0; 1; 3], [0; 1; 0; 2; 1]) /\
  map_unique [0; 1; 0; 2; 1] [10; 11; 12] = [10; 11; 10; 12; 11].
Proof. vm_compute. auto. Qed.

(* ---- xitorch/_utils/unique.py:Uniquifier.__init__ as translated from /repo on this run (Gen/PyUnique.v) computes the
   first-occurrence de-duplication [uniq_go] of the model, for every list of objects with distinct identities ---- *)
From Coq Require Import ZArith.
From XV Require Import Base.PyLib Gen.PyUnique Proofs.PyUniqueProofs.
Theorem C09_translated_uniquifier_is_model : forall (f : nat -> obj),
  (forall i j, obj_id (f i) = obj_id (f j) -> i = j) -> forall ids,
  let ui := fst (uniq_go ids 0 [] 0) in
  let inv := snd (uniq_go ids 0 [] 0) in
  uniquifier_init (map f ids) =
  Ok (Z.of_nat (length ids), map f (uniq_new ids [] 0), map Z.of_nat ui, map Z.of_nat inv,
      Z.of_nat (length ui), Z.eqb (Z.of_nat (length ids)) (Z.of_nat (length ui))).
Proof. exact uniquifier_init_refines. Qed.
Print Assumptions C09_translated_uniquifier_is_model.

(* ... and the unique objects the constructor keeps are the model's unique_objs *)
Theorem C09_translated_unique_objs_are_model : forall ids, uniq_new ids [] 0 = unique_objs ids.
Proof. exact uniq_new_is_unique_objs. Qed.
Print Assumptions C09_translated_unique_objs_are_model.

(* ---- PureFunction.set_objparams / restore_objparams / _check_identical_objs of xitorch/_core/pure_function.py as translated
   from /repo on this run (Gen/PyPureFn.v): they ARE the transitions set_obj / restore_obj of the model the theorems above are
   about, and - directly on the translated code - a substitution followed by its restoration gives back the object store, the
   current parameters and the restore stack ---- *)
From Coq Require String.
Import String.StringSyntax.
From XV Require Import Gen.PyPureFn Proofs.PyPureFnProofs.

Theorem C09_translated_check_identical_is_model : forall (f : nat -> obj),
  (forall i j, obj_id (f i) = obj_id (f j) -> i = j) -> forall a b,
  check_identical_objs (map f a) (map f b) = Ok (prefix_identical a b).
Proof. exact check_identical_objs_refines. Qed.
Print Assumptions C09_translated_check_identical_is_model.

Theorem C09_translated_set_objparams_is_model : forall (f : nat -> obj),
  (forall i j, obj_id (f i) = obj_id (f j) -> i = j) -> forall s n uo ui au new,
  uniq_wf s au ->
  purefn_set_objparams (allowed s) (map f (store s)) (uniq_of s n uo ui au) (map f (cur s)) (stack_of f (stack s)) (map f new) =
  (if snd (set_obj s new) then Raise "RuntimeError" else Ok (fields_out f (fst (set_obj s new)))).
Proof. exact set_objparams_refines. Qed.
Print Assumptions C09_translated_set_objparams_is_model.

Theorem C09_translated_restore_objparams_is_model : forall (f : nat -> obj) s n uo ui au old ident r,
  uniq_wf s au -> stack s = (old, ident) :: r -> (ident = false -> length old = nuniq s) ->
  purefn_restore_objparams (allowed s) (map f (store s)) (uniq_of s n uo ui au) (map f (cur s)) (stack_of f (stack s)) =
  Ok (fields_out f (restore_obj s)).
Proof. exact restore_objparams_refines. Qed.
Print Assumptions C09_translated_restore_objparams_is_model.

Theorem C09_translated_set_then_restore_is_identity : forall (f : nat -> obj),
  (forall i j, obj_id (f i) = obj_id (f j) -> i = j) -> forall s n uo ui au new F1,
  wf s -> uniq_wf s au ->
  purefn_set_objparams (allowed s) (map f (store s)) (uniq_of s n uo ui au) (map f (cur s)) (stack_of f (stack s)) (map f new) = Ok F1 ->
  let '(st1, cur1, stk1) := F1 in
  purefn_restore_objparams (allowed s) st1 (uniq_of s n uo ui au) cur1 stk1 = Ok (fields_out f s).
Proof. exact code_set_then_restore. Qed.
Print Assumptions C09_translated_set_then_restore_is_identity.

(* the wrapper state of the model for any parameter list, with the constructor's all_unique flag, meets the side condition *)
Theorem C09_translated_uniquifier_flags_consistent : forall all d,
  uniq_wf (wrap all d) (Z.eqb (Z.of_nat (length all)) (Z.of_nat (length (fst (uniq_ids all))))).
Proof. exact wf_of_init. Qed.
Print Assumptions C09_translated_uniquifier_flags_consistent.

(* Uniquifier.get_unique_objs as translated from /repo on this run: handed a list as long as the constructor's input, it returns
   the entries at the model's first-occurrence positions (Packer.select over uniq_ids), for EVERY list; handed nothing, it
   returns the unique objects the constructor kept *)
Theorem C09_translated_get_unique_objs_is_model : forall (f : nat -> obj) ids uo inv' nu (us : list nat),
  length us = length ids ->
  uniquifier_get_unique_objs (Z.of_nat (length ids)) uo (map Z.of_nat (fst (uniq_ids ids))) inv' nu false (Some (map f us)) =
  Ok (map f (select 0%nat us (fst (uniq_ids ids)))).
Proof. exact get_unique_objs_refines. Qed.
Print Assumptions C09_translated_get_unique_objs_is_model.

Theorem C09_translated_get_unique_objs_default : forall (n : Z) (uo : list obj) (ui inv' : list Z) (nu : Z) (au : bool),
  uniquifier_get_unique_objs n uo ui inv' nu au None = Ok uo.
Proof. exact get_unique_objs_default. Qed.
Print Assumptions C09_translated_get_unique_objs_default.

(* ---- xitorch/_core/editable_module.py as translated from /repo on this run (Gen/PyEditable.v): the search loop of
   _get_unique_params_idxs returns the model's first-occurrence positions for EVERY parameter list; with its groups the scatter of
   setuniqueparams is the model's map_unique and setuniqueparams(getuniqueparams()) is the identity, for every aliasing pattern
   of up to 7 parameters (exhaustive, the bound is part of the statement) ---- *)
From XV Require Import Gen.PyEditable Proofs.PyEditableProofs.

Theorem C09_translated_unique_params_idxs_is_model : forall (f : nat -> obj),
  (forall i j, obj_id (f i) = obj_id (f j) -> i = j) -> forall ids,
  exists groups,
    editable_unique_params_idxs (map f ids) = Ok (map Z.of_nat (fst (uniq_go ids 0 [] 0)), groups) /\
    length groups = length (fst (uniq_go ids 0 [] 0)).
Proof. exact editable_unique_params_idxs_refines. Qed.
Print Assumptions C09_translated_unique_params_idxs_is_model.

Theorem C09_translated_setuniqueparams_upto_7 : forall pat, In pat (all_patterns 7) -> pattern_ok pat = true.
Proof. exact setuniqueparams_roundtrip_upto_7. Qed.
Print Assumptions C09_translated_setuniqueparams_upto_7.
